#!/bin/bash
# Run the repository's pinned suite on a tree (default /repo) and print pass/fail counts.
# usage: run_suite.sh [repo_dir]
D=${1:-/repo}
OUT=$(mktemp /tmp/suite.XXXXXX.xml)
cd "$D" && PYTHONPATH="$D/src" /venv/bin/python -m pytest -ra -q -p no:cacheprovider --timeout=900 --continue-on-collection-errors --junitxml="$OUT" >/tmp/suite.last.log 2>&1
python3 - "$OUT" <<'PY'
import sys,xml.etree.ElementTree as ET
r=ET.parse(sys.argv[1]).getroot()
ts=r if r.tag=='testsuite' else r[0]
print({k:ts.get(k) for k in ('tests','failures','errors','skipped')})
for tc in ts.iter('testcase'):
    for ch in tc:
        if ch.tag in('failure','error'): print(ch.tag, tc.get('classname'), tc.get('name'))
PY
rm -f "$OUT"
