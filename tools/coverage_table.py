#!/usr/bin/env python3
"""Print the per-property coverage table of DESIGN.md 9.6 from the committed evidence files."""
import json, os
ROOT = os.path.dirname(os.path.dirname(os.path.abspath(__file__)))
man = {c["property_id"]: c for c in json.load(open(f"{ROOT}/MANIFEST.json"))["checks"]}
print("| id | claimed | functions under contract | obligations discharged / generated | static frame obligations | open (bounded-only) clauses | bounded evaluations (quick) |")
print("|----|---------|--------------------------|-------------------------------------|--------------------------|------------------------------|------------------------------|")
for i in range(1, 21):
    pid = f"C{i:02d}"
    p = f"{ROOT}/evidence/{pid}.json"
    if not os.path.exists(p):
        continue
    e = json.load(open(p)); c = e["coverage"]
    fns = c.get("functions_under_contract", [])
    st = c.get("static_checks", [])
    n_static = sum(x.get("units", 0) for x in st)
    deg = c.get("degraded_to_bounded", [])
    print(f"| {pid} | {man[pid]['level_claimed']['category']} | {len(fns)} | {c.get('discharged', 0)} / {c.get('obligations', 0)} | {n_static} | {len(deg)} | {c.get('bounded', {}).get('evaluations', 0)} |")
