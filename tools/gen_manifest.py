#!/usr/bin/env python3
"""Regenerate /verif/MANIFEST.json from the table below (single source of truth for the registered checks)."""
import json, os

V = "/verif"
TRUST = ("trusted base: pyvc VC generator + symbolic semantics (DESIGN 2.2), z3 5.1, object-model declarations (contracts/model_decl.py), "
         "assumed library contracts (DESIGN 7.2 A4), the paper composition lemma of the property (DESIGN section 4); bounded stand-ins are labelled bounded and never counted as proved")

CHECKS = {
    # id: (category, text, technique)
    "C01": ("other", "Function contracts on the real value-resolution / readiness / unpacking functions discharged by z3 for all inputs (get_value_source, _resolve_input, collect_inputs_for_node, _has_input, _is_stale, _needs_execution, wrap_outputs, update_value ...); run-level equality with dependency-order evaluation only relative to paper lemma L-C01, plus a bounded end-to-end oracle on generated DAG programs", "contract-based deductive verification (pyvc: AST->VC->z3) + bounded native oracle"),
    "C02": ("other", "Superstep-loop contracts of both runners (same loop shape and step bound), GraphState.update_value data-structure contract; equality of whole runs across runners / completion orders / max_concurrency / node order only by the bounded differential harness (yield-count schedules, failing nodes)", "contract-based deductive verification + bounded differential harness"),
    "C03": ("other", "Activation / stale-decision clearing / decision validation / gate execution contracts discharged by z3 (_get_activated_nodes, _clear_stale_gate_decisions, validate_routing_decision, execute_ifelse/route ...); get_ready_nodes' blocking clause and the run-level trace property are bounded only", "contract-based deductive verification + bounded native oracle"),
    "C04": ("other", "Step-bound contract on both runners' superstep loops (at most max_iterations supersteps; InfiniteLoopError exactly when nodes are still ready afterwards; quiescent runs return), staleness / stale-decision-clearing / version contracts discharged by z3; iteration counts equal to the sequential while-loop only by the bounded loop-family oracle", "contract-based deductive verification (PATH + VC) + bounded native oracle"),
    "C05": ("other", "GraphNode value-resolution branch of get_value_source proved; wrapper name translation / input-spec equality decided only by the bounded flat-vs-nested family (inner/outer bindings, rename histories, depth 1..2) - bounded, not proved", "bounded native oracle (nest family) + function contracts where available"),
    "C06": ("other", "Rename maps decided by the bounded history enumeration (net-identity histories, swaps, name re-use, real renames, alpha-renaming, map_over/clone lists); no deductive obligation discharged yet for _rename.py", "bounded native oracle (rename histories)"),
    "C07": ("other", "Class-wide static FRAME obligations on the real AST (no method of Graph / node classes writes to its receiver; _shallow_copy re-creates _bound and drops memoised inputs) + bounded derivation-sequence harness with twin oracle", "static frame analysis (all paths) + bounded native oracle"),
    "C08": ("proof", "PATH obligations (path-complete symbolic execution of the loop-free lifecycle templates): every validator precedes every effect on all paths of run/map, for both runners; input-spec exactness is bounded only", "contract-based deductive verification (PATH obligations over ghost traces)"),
    "C09": ("proof", "PATH obligations on DiskCache.get/set (HMAC verified before pickle.loads on every path; payload-then-signature write order; misses otherwise), InMemoryCache.get, check_cache opt-in, restore_routing_decision frame; cache-key injectivity and run-level transparency by the bounded harness (twin nodes, corruption matrix, torn writes)", "contract-based deductive verification (PATH) + bounded native oracle"),
    "C10": ("other", "Static FRAME/atomicity obligation on the bounded async map worker (result and index recorded together after the item completed) and PATH obligations on the sync map template; expansion order, alignment with single runs and None placeholders decided by the bounded map family (zip/product, completion orders, failing and branching items, mapping nodes)", "static atomicity analysis + PATH obligations + bounded native oracle"),
    "C11": ("proof", "PATH obligations on run templates: surfaced exception object is the cause of the internal wrapper; continue mode never raises after RunStart; FAILED values go through filter_outputs with default on_missing", "contract-based deductive verification (PATH obligations)"),
    "C12": ("proof", "PATH obligations: RunStart..exactly one RunEnd with the observed status on every terminated path of run/map templates, shutdown last and only at top level; dispatcher delivery contracts", "contract-based deductive verification (PATH obligations)"),
    "C13": ("proof", "EventDispatcher.emit/emit_async/shutdown/shutdown_async: no Exception escapes in non-strict mode, every processor visited exactly once per event, loop never left early (all paths, coroutine-accurate await model)", "contract-based deductive verification (PATH + loop-body trace obligations)"),
    "C14": ("other", "PATH obligations on the async run template (PAUSED result built from filter_outputs of the pre-step state, no RunEnd on a pause); pause-before-dependants, pause identity through nesting and resume-equals-auto-resolve decided by the bounded interrupt family (1..3 interrupts, falsy answers, siblings in the interrupt's step)", "contract-based deductive verification (PATH) + bounded native oracle"),
    "C15": ("other", "PATH obligation on the leaf executor (permit bracket on every path, nothing else while held), limiter-install/reset bracket of the async superstep loop, static obligations (limiter acquired nowhere else in runners/; map installs and resets the shared limiter); the numeric bound and deadlock freedom rest on assumed Semaphore/contextvars contracts and the bounded adversarial harness", "contract-based deductive verification (PATH) + static frame analysis + bounded native oracle"),
    "C16": ("other", "filter_outputs family contracts (only selected / declared names, never a sentinel, values from state) discharged by z3; scheduler scope clause bounded only", "contract-based deductive verification + bounded native oracle"),
    "C17": ("other", "wait_for freshness test, deferral, sentinel production and version-advance contracts (update_value: every emission advances the version) discharged by z3; run-level trace property bounded only", "contract-based deductive verification + bounded native oracle"),
    "C18": ("other", "copy-only-defaults / identity-of-bound-values contracts (_resolve_input, _safe_deepcopy, collect_inputs_for_node frame, initialize_state) discharged by z3; isolation of whole runs bounded only", "contract-based deductive verification + bounded native oracle"),
    "C19": ("other", "Constructor rejection decided by the bounded flaw-injection family (every position) and the closed type-expression universe against an independent evaluator of the documented rules; no deductive obligation discharged for the validators yet", "bounded native oracle (flaw injection, type universe)"),
    "C20": ("other", "Bounded: every expansion state x output mode (interactive view) and every Mermaid depth of generated nested graphs against a structure oracle computed from the spec; one known finding (F8) is reported as KNOWN-FINDING", "bounded native oracle (structure oracle over all expansion states)"),
}
PENDING = {}
ALL = [f"C{i:02d}" for i in range(1, 21)]


def main():
    checks = []
    for pid, (cat, text, tech) in CHECKS.items():
        checks.append({
            "property_id": pid,
            "quick_cmd": f"./check {pid} --tier quick",
            "thorough_cmd": f"./check {pid} --tier thorough",
            "evidence_file": f"/verif/evidence/{pid}.json",
            "replay_cmd_template": "/venv/bin/python /verif/replay.py {path}",
            "engine": "pyvc",
            "level_claimed": {"category": cat, "text": text, "design_ref": f"DESIGN.md section 4 ({pid}), 2, 7"},
            "level_note": TRUST,
            "technique": tech,
        })
    na = [{"property_id": p, "reason": PENDING.get(p, "check not registered yet: contracts/harness for this property are still being built in this session (not a statement that the technique cannot apply)")}
          for p in ALL if p not in CHECKS]
    m = {
        "version": 1,
        "setup_cmd": "python3-vt -c 'import z3, cvc5, jsonschema' && /venv/bin/python -c 'import hypergraph' && python3-vt -m compileall -q /verif/pyvc /verif/contracts /verif/harness > /dev/null",
        "hooks": {"guard": "HYPERGRAPH_VERIF", "enable": "no hooks: contracts are sidecars under /verif/contracts; /repo is read, never edited, by the checks",
                  "baseline_off_cmd": "cd /repo && /venv/bin/python -m pytest -ra -q -p no:cacheprovider --timeout=900 --continue-on-collection-errors", "source_commits": [], "add_only": True},
        "engines": [{"name": "pyvc", "path": "/verif/pyvc", "serves_properties": sorted(CHECKS), "kind_free_text": "own AST->verification-condition generator (forward symbolic execution of the real function ASTs, loops cut by sidecar invariants, modular callee contracts, PATH/FRAME obligations over ghost traces) discharging to z3; native bounded harness under /verif/harness as labelled stand-in"}],
        "checks": checks,
        "notes": "Evidence 'level' is computed per run: 'proof' only when every generated obligation is discharged and nothing was degraded to bounded. 8 genuine defects were repaired by fix: commits in /repo (see known_findings.json).",
        "not_applicable": na,
    }
    json.dump(m, open(os.path.join(V, "MANIFEST.json"), "w"), indent=1)
    print("checks:", len(checks), "not_applicable:", len(na))

main()
