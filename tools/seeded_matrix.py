#!/usr/bin/env python3
"""Self-validation: run the registered check of each seeded change's property against a scratch copy of /repo with the
change applied.  Writes /verif/seeded/matrix.json (which check catches which change, exit code, first VIOLATION line)."""
import json, os, subprocess, sys, tempfile, time

ROOT = os.environ.get("VERIF_ROOT", "/verif")  # run from a snapshot of /verif while /verif itself is being edited
SEEDED = "/verif/seeded"

def sh(cmd, **kw):
    return subprocess.run(cmd, shell=True, capture_output=True, text=True, **kw)

def main():
    only = sys.argv[1:]
    wt = tempfile.mkdtemp(prefix="hgv-matrix-", dir="/tmp"); os.rmdir(wt)
    out = tempfile.mkdtemp(prefix="hgv-matrix-out-", dir="/tmp")
    assert sh(f"git -C /repo worktree add -q {wt} HEAD").returncode == 0
    env = dict(os.environ, VERIF_REPO=wt, VERIF_OUT=out)
    seed = os.environ.get("VERIF_SEED", "0") or "0"
    MATRIX = f"{SEEDED}/matrix.json" if seed == "0" else f"{SEEDED}/matrix_seed{seed}.json"
    matrix = json.load(open(MATRIX)) if os.path.exists(MATRIX) else {}
    try:
        for sid in sorted(d for d in os.listdir(SEEDED) if os.path.isdir(f"{SEEDED}/{d}") and not d.startswith("_")):
            if only and sid not in only and sid.split("-")[0] not in only:
                continue
            prop = json.load(open(f"{SEEDED}/{sid}/meta.json"))["breaks_property"]
            sh("git checkout -q -- . && git clean -fdq", cwd=wt)
            if sh(f"git apply {SEEDED}/{sid}/patch.diff", cwd=wt).returncode != 0:
                matrix[sid] = {"property": prop, "error": "patch does not apply"}; continue
            t0 = time.time()
            p = sh(f"{ROOT}/check {prop} --tier quick", env=env, cwd=ROOT, timeout=1800)
            lines = [l for l in p.stdout.splitlines() if l.startswith("VIOLATION") or l.startswith("KNOWN-FINDING")]
            first = lines[0] if lines else ""
            what = ""
            if first.startswith("VIOLATION"):
                rp = first.split("replay=")[1].split()[0]
                try:
                    rec = json.load(open(rp)); what = (rec.get("what") or rec.get("clause") or "")[:200]
                    kind = rec.get("kind")
                except Exception:
                    kind = "?"
            else:
                kind = None
            matrix[sid] = {"property": prop, "check_exit": p.returncode, "caught": p.returncode == 1, "n_violation_lines": len([l for l in lines if l.startswith("VIOLATION")]),
                           "first_kind": kind, "first_what": what, "mechanisms": next((l[len("MECHANISMS "):] for l in p.stdout.splitlines() if l.startswith("MECHANISMS ")), ""), "wall_s": round(time.time() - t0, 1), "summary": [l for l in p.stdout.splitlines() if " tier=" in l][-1:] }
            print(sid, matrix[sid]["check_exit"], matrix[sid]["first_kind"], what[:100], flush=True)
            json.dump(matrix, open(MATRIX, "w"), indent=1)
    finally:
        sh(f"git -C /repo worktree remove --force {wt}")
        sh(f"rm -rf {out}")

main()
