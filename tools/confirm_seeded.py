#!/usr/bin/env python3
"""Confirm staged seeded changes independently: on a scratch worktree of /repo HEAD, each patch must apply, the unedited
suite must pass with it, its demo must fail (exit 1) with it and pass (exit 0) without it.  Confirmed ones are moved to
/verif/seeded/<id>/ with meta.json."""
import json, os, shutil, subprocess, sys, tempfile
STAGING = "/verif/seeded/_staging"
SEEDED = "/verif/seeded"

def sh(cmd, cwd=None, env=None, timeout=1200):
    p = subprocess.run(cmd, shell=True, cwd=cwd, env=env, capture_output=True, text=True, timeout=timeout)
    return p.returncode, (p.stdout + p.stderr)[-2000:]

def main():
    only = sys.argv[1:]
    wt = tempfile.mkdtemp(prefix="hgv-confirm-", dir="/tmp")
    os.rmdir(wt)
    rc, out = sh(f"git -C /repo worktree add -q {wt} HEAD")
    assert rc == 0, out
    env = dict(os.environ, PYTHONPATH=f"{wt}/src")
    report = {}
    try:
        for d in sorted(os.listdir(STAGING)):
            prop = d.replace("out_", "")
            for letter in "ABCDEFGHIJ":
                sid = f"{prop}-{letter}"
                if only and sid not in only and prop not in only:
                    continue
                patch = f"{STAGING}/{d}/{letter}.diff"
                demo = f"{STAGING}/{d}/demo_{letter}.py"
                if not (os.path.exists(patch) and os.path.exists(demo)):
                    continue
                r = {"property": prop}
                sh("git checkout -q -- . && git clean -fdq", cwd=wt)
                r["demo_clean_rc"], _ = sh(f"/venv/bin/python {demo}", cwd=wt, env=env, timeout=300)
                rc, out = sh(f"git apply {patch}", cwd=wt)
                r["applies"] = rc == 0
                if rc != 0:
                    r["apply_err"] = out[-300:]
                    report[sid] = r
                    print(sid, r, flush=True)
                    continue
                r["demo_patched_rc"], dout = sh(f"/venv/bin/python {demo}", cwd=wt, env=env, timeout=300)
                r["demo_patched_tail"] = dout[-300:]
                rc, out = sh("/venv/bin/python -m pytest -q -p no:cacheprovider --timeout=900 -x -q > /dev/null 2>&1", cwd=wt, env=env)
                if rc != 0:  # one retry: timing-sensitive tests can fail under heavy machine load
                    rc, out = sh("/venv/bin/python -m pytest -q -p no:cacheprovider --timeout=900 -x -q > /dev/null 2>&1", cwd=wt, env=env)
                r["suite_rc"] = rc
                r["confirmed"] = r["demo_clean_rc"] == 0 and r["demo_patched_rc"] == 1 and rc == 0
                report[sid] = r
                print(sid, {k: v for k, v in r.items() if k != "demo_patched_tail"}, flush=True)
                if r["confirmed"]:
                    dst = f"{SEEDED}/{sid}"
                    os.makedirs(dst, exist_ok=True)
                    shutil.copy(patch, f"{dst}/patch.diff")
                    shutil.copy(demo, f"{dst}/demo.py")
                    notes = open(f"{STAGING}/{d}/notes.md").read() if os.path.exists(f"{STAGING}/{d}/notes.md") else ""
                    meta = {"id": sid, "breaks_property": prop, "needs_to_manifest": "see notes (section for change %s)" % letter,
                            "confirmed_by": "tools/confirm_seeded.py on a scratch worktree of /repo HEAD",
                            "ran": {"suite_with_patch_exit": rc, "demo_with_patch_exit": r["demo_patched_rc"], "demo_without_patch_exit": r["demo_clean_rc"]},
                            "repo_head": subprocess.run("git -C /repo rev-parse --short HEAD", shell=True, capture_output=True, text=True).stdout.strip()}
                    json.dump(meta, open(f"{dst}/meta.json", "w"), indent=1)
                    open(f"{dst}/notes.md", "w").write(notes)
    finally:
        sh(f"git -C /repo worktree remove --force {wt}")
    json.dump(report, open("/verif/seeded/_staging/confirm_report.json", "w"), indent=1)

main()
