#!/usr/bin/env python3
"""Semantics-preserving edits of functions under contract: every registered check must keep exiting 0.

DESIGN section 8, item 3.  Each edit is a textual replacement in one file of a scratch worktree of /repo (under /tmp, removed
at the end); the quick checks of the listed properties are run against it with VERIF_REPO / VERIF_OUT pointing at scratch
directories, so neither /repo nor the committed evidence is touched.  An edit that makes a check print VIOLATION is a FALSE ALARM of the machinery.

    python3 tools/benign_edits.py [ids...]      -> seeded/benign.json
"""
import json
import os
import subprocess
import sys
import time

ROOT = os.environ.get("VERIF_ROOT") or os.path.dirname(os.path.dirname(os.path.abspath(__file__)))
import tempfile

WT = tempfile.mkdtemp(prefix="hgv-benign-", dir="/tmp"); os.rmdir(WT)
OUTDIR = tempfile.mkdtemp(prefix="hgv-benign-out-", dir="/tmp")
REPO = WT
SRC = os.path.join(REPO, "src", "hypergraph")

H = "runners/_shared/helpers.py"

EDITS = [
    # id, file, [(old, new), ...], properties whose checks verify the function, what kind of edit
    ("B01", H, [("ready_gate_names", "gate_names_ready"), ("blocked_targets", "blocked")], ["C01", "C03"],
     "get_ready_nodes: two locals renamed"),
    ("B02", H, [("""            current_version = state.get_version(name)
            consumed_version = last_exec.wait_for_versions.get(name, 0)
            if current_version <= consumed_version:
                return False
""", """            if state.get_version(name) <= last_exec.wait_for_versions.get(name, 0):
                return False
""")], ["C17"], "_wait_for_satisfied: two temporaries inlined"),
    ("B03", H, [("""    if decision is END:
        return False
    if decision is None:
        return False
    if isinstance(decision, list):
""", """    if decision is END or decision is None:
        return False
    if isinstance(decision, list):
""")], ["C03"], "_is_node_activated_by_decision: two guards merged"),
    ("B04", H, [("renamed_values", "translated"), ("    collected: dict[str, list] = {name: [] for name in node.outputs}", "    out: dict[str, list] = {name: [] for name in node.outputs}"),
                ("                collected[name].append(None)", "                out[name].append(None)"),
                ("            collected[name].append(translated.get(name))", "            out[name].append(translated.get(name))"),
                ("    return collected\n", "    return out\n")], ["C10"], "collect_as_lists: locals renamed (the loop invariants name them)"),
    ("B05", "nodes/_rename.py", [("""    unknown_keys = [k for k in mapping if k not in valid_names]
""", """    unknown_keys = []
    for k in mapping:
        if k not in valid_names:
            unknown_keys.append(k)
""")], ["C06"], "_validate_rename_keys: comprehension -> loop"),
    ("B06", "nodes/_rename.py", [("tuple(mapping.get(v, v) for v in values)", "tuple((mapping[v] if v in mapping else v) for v in values)")], ["C06"],
     "_apply_renames: dict.get -> conditional expression"),
    ("B07", H, [("""    if node.name not in activated_nodes:
        return False

    # Check if all inputs are available
    if not _has_all_inputs(node, graph, state):
        return False

    # Check wait_for satisfaction (ordering-only inputs)
    if not _wait_for_satisfied(node, state):
        return False

    # Check if node needs execution (not executed or stale)
    return _needs_execution(node, graph, state)
""", """    return (
        node.name in activated_nodes
        and _has_all_inputs(node, graph, state)
        and _wait_for_satisfied(node, state)
        and _needs_execution(node, graph, state)
    )
""")], ["C01", "C17"], "_is_node_ready: guard chain -> one conjunction"),
    ("B08", "runners/_shared/types.py", [("""        old_value = self.values.get(name)
        is_new = name not in self.values
""", """        is_new = name not in self.values
        old_value = self.values.get(name)
""")], ["C04", "C17"], "GraphState.update_value: two independent statements swapped"),
    ("B09", "graph/input_spec.py", [("""    if param in edge_produced:
        return None  # Produced by an edge, not a user input

    if param in bound or _any_node_has_default(param, nodes):
        return "optional"

    return "required"
""", """    if param in edge_produced:
        return None  # Produced by an edge, not a user input
    has_fallback = param in bound or _any_node_has_default(param, nodes)
    return "optional" if has_fallback else "required"
""")], ["C08"], "_categorize_param: new temporary + conditional expression"),
    ("B10", "events/dispatcher.py", [("""        for processor in self._processors:
            try:
                processor.on_event(event)
            except Exception:
                if self._strict:
                    raise
                logger.warning(
                    "EventProcessor %s failed on %s",
                    processor,
                    type(event).__name__,
                    exc_info=True,
                )

    async def emit_async""", """        for proc in self._processors:
            try:
                proc.on_event(event)
            except Exception:
                if self._strict:
                    raise
                logger.warning(
                    "EventProcessor %s failed on %s",
                    proc,
                    type(event).__name__,
                    exc_info=True,
                )

    async def emit_async""")], ["C13", "C12"], "EventDispatcher.emit: loop variable renamed"),
    ("B11", H, [("""        if isinstance(node, GateNode) and node.name in state.routing_decisions:
            # END is terminal — never clear it, even if inputs changed
            if state.routing_decisions[node.name] is END:
                continue
            if _needs_execution(node, graph, state):
                del state.routing_decisions[node.name]
""", """        if not isinstance(node, GateNode) or node.name not in state.routing_decisions:
            continue
        # END is terminal — never clear it, even if inputs changed
        if state.routing_decisions[node.name] is not END and _needs_execution(node, graph, state):
            del state.routing_decisions[node.name]
""")], ["C03", "C04"], "_clear_stale_gate_decisions: control flow restructured"),
    ("B12", "cache.py", [("""        sentinel = object()
        # Raw bytes""", """        sentinel = object()
        logger.debug("cache lookup %s", key)
        # Raw bytes""")], ["C09"], "DiskCache.get: a logging call added"),
    ("B13", H, [("""        if isinstance(node, GraphNode) and get_value_source(param, node, graph, state, provided_values)[0] == ValueSource.DEFAULT:
""", """        if nested and get_value_source(param, node, graph, state, provided_values)[0] == ValueSource.DEFAULT:
"""), ("""    inputs = {}
    for param in node.inputs:
        if nested""", """    inputs = {}
    nested = isinstance(node, GraphNode)
    for param in node.inputs:
        if nested""")], ["C05", "C01"], "collect_inputs_for_node: loop-invariant test hoisted into a new local"),
    ("B15", H, [("""    ready = []
    for node in graph._nodes.values():
        if active_nodes is not None and node.name not in active_nodes:
            continue
        if _is_node_ready(node, graph, state, activated_nodes):
            ready.append(node)
""", """    ready = []
    for node in graph._nodes.values():
        in_scope = active_nodes is None or node.name in active_nodes
        if in_scope and _is_node_ready(node, graph, state, activated_nodes):
            ready.append(node)
""")], ["C01", "C16"], "get_ready_nodes: continue-guard folded into the condition (De Morgan)"),
    ("B16", "runners/_shared/types.py", [("""            if changed:
                self.versions[name] = self.versions.get(name, 0) + 1
""", """            if not changed:
                return
            self.versions[name] = self.versions.get(name, 0) + 1
""")], ["C04", "C17"], "GraphState.update_value: early return instead of a guarded statement"),
    ("B17", "runners/_shared/helpers.py", [("""        for name in node.outputs:
            collected[name].append(renamed_values.get(name))
    return collected
""", """        for name in node.outputs:
            value = renamed_values.get(name)
            collected[name].append(value)
    return collected
""")], ["C10"], "collect_as_lists: a temporary introduced inside the inner loop"),
    ("B19", H, [("""    for name in node.wait_for:
        if name not in state.values:
            return False
        # On re-execution, check freshness
        if last_exec is not None:
            current_version = state.get_version(name)
            consumed_version = last_exec.wait_for_versions.get(name, 0)
            if current_version <= consumed_version:
                return False
    return True
""", """    if any(name not in state.values for name in node.wait_for):
        return False
    if last_exec is None:
        return True
    # On re-execution, check freshness
    consumed = last_exec.wait_for_versions
    return all(state.get_version(name) > consumed.get(name, 0) for name in node.wait_for)
""")], ["C17"], "_wait_for_satisfied: loop -> two comprehensions (the CORRECT twin of seeded change C17-F)"),
    ("B19", "runners/_shared/template_async.py", [("""                results = [r for _, r in sorted(zip(order, results_list, strict=False))]
                if error_handling == "raise":
                    for result in results:
""", """                results = [r for _, r in sorted(zip(order, results_list, strict=False))]
                if error_handling == "raise":
                    for result in list(results):
""")], ["C10"], "AsyncRunnerTemplate.map: the raise-mode scan re-headed onto a copy of `results` (the CORRECT twin of seeded change C10-I)"),
    ("B20", "runners/_shared/template_sync.py", [("""            for variation_inputs in input_variations:
""", """            for variation_inputs in iter(input_variations):
""")], ["C10"], "SyncRunnerTemplate.map: the item loop re-headed onto iter(input_variations)"),
    ("B18", "graph/validation.py", None, ["C19"], "placeholder (filled below)"),
    ("B14", "graph/validation.py", None, ["C19"], "placeholder (filled below)"),
]


def _fill():
    # B14: one validator's loop variable renamed everywhere inside that function
    path = os.path.join(SRC, "graph/validation.py")
    text = open(path).read()
    start = text.index("def _validate_graph_name(")
    end = text.index("\ndef ", start + 10)
    body = text[start:end]
    EDITS[-2] = ("B18", "graph/validation.py", [("""    for name in nodes:
        if name == "END":
""", """    pass  # benign edit
    for name in nodes:
        if name == "END":
""")], ["C19"], "_validate_reserved_names: a `pass` statement before the loop")
    EDITS[-1] = ("B14", "graph/validation.py", [(body, body + "\n# (benign edit: a trailing comment after the function)\n")], ["C19"],
                 "_validate_graph_name: a comment added after the function")


def run(cmd, **kw):
    return subprocess.run(cmd, capture_output=True, text=True, **kw)


def main():
    assert run(["git", "-C", "/repo", "worktree", "add", "-q", WT, "HEAD"]).returncode == 0
    try:
        return _main()
    finally:
        run(["git", "-C", "/repo", "worktree", "remove", "--force", WT])
        run(["rm", "-rf", OUTDIR])


def _main():
    _fill()
    only = set(sys.argv[1:])
    out = []
    env = dict(os.environ, VERIF_REPO=WT, VERIF_OUT=OUTDIR)
    for eid, rel, subs, props, what in EDITS:
        if only and eid not in only:
            continue
        path = os.path.join(SRC, rel)
        text = open(path).read()
        new = text
        ok = True
        for old, rep in subs:
            if old not in new:
                ok = False
                break
            new = new.replace(old, rep)
        if not ok or new == text:
            out.append({"id": eid, "what": what, "applied": False})
            print(eid, "NOT APPLIED", what)
            continue
        rec = {"id": eid, "what": what, "file": rel, "applied": True, "checks": {}}
        try:
            open(path, "w").write(new)
            # the edited module must still import and compile
            c = run(["/venv/bin/python", "-c", "import hypergraph"], env={**os.environ, "PYTHONPATH": os.path.join(REPO, "src")})
            rec["imports"] = c.returncode == 0
            for pid in props:
                t0 = time.time()
                r = run([os.path.join(ROOT, "check"), pid, "--tier", "quick"], cwd=ROOT, env=env)
                lines = [ln for ln in r.stdout.splitlines() if ln.startswith(("VIOLATION", "KNOWN-FINDING")) or " tier=" in ln]
                rec["checks"][pid] = {"exit": r.returncode, "seconds": round(time.time() - t0, 1), "lines": lines[:6]}
                print(eid, pid, "exit", r.returncode, lines[:3], flush=True)
        finally:
            run(["git", "-C", REPO, "checkout", "--", "."])
        out.append(rec)
    dst = os.path.join(ROOT, "seeded", "benign.json")
    if only and os.path.exists(dst):
        prev = {r["id"]: r for r in json.load(open(dst))}
        prev.update({r["id"]: r for r in out})
        out = [prev[k] for k in sorted(prev)]
    json.dump(out, open(dst, "w"), indent=1)
    bad = [r["id"] for r in out if any(c["exit"] != 0 for c in r.get("checks", {}).values())]
    print("false alarms:", bad or "none")
    return 1 if bad else 0


if __name__ == "__main__":
    sys.exit(main())
