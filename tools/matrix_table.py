#!/usr/bin/env python3
"""Print the seeded-change table of DESIGN.md 9.7 from seeded/matrix.json."""
import json, os
ROOT = os.path.dirname(os.path.dirname(os.path.abspath(__file__)))
m = json.load(open(f"{ROOT}/seeded/matrix.json"))
print("| change | property | quick check | mechanisms that fired (number of VIOLATION lines) | first report |")
print("|--------|----------|-------------|----------------------------------------------------|--------------|")
for k in sorted(m):
    v = m[k]
    what = (v.get("first_what") or "").replace("|", "/").replace("\n", " ")[:110]
    print(f"| {k} | {v['property']} | {'caught (exit 1)' if v.get('caught') else 'MISSED (exit %s)' % v.get('check_exit')} | {v.get('mechanisms') or '-'} | {what} |")
