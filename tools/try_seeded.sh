#!/bin/bash
# usage: try_seeded.sh <patch.diff> <PROPERTY> [check args]  : apply a seeded change to /repo, run the check, undo it.
P=$1; shift; PROP=$1; shift
cd /repo && git diff --quiet || { echo "/repo working tree is dirty"; exit 9; }
git -C /repo apply "$P" || { echo "patch does not apply"; exit 8; }
cd /verif && ./check "$PROP" "$@" 2>&1 | grep -v conda | tail -6
RC=${PIPESTATUS[0]}
git -C /repo checkout -- .
echo "check exit=$RC"
