#!/usr/bin/env python3
"""Self-validation: re-introduce each repaired defect (reverse patch of its `fix:` commit) in a scratch worktree and run the
registered quick check of its property.  Writes /verif/seeded/fix_regressions.json.  A check that misses a defect it was
built around would be a regression of the machinery."""
import json, os, subprocess, sys, tempfile, time

ROOT = os.environ.get("VERIF_ROOT", "/verif")

def sh(cmd, **kw):
    return subprocess.run(cmd, shell=True, capture_output=True, text=True, **kw)

def main():
    entries = [e for e in json.load(open("/verif/known_findings.json"))["entries"] if e.get("status") == "fixed" and e.get("commit")]
    only = sys.argv[1:]
    wt = tempfile.mkdtemp(prefix="hgv-fixreg-", dir="/tmp"); os.rmdir(wt)
    out = tempfile.mkdtemp(prefix="hgv-fixreg-out-", dir="/tmp")
    assert sh(f"git -C /repo worktree add -q {wt} HEAD").returncode == 0
    env = dict(os.environ, VERIF_REPO=wt, VERIF_OUT=out)
    res = {}
    try:
        for e in entries:
            c, prop = e["commit"], e["property"]
            if only and c not in only and prop not in only:
                continue
            sh("git checkout -q -- . && git clean -fdq", cwd=wt)
            p = sh(f"git -C /repo diff {c} {c}~1 -- src | git apply", cwd=wt)
            if p.returncode != 0:
                res[c] = {"property": prop, "error": "reverse patch does not apply on HEAD: " + p.stderr[:200]}
                print(c, prop, "reverse patch does not apply", flush=True)
                continue
            t0 = time.time()
            r = sh(f"{ROOT}/check {prop} --tier quick", env=env, cwd=ROOT, timeout=1800)
            lines = [l for l in r.stdout.splitlines() if l.startswith("VIOLATION")]
            what = ""
            if lines:
                try:
                    rec = json.load(open(lines[0].split("replay=")[1].split()[0])); what = (rec.get("what") or rec.get("clause") or "")[:200]
                except Exception:
                    pass
            res[c] = {"property": prop, "defect": e.get("what", "")[:120], "check_exit": r.returncode, "caught": r.returncode == 1, "n_violation_lines": len(lines), "first_what": what,
                      "mechanisms": next((l[len("MECHANISMS "):] for l in r.stdout.splitlines() if l.startswith("MECHANISMS ")), ""), "wall_s": round(time.time() - t0, 1)}
            print(c, prop, r.returncode, what[:100], flush=True)
            json.dump(res, open("/verif/seeded/fix_regressions.json", "w"), indent=1)
    finally:
        sh(f"git -C /repo worktree remove --force {wt}")
        sh(f"rm -rf {out}")

main()
