#!/venv/bin/python
"""Replay a violation file written by /verif/check on the CURRENT /repo working tree.

usage: /venv/bin/python /verif/replay.py <file>     exit 1 = still fails, 0 = passes now, 2 = cannot replay natively
"""
import importlib, json, os, subprocess, sys

VERIF = os.path.dirname(os.path.abspath(__file__))
REPO = os.environ.get("VERIF_REPO", "/repo")
sys.path[:0] = [os.path.join(REPO, "src"), VERIF]


def main():
    rec = json.load(open(sys.argv[1]))
    print("property:", rec.get("property"), "| kind:", rec.get("kind"), "| recorded on tree:", rec.get("tree"))
    if rec.get("kind") == "obligation":
        print("failed obligation(s):", rec.get("function"), rec.get("clause"), rec.get("obligations"))
        print("solver output:", *rec.get("solver", []), sep="\n  ")
        print("no failing input was found natively (no-failing-input-found); re-deciding the obligation on the current tree:")
        env = dict(os.environ, PYTHONPATH=f"{VERIF}:{REPO}/src")
        p = subprocess.run(["python3-vt", "-m", "pyvc.run1", rec["function"].split(":")[1]], capture_output=True, text=True, env=env, cwd=VERIF)
        bad = [ln for ln in p.stdout.splitlines() if "<<<<<<" in ln and ("post " in ln or "raise " in ln or "frame " in ln or "callee-pre" in ln or "noraise" in ln)]
        print("\n".join(bad) or "all clause obligations of the function are discharged now")
        return 1 if bad else 0
    rep = rec.get("replay")
    if not rep:
        print("what:", rec.get("what"))
        return 2
    mod = importlib.import_module(f"harness.props.{rep['harness']}")
    problems = mod.replay(rep)
    for pb in problems:
        print("STILL FAILS:", pb)
    if not problems:
        print("passes on the current tree")
    return 1 if problems else 0


if __name__ == "__main__":
    sys.exit(main())
