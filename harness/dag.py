"""Family 'dag': acyclic, gate-free programs from JSON-able specs, with an independent dependency-order evaluator."""
from __future__ import annotations

import random

from hypergraph import Graph

from .core import Log, tagged_node

VALUES = [0, 1, 5, "s", None, (1, 2), [3]]


def gen_spec(rng: random.Random, max_nodes=4, max_inputs=3, allow_async=False, side_effect_nodes=True):
    n_nodes = rng.randint(1, max_nodes)
    n_inputs = rng.randint(1, max_inputs)
    inputs = [f"i{k}" for k in range(n_inputs)]
    avail = list(inputs)
    nodes = []
    out_counter = 0
    for j in range(n_nodes):
        k = rng.randint(0 if side_effect_nodes else 1, min(3, len(avail)))
        params = rng.sample(avail, k)
        n_outs = rng.choice([1, 1, 1, 2, 0] if side_effect_nodes else [1, 1, 2])
        outs = []
        for _ in range(n_outs):
            outs.append(f"o{out_counter}")
            out_counter += 1
        defaults = {p: rng.choice(VALUES) for p in params if rng.random() < 0.3}
        nodes.append({"name": f"n{j}", "params": params, "outs": outs, "defaults": defaults, "async": allow_async and rng.random() < 0.5,
                      "rename_mode": rng.choice([None, None, None, "ctor", "late"])})
        avail += outs
    used_inputs = [i for i in inputs if any(i in nd["params"] for nd in nodes)]
    bind = {i: rng.choice(VALUES) for i in used_inputs if rng.random() < 0.3}
    order = list(range(n_nodes))
    rng.shuffle(order)
    spec = {"family": "dag", "nodes": nodes, "bind": bind, "order": order}
    spec["provided"] = choose_provided(spec, rng)
    return spec


def produced_names(spec):
    return {o for nd in spec["nodes"] for o in nd["outs"]}


def required_inputs(spec):
    prod = produced_names(spec)
    req, opt = [], []
    for nd in spec["nodes"]:
        for p in nd["params"]:
            if p in prod or p in req or p in opt:
                continue
            has_default = any(p in m["defaults"] for m in spec["nodes"] if p in m["params"])
            (opt if (p in spec["bind"] or has_default) else req).append(p)
    return req, opt


def consistent_defaults(spec):
    """hypergraph requires a shared parameter to have consistent defaults: drop inconsistent ones from the spec."""
    seen = {}
    for nd in spec["nodes"]:
        for p in nd["params"]:
            seen.setdefault(p, []).append(nd)
    for p, nds in seen.items():
        if len(nds) > 1:
            with_d = [nd for nd in nds if p in nd["defaults"]]
            if with_d and (len(with_d) != len(nds) or any(repr(nd["defaults"][p]) != repr(with_d[0]["defaults"][p]) for nd in with_d)):
                v = with_d[0]["defaults"][p]
                for nd in nds:
                    nd["defaults"][p] = v
    return spec


def choose_provided(spec, rng):
    consistent_defaults(spec)
    req, opt = required_inputs(spec)
    provided = {p: rng.choice(VALUES) for p in req}
    for p in opt:
        if rng.random() < 0.4:
            provided[p] = rng.choice(VALUES)
    return provided


def build(spec, log=None, order=None, node_kwargs=None):
    log = log or Log()
    node_kwargs = node_kwargs or {}
    nodes = [tagged_node(nd["name"], nd["params"], nd["outs"], log, nd["defaults"], is_async=nd.get("async", False), rename_mode=nd.get("rename_mode"), **node_kwargs.get(nd["name"], {})) for nd in spec["nodes"]]
    order = order if order is not None else spec["order"]
    g = Graph([nodes[i] for i in order])
    if spec["bind"]:
        g = g.bind(**spec["bind"])
    return g, log


def evaluate(spec, provided=None):
    """Independent oracle: evaluate node functions in dependency order; argument = first available of
    upstream output, run-time value, bound value, signature default."""
    provided = spec["provided"] if provided is None else provided
    produced = {}
    calls = []
    for nd in spec["nodes"]:  # spec order is a topological order by construction
        args = {}
        ok = True
        for p in nd["params"]:
            if p in produced:
                args[p] = produced[p]
            elif p in provided:
                args[p] = provided[p]
            elif p in spec["bind"]:
                args[p] = spec["bind"][p]
            elif p in nd["defaults"]:
                args[p] = nd["defaults"][p]
            else:
                ok = False
        if not ok:
            continue
        calls.append((nd["name"], args))
        for i, o in enumerate(nd["outs"]):
            produced[o] = (nd["name"], i, *[args[p] for p in nd["params"]])
    return produced, calls


def exact_once(spec, nd):
    """Exactly-once is promised when no upstream-fed parameter carries a signature default.  Read transitively
    (DESIGN 4/C01): a node fed by a node that legitimately ran twice (early start on a default, re-run on the real
    value) sees two different inputs and re-runs as well, so the claim is made only when neither the node nor any
    ancestor has an upstream-fed parameter with a default."""
    prod = {o: m for m in spec["nodes"] for o in m["outs"]}
    seen, stack = set(), [nd]
    while stack:
        m = stack.pop()
        if m["name"] in seen:
            continue
        seen.add(m["name"])
        for p in m["params"]:
            if p in prod:
                if p in m["defaults"]:
                    return False
                stack.append(prod[p])
    return True
