"""Armed monitors: the SAME sidecar contract clauses, evaluated concretely on the real functions while the harness
corpora run (DESIGN 2.6).  BOUNDED evidence: counts evaluations per contract, never counted as proved."""
from __future__ import annotations

import ast
import copy
import functools
import importlib
import inspect
import os
import sys

import contracts.spec as spec_mod
from harness.core import CURRENT
from contracts import specrt


def load_contracts():
    out = {}
    cdir = os.path.dirname(spec_mod.__file__)
    for fn in sorted(os.listdir(cdir)):
        if fn.startswith("c_") and fn.endswith(".py"):
            m = importlib.import_module(f"contracts.{fn[:-3]}")
            out.update(m.CONTRACTS)
    return out


def snapshot(v):
    """Entry-state copy of a mutable argument (for `old(...)`); immutable / identity-relevant objects are shared."""
    from hypergraph.runners._shared.types import GraphState
    if isinstance(v, GraphState):
        return GraphState(values=dict(v.values), versions=dict(v.versions), node_executions=dict(v.node_executions), routing_decisions=dict(v.routing_decisions))
    if isinstance(v, dict):
        return dict(v)
    if isinstance(v, list):
        return list(v)
    if isinstance(v, set):
        return set(v)
    return v


class OldRewriter(ast.NodeTransformer):
    """old(E) -> E with every parameter name p replaced by __old_p (bound to the entry snapshot)."""

    def __init__(self, params):
        self.params = set(params)
        self.inside = 0

    def visit_Compare(self, node):
        # `x is old(p)` for a bare parameter p compares IDENTITY with the object passed in (not with its entry snapshot)
        def orig(e):
            if (isinstance(e, ast.Call) and isinstance(e.func, ast.Name) and e.func.id == "old" and len(e.args) == 1
                    and isinstance(e.args[0], ast.Name) and e.args[0].id in self.params):
                return ast.copy_location(ast.Name(id=f"__orig_{e.args[0].id}", ctx=ast.Load()), e)
            return None
        if all(isinstance(op, (ast.Is, ast.IsNot)) for op in node.ops):
            left = orig(node.left) or self.visit(node.left)
            comps = [orig(c) or self.visit(c) for c in node.comparators]
            return ast.copy_location(ast.Compare(left=left, ops=node.ops, comparators=comps), node)
        return self.generic_visit(node)

    def visit_Call(self, node):
        if isinstance(node.func, ast.Name) and node.func.id == "old" and len(node.args) == 1:
            self.inside += 1
            inner = self.visit(node.args[0])
            self.inside -= 1
            return inner
        return self.generic_visit(node)

    def visit_Name(self, node):
        if self.inside and node.id in self.params:
            return ast.copy_location(ast.Name(id=f"__old_{node.id}", ctx=node.ctx), node)
        return node


@functools.lru_cache(maxsize=None)
def compile_clause(text, params):
    tree = ast.parse(text.strip(), mode="eval")
    tree = OldRewriter(params).visit(tree)
    ast.fix_missing_locations(tree)
    return compile(tree, f"<clause:{text[:40]}>", "eval")


class Monitors:
    def __init__(self, prop=None, only=None):
        self.contracts = {k: c for k, c in load_contracts().items() if (prop is None or prop in c.get("props", [])) and (only is None or k in only)}
        self.evals = {}
        self.failures = []
        self.skipped = {}
        self._restore = []
        self.current_case = None

    # ------------------------------------------------------------------ arming
    def arm(self):
        for key, c in self.contracts.items():
            if c.get("trace") and not c.get("ensures") and not c.get("raises"):
                continue  # PATH-only contracts have no concrete clause to evaluate
            relpath, qual = key.split(":")
            modname = "hypergraph." + relpath[:-3].replace("/", ".")
            try:
                mod = importlib.import_module(modname)
            except Exception:  # noqa: BLE001
                continue
            parts = qual.split(".")
            owner = mod
            try:
                for p in parts[:-1]:
                    owner = getattr(owner, p)
                raw = owner.__dict__[parts[-1]] if isinstance(owner, type) else getattr(owner, parts[-1])
            except (AttributeError, KeyError):
                self.skipped[key] = "anchor not found"
                continue
            fn = raw
            if isinstance(raw, (property, functools.cached_property)):
                continue
            if inspect.iscoroutinefunction(fn) or inspect.isgeneratorfunction(fn):
                continue
            wrapper = self.make_wrapper(key, c, fn)
            if isinstance(owner, type):
                setattr(owner, parts[-1], wrapper)
                self._restore.append((owner, parts[-1], raw))
            else:
                for m in list(sys.modules.values()):
                    if m is None or not getattr(m, "__name__", "").startswith("hypergraph"):
                        continue
                    for n, v in list(vars(m).items()):
                        if v is fn:
                            setattr(m, n, wrapper)
                            self._restore.append((m, n, fn))
        return self

    def disarm(self):
        for owner, name, orig in reversed(self._restore):
            setattr(owner, name, orig)
        self._restore.clear()

    # ------------------------------------------------------------------ checking
    def namespace(self, c):
        ns = dict(vars(spec_mod))
        for name, mod in c.get("imports", {}).items():
            ns[name] = getattr(importlib.import_module(mod), name)
        return ns

    def make_wrapper(self, key, c, fn):
        sig = inspect.signature(fn)
        params = tuple(sig.parameters)
        base_ns = self.namespace(c)
        modns = vars(importlib.import_module(fn.__module__))
        mon = self

        @functools.wraps(fn)
        def wrapper(*args, **kwargs):
            try:
                bound = sig.bind(*args, **kwargs)
                bound.apply_defaults()
            except TypeError:
                return fn(*args, **kwargs)
            env = dict(modns)
            env.update(base_ns)
            env.update(bound.arguments)
            for p, v in bound.arguments.items():
                env[f"__old_{p}"] = snapshot(v)
                env[f"__orig_{p}"] = v
            try:
                pre_ok = all(mon.ev(key, r, params, env) for r in c.get("requires", []))
            except Exception:  # noqa: BLE001
                pre_ok = False
            if not pre_ok:
                mon.evals[key + " (precondition not met: not checked)"] = mon.evals.get(key + " (precondition not met: not checked)", 0) + 1
                return fn(*args, **kwargs)
            mon.evals[key] = mon.evals.get(key, 0) + 1
            try:
                result = fn(*args, **kwargs)
            except BaseException as e:  # noqa: BLE001
                mon.check_raise(key, c, params, env, e, bound)
                raise
            env["result"] = result
            for clause in c.get("ensures", []):
                mon.check_clause(key, clause, params, env, bound, "ensures")
            for cls, cond in c.get("raises", {}).items():
                if cond in (True, "True"):
                    continue
                # evaluated on the entry snapshot: a normal return requires the raise condition to be false
                old_env = dict(env)
                for p in params:
                    old_env[p] = env[f"__old_{p}"]
                mon.check_clause(key, f"not ({cond})", params, old_env, bound, f"raises[{cls}] completeness")
            return result

        wrapper.__verif_monitor__ = key
        return wrapper

    def ev(self, key, clause, params, env):
        return bool(eval(compile_clause(clause, params), env))  # noqa: S307 - clauses are our own sidecar text

    def check_clause(self, key, clause, params, env, bound, kind):
        try:
            ok = self.ev(key, clause, params, env)
        except NameError:
            return  # clause mentions ghost state (symbolic only)
        except Exception as e:  # noqa: BLE001
            self.skipped[f"{key}::{clause[:60]}"] = f"not evaluable concretely: {type(e).__name__}: {str(e)[:80]}"
            return
        if not ok and len(self.failures) < 20:
            self.failures.append({"kind": "contract", "function": key, "clause": clause, "clause_kind": kind, "replay": dict(CURRENT["case"] or {}, monitor=key) if CURRENT["case"] else None,
                                  "what": f"contract clause violated natively: {key} :: {clause[:200]}",
                                  "args": {p: short(v) for p, v in bound.arguments.items()}, "result": short(env.get("result"))})

    def check_raise(self, key, c, params, env, e, bound):
        from hypergraph.runners._shared.types import PauseExecution
        if isinstance(e, PauseExecution):
            return
        declared = {**c.get("raises", {}), **c.get("may_raise", {})}
        for cls, cond in declared.items():
            if any(k.__name__ == cls for k in type(e).__mro__):
                if cond in (True, "True"):
                    return
                old_env = dict(env)
                for p in params:
                    old_env[p] = env[f"__old_{p}"]
                self.check_clause(key, cond, params, old_env, bound, f"raises[{cls}] soundness")
                return
        if isinstance(e, Exception) and len(self.failures) < 20:
            self.failures.append({"kind": "contract", "function": key, "clause": f"no {type(e).__name__} escapes", "replay": dict(CURRENT["case"] or {}, monitor=key) if CURRENT["case"] else None,
                                  "what": f"undeclared exception {type(e).__name__} escaped {key}: {str(e)[:120]}", "args": {p: short(v) for p, v in bound.arguments.items()}})


def short(v):
    try:
        r = repr(v)
    except Exception:  # noqa: BLE001
        r = f"<{type(v).__name__}>"
    return r[:300]
