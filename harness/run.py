"""Entry point of the native bounded harness: /venv/bin/python harness/run.py --property C01 --tier quick --seed 0 --out f.json"""
import argparse, importlib, json, os, sys, time, traceback

sys.path.insert(0, os.path.dirname(os.path.dirname(os.path.abspath(__file__))))


def main():
    ap = argparse.ArgumentParser()
    ap.add_argument("--property", required=True)
    ap.add_argument("--tier", default="quick")
    ap.add_argument("--seed", type=int, default=0)
    ap.add_argument("--out", required=True)
    ap.add_argument("--functions", default="")
    ap.add_argument("--replay", default=None)
    a = ap.parse_args()
    t0 = time.time()
    try:
        mod = importlib.import_module(f"harness.props.{a.property}")
    except ModuleNotFoundError:
        json.dump({"property": a.property, "evaluations": 0, "distinct_nontrivial": 0, "failures": [], "note": "no bounded harness for this property yet"}, open(a.out, "w"))
        return 0
    from harness.monitor import Monitors
    mon = Monitors(prop=a.property).arm()
    try:
        res = mod.run(a.tier, a.seed, [f for f in a.functions.split(",") if f])
    finally:
        mon.disarm()
    res.monitors = {"evaluations_per_contract": mon.evals, "not_evaluable": mon.skipped}
    for f in mon.failures:
        res.fail(**f)
    out = res.to_json()
    out["wall_s"] = round(time.time() - t0, 2)
    json.dump(out, open(a.out, "w"), indent=1, default=repr)
    return 0


if __name__ == "__main__":
    sys.exit(main())
