"""Family 'nest': a flat DAG and the same DAG with a dependency-closed group of nodes wrapped into a nested graph node,
with bindings at both levels and rename histories on the wrapper (identity round trips, swaps, real renames)."""
from __future__ import annotations

import random

from hypergraph import Graph

from . import dag
from .core import Log, tagged_node


def reach(spec):
    n = len(spec["nodes"])
    prod = {o: i for i, nd in enumerate(spec["nodes"]) for o in nd["outs"]}
    succ = {i: set() for i in range(n)}
    for j, nd in enumerate(spec["nodes"]):
        for p in nd["params"]:
            if p in prod:
                succ[prod[p]].add(j)
    closure = {i: set() for i in range(n)}
    for i in reversed(range(n)):
        for j in succ[i]:
            closure[i] |= {j} | closure[j]
    return closure


def convex(spec, group):
    cl = reach(spec)
    g = set(group)
    for i in g:
        for k in cl[i] - g:
            if cl[k] & g:
                return False
    return True


def gen_spec(rng: random.Random):
    for _ in range(50):
        base = dag.gen_spec(rng, max_nodes=4, side_effect_nodes=False)
        for nd in base["nodes"]:
            nd["rename_mode"] = None
        n = len(base["nodes"])
        a = rng.randrange(n)
        b = rng.randrange(a, n)
        group = list(range(a, b + 1))
        if convex(base, group):
            break
    inner_inputs = sorted({p for i in group for p in base["nodes"][i]["params"]} - {o for i in group for o in base["nodes"][i]["outs"]})
    inner_outputs = [o for i in group for o in base["nodes"][i]["outs"]]
    ext_only = [p for p in inner_inputs if not any(p in nd["params"] for k, nd in enumerate(base["nodes"]) if k not in group) and p not in dag.produced_names(base)]
    spec = {"family": "nest", "base": base, "group": group, "depth": rng.choice([1, 1, 2]),
            # an inner binding is equivalent to a flat binding only for inputs that no node outside the group consumes
            "inner_bind": {p: rng.choice(dag.VALUES) for p in ext_only if rng.random() < 0.4},
            "history": rng.choice(["none", "roundtrip", "swap_twice", "reuse", "real"]), "prewarm": rng.random() < 0.5,
            "out_history": rng.choice(["none", "roundtrip", "chain_back"]), "ext_only": ext_only, "inner_inputs": inner_inputs, "inner_outputs": inner_outputs}
    spec["real_map"] = {p: f"{p}_r" for p in ext_only[:2]} if spec["history"] == "real" else {}
    spec["outer_bind"] = {p: rng.choice(dag.VALUES) for p in ext_only if rng.random() < 0.3}
    # inputs supplied at run time: required ones of the FLAT graph under the effective bindings, plus some optional ones
    eff = dict(base, bind={**spec["inner_bind"], **base["bind"], **spec["outer_bind"]})
    spec["provided"] = dag.choose_provided(eff, rng)
    return spec


def force(spec, history, rng):
    """A consistent variant of `spec` with the given wrapper rename history and, when the group has a wrapper-only input,
    an INNER binding of the first such input (the combination 'renamed + bound inside' must not depend on the dice)."""
    v = dict(spec, history=history)
    ext = list(spec["ext_only"])
    v["inner_bind"] = dict(spec["inner_bind"])
    if ext and ext[0] not in v["inner_bind"]:
        v["inner_bind"][ext[0]] = dag.VALUES[0]
    v["real_map"] = {p: f"{p}_r" for p in ext[:2]} if history == "real" else {}
    v["outer_bind"] = {k: val for k, val in spec["outer_bind"].items() if k not in v["inner_bind"]}
    eff = dict(spec["base"], bind={**v["inner_bind"], **spec["base"]["bind"], **v["outer_bind"]})
    v["provided"] = dag.choose_provided(eff, rng)
    return v


def effective_flat(spec):
    """The flat program the nested one must equal: inner bindings, overridden by outer bindings of the same input."""
    base = spec["base"]
    return dict(base, bind={**spec["inner_bind"], **base["bind"], **spec["outer_bind"]}, provided=spec["provided"])


def apply_history(gn, spec):
    """Rename histories whose NET effect on wiring is the identity (or the declared real rename)."""
    ins = list(spec["inner_inputs"])
    h = spec["history"]
    if h == "roundtrip" and ins:
        p = ins[0]
        gn = gn.with_inputs({p: "tmp_a"}).with_inputs({"tmp_a": p})
    elif h == "swap_twice" and len(ins) >= 2:
        a, b = ins[0], ins[1]
        gn = gn.with_inputs({a: b, b: a}).with_inputs({a: b, b: a})
    elif h == "reuse" and len(ins) >= 2:
        a, b = ins[0], ins[1]
        # a -> t ; b takes the name a ; that one is renamed away again ; t -> a   (net identity, re-using the name a)
        gn = gn.with_inputs({a: "tmp_t"}).with_inputs({b: a}).with_inputs({a: b}).with_inputs({"tmp_t": a})
    elif h == "real" and spec["real_map"]:
        gn = gn.with_inputs(dict(spec["real_map"]))
    outs = list(spec["inner_outputs"])
    oh = spec["out_history"]
    if oh == "roundtrip" and outs:
        o = outs[0]
        gn = gn.with_outputs({o: "tmp_o"}).with_outputs({"tmp_o": o})
    elif oh == "chain_back" and outs:
        o = outs[0]
        gn = gn.with_outputs({o: "tmp_x"}).with_outputs({"tmp_x": "tmp_y"}).with_outputs({"tmp_y": o})
    return gn


def build_nested(spec, log=None):
    log = log or Log()
    base = spec["base"]
    nodes = [tagged_node(nd["name"], nd["params"], nd["outs"], log, nd["defaults"]) for nd in base["nodes"]]
    group = spec["group"]
    inner = Graph([nodes[i] for i in group], name="sub")
    ib = dict(spec["inner_bind"])
    if ib:
        inner = inner.bind(**ib)
    if spec["depth"] == 2:
        inner = Graph([inner.as_node()], name="sub2")
    gn = inner.as_node()
    if spec["prewarm"]:
        Graph([gn])  # the wrapper is used once before it is renamed (forces cached views)
        for p in gn.inputs:
            gn.has_default_for(p)
    gn = apply_history(gn, spec)
    outer_nodes = [nodes[i] for i in range(len(nodes)) if i not in group] + [gn]
    random.Random(len(outer_nodes)).shuffle(outer_nodes)
    g = Graph(outer_nodes)
    ob = {spec["real_map"].get(k, k): v for k, v in {**base["bind"], **spec["outer_bind"]}.items()}
    if ob:
        g = g.bind(**ob)
    return g, log


def build_flat(spec, log=None):
    return dag.build(effective_flat(spec), log)
