"""Native bounded harness: program construction from JSON-able specs, instrumented node functions, run helpers.

Everything here runs under /venv/bin/python against the REAL hypergraph package of the current working tree.
Results of this harness are BOUNDED stand-ins (DESIGN 2.6): labelled as such, never counted as proved.
"""
from __future__ import annotations

import asyncio
import itertools
import linecache
import random
import warnings

import hypergraph
from hypergraph import END, AsyncRunner, FunctionNode, Graph, SyncRunner, ifelse, node, route
from hypergraph.runners import RunStatus

_fn_counter = itertools.count()


class _StepList(list):
    def __init__(self):
        super().__init__()
        self.steps = []

    def append(self, item):
        super().append(item)
        self.steps.append(STEP["n"])


STEP = {"n": 0}


def install_step_probe():
    """Harness-side instrumentation (no repo hook): count supersteps by wrapping the runners' references to the superstep
    functions, so that the call log can tell which node executions shared a superstep."""
    import hypergraph.runners.async_.runner as ar
    import hypergraph.runners.sync.runner as sr
    if getattr(sr.run_superstep_sync, "__verif_probe__", False):
        return
    orig_s, orig_a = sr.run_superstep_sync, ar.run_superstep_async

    def probe_s(*a, **k):
        STEP["n"] += 1
        return orig_s(*a, **k)

    async def probe_a(*a, **k):
        STEP["n"] += 1
        return await orig_a(*a, **k)

    probe_s.__verif_probe__ = probe_a.__verif_probe__ = True
    sr.run_superstep_sync, ar.run_superstep_async = probe_s, probe_a


class Log:
    """Call log shared by the node functions of one program instance."""

    def __init__(self):
        self.calls = _StepList()  # (node_name, {param: value}); .steps[i] = superstep counter when call i started
        self.decisions = []  # (position in calls, gate name, decision) in execution order

    def clear(self):
        self.calls.clear()
        self.calls.steps.clear()
        self.decisions.clear()

    def decided(self, gate, decision):
        self.decisions.append((len(self.calls), gate, decision))
        return decision

    def multiset(self):
        out = {}
        for name, args in self.calls:
            k = (name, repr(sorted(args.items(), key=lambda kv: kv[0])))
            out[k] = out.get(k, 0) + 1
        return out

    def count(self, name):
        return sum(1 for n, _ in self.calls if n == name)


def make_function(fname, params, defaults, body_lines, env, is_async=False):
    """Create a real Python function with a real signature and retrievable source (inspect.getsource works)."""
    sig = []
    for p in [q for q in params if q not in defaults] + [q for q in params if q in defaults]:
        if p in defaults:
            env[f"_dflt_{fname}_{p}"] = defaults[p]
            sig.append(f"{p}=_dflt_{fname}_{p}")
        else:
            sig.append(p)
    src = f"{'async ' if is_async else ''}def {fname}({', '.join(sig)}):\n" + "".join(f"    {ln}\n" for ln in body_lines)
    filename = f"<verif-gen-{next(_fn_counter)}>"
    linecache.cache[filename] = (len(src), None, src.splitlines(True), filename)
    code = compile(src, filename, "exec")
    ns = dict(env)
    exec(code, ns)
    return ns[fname]


def tagged_node(name, params, outs, log, defaults=None, emit=(), wait_for=(), cache=False, is_async=False, fail_when=None, op="tag", rename_mode=None, yields=1):
    """A function node whose result records its own name and the arguments it saw (mis-wiring becomes visible).

    op='tag': returns (name, idx, args...) per output;  op='sum': integer sum of args (+1) for loop/arith programs.
    """
    defaults = defaults or {}
    wiring = list(params)
    if rename_mode == "late_swap" and len(wiring) >= 2:
        # the callable's first two parameters carry each other's wiring names; one parallel swap puts them right
        params = [wiring[1], wiring[0]] + wiring[2:]
        defaults = {params[wiring.index(p)]: v for p, v in defaults.items()}
    elif rename_mode == "late_swap":
        rename_mode = None
    elif rename_mode:  # the callable's own parameter names differ from the wiring names; renamed at construction or late
        params = [f"{p}_in" for p in wiring]
        defaults = {f"{p}_in": v for p, v in defaults.items()}
    body = [f"_LOG.calls.append(({name!r}, {{{', '.join(f'{w!r}: {p}' for w, p in zip(wiring, params))}}}))"]
    if is_async:
        body.append(f"for _k in range({int(yields)}): await _SLEEP(0)")
    if fail_when is not None:
        body.append(f"if _FAIL({name!r}, {{{', '.join(f'{w!r}: {p}' for w, p in zip(wiring, params))}}}): raise _ERR({name!r})")
    if op == "tag":
        vals = [f"({name!r}, {i}, {', '.join(params)}{',' if params else ''})" for i in range(len(outs))]
    elif op == "sum":
        vals = [f"({' + '.join(params) if params else '0'}) + {i + 1}" for i in range(len(outs))]
    else:
        raise ValueError(op)
    if len(outs) == 0:
        body.append("return None")
    elif len(outs) == 1:
        body.append(f"return {vals[0]}")
    else:
        body.append(f"return ({', '.join(vals)},)")
    env = {"_LOG": log, "_FAIL": fail_when, "_ERR": NodeFailure, "_SLEEP": asyncio.sleep}
    fn = make_function(name, params, defaults, body, env, is_async=is_async)
    out_name = tuple(outs) if len(outs) != 1 else outs[0]
    kw = {}
    if emit:
        kw["emit"] = tuple(emit) if len(emit) > 1 else emit[0]
    if wait_for:
        kw["wait_for"] = tuple(wait_for) if len(wait_for) > 1 else wait_for[0]
    if rename_mode == "ctor":
        return FunctionNode(fn, name=name, output_name=out_name if outs else None, cache=cache, rename_inputs=dict(zip(params, wiring)), **kw)
    nd = FunctionNode(fn, name=name, output_name=out_name if outs else None, cache=cache, **kw)
    if rename_mode == "late_swap":
        nd.defaults, nd.parameter_annotations  # noqa: B018
        Graph([nd])
        return nd.with_inputs({params[0]: params[1], params[1]: params[0]})
    if rename_mode == "late" and params:
        # use the node first (forces its cached views), then rename: the derived node must follow the new names
        nd.defaults, nd.parameter_annotations  # noqa: B018
        Graph([nd])
        nd = nd.with_inputs(dict(zip(params, wiring)))
    return nd


class NodeFailure(Exception):
    def __init__(self, who):
        super().__init__(f"node {who} failed")
        self.who = who


def outcome(result=None, exc=None):
    """Normalised, comparable outcome of a run."""
    if exc is not None:
        return {"status": "raised", "error": f"{type(exc).__name__}:{getattr(exc, 'who', '')}", "values": None}
    err = result.error
    return {"status": result.status.value, "error": (f"{type(err).__name__}:{getattr(err, 'who', '')}" if err is not None else None),
            "values": {k: repr(v) for k, v in sorted(result.values.items())}}


def run_sync(graph, inputs, runner=None, **kw):
    runner = runner or SyncRunner()
    with warnings.catch_warnings():
        warnings.simplefilter("ignore")
        try:
            return outcome(runner.run(graph, dict(inputs), **kw))
        except Exception as e:  # noqa: BLE001
            return outcome(exc=e)


def run_async(graph, inputs, runner=None, **kw):
    runner = runner or AsyncRunner()

    async def go():
        return await runner.run(graph, dict(inputs), **kw)

    with warnings.catch_warnings():
        warnings.simplefilter("ignore")
        try:
            return outcome(asyncio.run(go()))
        except Exception as e:  # noqa: BLE001
            return outcome(exc=e)


CURRENT = {"case": None}


def set_case(harness, spec, runner):
    """Tell the armed monitors which generated program is running (becomes the replay descriptor of a contract failure)."""
    CURRENT["case"] = {"harness": harness, "spec": spec, "runner": runner}


class Result:
    """Accumulates what a bounded run covered; serialised for the check's evidence."""

    def __init__(self, prop, rule, bounds):
        self.prop = prop
        self.rule = rule
        self.bounds = bounds
        self.evaluations = 0
        self.distinct = set()
        self.samples = []
        self.failures = []
        self.monitors = {}

    def case(self, key, nontrivial=True, sample=None):
        self.evaluations += 1
        if nontrivial:
            self.distinct.add(key)
        if sample is not None and len(self.samples) < 6:
            self.samples.append(sample)

    def fail(self, **kw):
        # known-finding instances are capped separately so that they can never crowd out a different violation
        sig = kw.get("finding_sig")
        same = [f for f in self.failures if f.get("finding_sig") == sig]
        if len(same) < (5 if sig else 25):
            self.failures.append(kw)

    def to_json(self):
        return {"property": self.prop, "mechanism": "native bounded harness (labelled bounded, never counted as proved)", "rule": self.rule, "bounds": self.bounds,
                "evaluations": self.evaluations, "distinct_nontrivial": len(self.distinct), "samples": self.samples, "failures": self.failures,
                "monitors": self.monitors}
