"""C04 bounded stand-in: gate-driven loops run exactly as many iterations as the sequential while-loop; step bound."""
import random

from hypergraph import InfiniteLoopError

from harness import flow
from harness.core import set_case, Result, run_async, run_sync


def check_spec(spec, res, runner_name):
    set_case("C04", spec, runner_name)
    run = run_sync if runner_name == "sync" else run_async
    try:
        g, log = flow.build_loop(spec)
    except Exception as e:  # noqa: BLE001
        res.case(repr(spec))
        res.fail(kind="oracle", function="Graph()", what=f"valid loop program rejected: {type(e).__name__}: {str(e)[:200]}", replay={"harness": "C04", "spec": spec, "runner": runner_name})
        return
    runs, final = flow.expect_loop(spec)
    kw = {}
    mi = spec["max_iterations"]
    if mi == 1000:
        kw["max_iterations"] = 1000
    out = run(g, {"c0": spec["start"]}, **kw)
    res.case(repr((spec, runner_name)), nontrivial=runs > 0, sample={"spec": spec, "runner": runner_name, "outcome": out, "expected_body_runs": runs})
    problems = []
    if spec["sync"] == "signal" and spec.get("emit_from") == "first" and spec["body_len"] > 1:
        return  # signal not emitted by the LAST body node: outside the property's loop shape; exercised for the armed monitors only
    if out["status"] != "completed":
        problems.append(f"status {out['status']} {out['error']}")
    else:
        for j in range(spec["body_len"]):
            got = log.count(f"body{j}")
            if got != runs:
                problems.append(f"body{j} executed {got} times, the sequential while-loop executes it {runs} times")
        nested = spec["nested"] and spec["body_len"] == 1 and spec["exit"] == "node"
        if not nested and out["values"].get("c0") != repr(final):
            problems.append(f"final counter {out['values'].get('c0')} != {final}")
        # (with a signal-synchronised gate the exit node may legitimately start early, before the gate's first decision: C03)
        if spec["exit"] == "node" and spec["sync"] == "direct" and log.count("finish") != 1:
            problems.append(f"exit node ran {log.count('finish')} times")
    for pb in problems:
        res.fail(kind="oracle", function="runner.run (loop program)", what=pb, runner=runner_name, replay={"harness": "C04", "spec": spec, "runner": runner_name})
    # step bound: with max_iterations = exactly the number of supersteps used the run completes; with one less it reports InfiniteLoopError
    if not problems and not (spec["nested"] and spec["body_len"] == 1 and spec["exit"] == "node") and mi in ("exact", "short"):
        steps = steps_used(spec, runner_name)
        if steps is not None:
            g2, log2 = flow.build_loop(spec)
            out2 = run(g2, {"c0": spec["start"]}, max_iterations=steps)
            if out2["status"] != "completed":
                res.fail(kind="oracle", function="_execute_graph_impl", what=f"run needs {steps} supersteps but max_iterations={steps} gave {out2['status']} {out2['error']}", runner=runner_name,
                         replay={"harness": "C04", "spec": spec, "runner": runner_name})
            if steps > 1:
                g3, log3 = flow.build_loop(spec)
                out3 = run(g3, {"c0": spec["start"]}, max_iterations=steps - 1)
                if not (out3["status"] == "raised" and "InfiniteLoopError" in (out3["error"] or "")):
                    res.fail(kind="oracle", function="_execute_graph_impl", what=f"run needs {steps} supersteps but max_iterations={steps - 1} did not report InfiniteLoopError: {out3}", runner=runner_name,
                             replay={"harness": "C04", "spec": spec, "runner": runner_name})


def steps_used(spec, runner_name):
    """Smallest max_iterations with which the run completes (found by search; None if none <= 60)."""
    run = run_sync if runner_name == "sync" else run_async
    for m in range(1, 60):
        g, log = flow.build_loop(spec)
        out = run(g, {"c0": spec["start"]}, max_iterations=m)
        if out["status"] == "completed":
            return m
    return None


def run(tier, seed, functions):
    n = 120 if tier == "quick" else 2500
    res = Result("C04", "random counter loops: limit 0..5, body length 1..3, route/ifelse gate, exit via END or exit node, gate reading the loop state directly or waiting on the "
                 "end-of-iteration signal, nested in a graph node, start 0 or 2, max_iterations default/1000/exact/one-short; oracle = sequential while-loop; non-trivial = at least one iteration",
                 {"programs": n, "limit": "0..5", "body_len": "1..3", "runners": ["sync", "async"]})
    rng = random.Random(seed * 7907 + 4)
    for _ in range(n):
        spec = flow.gen_loop(rng)
        check_spec(spec, res, "sync")
        check_spec(spec, res, "async")
    return res


def replay(rep):
    from harness.monitor import Monitors
    mon = Monitors(only={rep["monitor"]}).arm() if rep.get("monitor") else None
    res = Result("C04", "", {})
    check_spec(rep["spec"], res, rep["runner"])
    if mon:
        mon.disarm()
        return [f["what"] for f in mon.failures]
    return [f["what"] for f in res.failures]
