"""C18 bounded stand-in: no state leaks between runs; caller-owned objects untouched; bound values shared, never copied."""
import asyncio
import copy
import random
import warnings

from hypergraph import AsyncRunner, FunctionNode, Graph, SyncRunner

from harness.core import Result, make_function, outcome, set_case

DEFAULT_SHAPES = {
    "list": lambda: [],
    "dict": lambda: {},
    "dict_nested": lambda: {"seen": [], "count": 0},
    "list_nested": lambda: [[], 0],
    "set": lambda: set(),
}


def mutating_node(name, shape, is_async=False, param="acc"):
    """f(x, acc=<mutable default>) mutates acc in place and returns a snapshot of it."""
    body = {
        "list": ["acc.append(x)", "return list(acc)"],
        "dict": ["acc[x] = acc.get(x, 0) + 1", "return dict(acc)"],
        "dict_nested": ["acc['seen'].append(x)", "acc['count'] += 1", "return (list(acc['seen']), acc['count'])"],
        "list_nested": ["acc[0].append(x)", "acc[1] += 1", "return (list(acc[0]), acc[1])"],
        "set": ["acc.add(x)", "return sorted(acc)"],
    }[shape]
    body = [ln.replace("acc", param) for ln in body]
    if is_async:
        body = ["await _SLEEP(0)"] + body
    f = make_function(name, ["x", param], {param: DEFAULT_SHAPES[shape]()}, body, {"_SLEEP": asyncio.sleep}, is_async=is_async)
    return FunctionNode(f, name=name, output_name=f"{name}_out")


def build(spec, is_async):
    nodes = [mutating_node(f"m{i}", sh, is_async, param=f"acc{i}") for i, sh in enumerate(spec["shapes"])]
    g = Graph(nodes, name="inner")
    for _ in range(spec["depth"]):
        g = Graph([g.as_node()], name="outer" + str(_))
    return g


def check_isolation(spec, res):
    set_case("C18", spec, "both")
    rep = {"harness": "C18", "spec": spec, "runner": "both", "part": "isolation"}
    res.case(repr(spec), nontrivial=True, sample={"spec": spec})
    with warnings.catch_warnings():
        warnings.simplefilter("ignore")
        g_s, g_a = build(spec, False), build(spec, True)
        outs = []
        sr = SyncRunner()
        for i in range(3):
            outs.append(("sync same runner", outcome((sr if spec["same_runner"] else SyncRunner()).run(g_s, {"x": 5}))))
        ar = AsyncRunner()

        async def twice():
            r = ar if spec["same_runner"] else AsyncRunner()
            a, b = await asyncio.gather(r.run(g_a, {"x": 5}), (ar if spec["same_runner"] else AsyncRunner()).run(g_a, {"x": 5}))
            c = await r.run(g_a, {"x": 5})
            return [a, b, c]

        for r in asyncio.run(twice()):
            outs.append(("async concurrent/sequential", outcome(r)))
        outs.append(("sync after async", outcome(SyncRunner().run(g_s, {"x": 5}))))
    first = outs[0][1]
    for label, o in outs[1:]:
        if o != first:
            res.fail(kind="oracle", function="_resolve_input/_safe_deepcopy", what=f"run '{label}' gives {o}, the first run gave {first}: state leaked between runs through a mutated signature default ({spec})", replay=rep)
            return


def check_caller_inputs(res, runner_name, variant):
    set_case("C18", {"variant": variant}, runner_name)
    rep = {"harness": "C18", "spec": {"variant": variant}, "runner": runner_name, "part": "inputs"}
    f = make_function("f", ["a", "b"], {}, ["return (a, b)"], {})
    g = Graph([FunctionNode(f, name="f", output_name="r")])
    base = {"a": [1, 2]} if variant != "values_only" else {"a": [1, 2], "b": 3}
    snapshot = copy.deepcopy(base)
    runner = SyncRunner() if runner_name == "sync" else AsyncRunner()

    def call():
        if variant == "values_only":
            coro = runner.run(g, base)
        elif variant == "values_plus_kwargs":
            coro = runner.run(g, base, b=3)
        elif variant == "map_values_plus_kwargs":
            coro = runner.map(g, base, b=[3, 4], map_over="b")
        return asyncio.run(coro) if runner_name == "async" else coro

    res.case(repr((variant, runner_name)), nontrivial=True)
    try:
        call()
        call()  # issuing the identical call again must still work
    except Exception as e:  # noqa: BLE001
        res.fail(kind="oracle", function="normalize_inputs", what=f"re-issuing the identical call ({variant}) failed: {type(e).__name__}: {str(e)[:150]}", runner=runner_name, replay=rep)
    if base != snapshot or list(base) != list(snapshot):
        res.fail(kind="oracle", function="normalize_inputs", what=f"the caller's input mapping was modified by the call ({variant}): {base} (was {snapshot})", runner=runner_name, replay=rep)


def check_bound_identity(res, runner_name, nested):
    set_case("C18", {"bound_identity": nested}, runner_name)
    rep = {"harness": "C18", "spec": {"bound_identity": nested}, "runner": runner_name, "part": "bound"}
    # ... also when the graph is DERIVED further after the binding (every derivation copies the graph object, never the bound values)
    for derive in (None, "select", "with_entrypoint", "add_nodes"):
        seen = []
        f = make_function("f", ["x", "res"], {}, ["_SEEN.append(res)", "return x"], {"_SEEN": seen})
        shared = {"client": object()}
        g = Graph([FunctionNode(f, name="f", output_name="r")], name="inner").bind(res=shared)
        if derive == "select":
            g = g.select("r")
        elif derive == "with_entrypoint":
            g = g.with_entrypoint("f")
        elif derive == "add_nodes":
            h = make_function("h", ["r"], {}, ["return r"], {})
            g = g.add_nodes(FunctionNode(h, name="h", output_name="r2")).select("r2")
        if nested:
            g = Graph([g.as_node()], name="outer")
        runner = SyncRunner() if runner_name == "sync" else AsyncRunner()
        for _ in range(2):
            r = runner.run(g, {"x": 1})
            if runner_name == "async":
                asyncio.run(r)
        res.case(repr(("bound", nested, runner_name, derive)), nontrivial=True)
        if len(seen) != 2 or not all(s is shared for s in seen):
            res.fail(kind="oracle", function="_resolve_input / Graph derivations", what=f"the bound value did not reach the node as the very object that was bound (nested={nested}, derived after bind: {derive}): {[s is shared for s in seen]}", runner=runner_name, replay=rep)


def run(tier, seed, functions):
    res = Result("C18", "graphs whose functions mutate their default-valued arguments (list, dict, set, nested containers; flat and nested depth 0..2) x sequences and concurrent interleavings of runs "
                 "(same / different runner instances, sync then async then sync) ; caller input mappings (values, values+kwargs, map with kwargs) re-issued twice ; identity of bound values",
                 {"shapes": sorted(DEFAULT_SHAPES)})
    rng = random.Random(seed * 307 + 18)
    n = 25 if tier == "quick" else 300
    shapes = sorted(DEFAULT_SHAPES)
    for sh in shapes:  # every shape alone, flat and nested
        for depth in (0, 1):
            check_isolation({"shapes": [sh], "depth": depth, "same_runner": True}, res)
    for _ in range(n):
        check_isolation({"shapes": [rng.choice(shapes) for _ in range(rng.randint(1, 3))], "depth": rng.randint(0, 2), "same_runner": rng.random() < 0.5}, res)
    for r in ("sync", "async"):
        for v in ("values_only", "values_plus_kwargs", "map_values_plus_kwargs"):
            check_caller_inputs(res, r, v)
        for nested in (False, True):
            check_bound_identity(res, r, nested)
    return res


def replay(rep):
    res = Result("C18", "", {})
    sp = rep["spec"]
    if rep["part"] == "isolation":
        check_isolation(sp, res)
    elif rep["part"] == "inputs":
        check_caller_inputs(res, rep["runner"], sp["variant"])
    else:
        check_bound_identity(res, rep["runner"], sp["bound_identity"])
    return [f["what"] for f in res.failures]
