"""C07 bounded stand-in: derivation operations return new objects and leave the receiver (and its siblings) unchanged."""
import random

from hypergraph import Graph

from harness import dag, nest
from harness.core import Log, Result, run_sync, set_case, tagged_node


def graph_snapshot(g, provided, select=None):
    ins = g.inputs
    kw = {"select": select} if select else {}
    return {"required": ins.required, "optional": ins.optional, "entrypoints": dict(ins.entrypoints), "bound": {k: repr(v) for k, v in sorted(ins.bound.items())},
            "outputs": g.outputs, "selected": g.selected, "entry_cfg": g.entrypoints_config, "hash": g.definition_hash, "nodes": tuple(sorted(g.nodes)),
            "run": run_sync(g, provided, **kw),
            # runs with a run-time select (per-run scope computations must not be shared between derived graphs)
            "run_select": [run_sync(g, provided, select=o) for o in g.outputs[:2]]}


def node_snapshot(n, run_graph_inputs=None):
    snap = {"name": n.name, "inputs": n.inputs, "outputs": n.outputs, "hash": n.definition_hash, "defaults": {p: (n.has_default_for(p)) for p in n.inputs}}
    if run_graph_inputs is not None:
        snap["run"] = run_sync(Graph([n]), run_graph_inputs)
    return snap


def pick_op(g, rng):
    """Choose one derivation (as replayable data) applicable to graph g."""
    outs = list(g.outputs)
    req = list(g.inputs.required) + list(g.inputs.optional)
    op = rng.choice(["bind", "unbind", "select", "with_entrypoint", "add_nodes", "add_nodes_empty", "as_node"])
    if op == "bind" and req:
        return ("bind", rng.choice(req), rng.choice(dag.VALUES))
    if op == "unbind" and g.inputs.bound:
        return ("unbind", rng.choice(sorted(g.inputs.bound)))
    if op == "select" and outs:
        return ("select", rng.choice(outs))
    if op == "with_entrypoint":
        return ("with_entrypoint", rng.choice(sorted(g.nodes)))
    if op == "add_nodes" and (req + outs):
        return ("add_nodes", f"extra{rng.randrange(1000)}", rng.choice(req + outs), f"xo{rng.randrange(1000)}")
    if op == "add_nodes_empty":
        return ("add_nodes_empty",)
    if op == "as_node":
        return ("as_node",)
    return None


def apply_op(g, op, log):
    """Apply a recorded derivation; returns the derived object, or None when the library legitimately rejects it."""
    try:
        if op[0] == "bind":
            return g.bind(**{op[1]: op[2]})
        if op[0] == "unbind":
            return g.unbind(op[1])
        if op[0] == "select":
            return g.select(op[1])
        if op[0] == "with_entrypoint":
            return g.with_entrypoint(op[1])
        if op[0] == "add_nodes":
            return g.add_nodes(tagged_node(op[1], [op[2]], [op[3]], log))
        if op[0] == "add_nodes_empty":
            return g.add_nodes()
        if op[0] == "as_node":
            return (g if g.name else Graph(list(g.nodes.values()), name="wrapped")).as_node()
    except Exception:  # noqa: BLE001
        return None
    return None


def twin(spec, ops_path):
    """The same derivation path replayed on an independently built root that has never been run or inspected."""
    g, _ = dag.build(spec, Log())
    for op in ops_path:
        g = apply_op(g, op, Log())
        if g is None:
            return None
    return g


def check_graph(spec, res, opseed):
    set_case("C07", dict(spec, opseed=opseed), "sync")
    rng = random.Random(opseed)
    log = Log()
    g0, _ = dag.build(spec, log)
    provided = spec["provided"]
    rep = {"harness": "C07", "spec": dict(spec, opseed=opseed), "part": "graph"}
    objs = [(g0, "root", graph_snapshot(g0, provided), [])]
    history = []
    for step in range(3):
        base, bname, _, bpath = rng.choice([o for o in objs if isinstance(o[0], Graph)])
        op = pick_op(base, rng)
        if op is None:
            continue
        d = apply_op(base, op, log)
        history.append(f"{bname}.{op}")
        if d is not None:
            if d is base:
                res.fail(kind="oracle", function=f"Graph.{op[0]}", what=f"{op} returned the receiver itself, not a new object", replay=rep)
            if isinstance(d, Graph):
                snap = graph_snapshot(d, provided)
                t = twin(spec, bpath + [op])
                if t is not None:
                    tsnap = graph_snapshot(t, provided)
                    if tsnap != snap:
                        diff = {k: (tsnap[k], snap[k]) for k in snap if snap[k] != tsnap[k]}
                        res.fail(kind="oracle", function="Graph derivation (independence)", what=f"derived object {history} differs from an independently built twin (twin, derived): {diff}", replay=rep)
                        return
                objs.append((d, f"d{step}", snap, bpath + [op]))
            else:
                node_snapshot(d)
        # every earlier object must still look and behave exactly as when it was first observed
        for o, name, snap, _p in objs:
            now = graph_snapshot(o, provided)
            if now != snap:
                diff = {k: (snap[k], now[k]) for k in snap if snap[k] != now[k]}
                res.fail(kind="oracle", function="Graph derivation (immutability)", what=f"object {name} changed after {history}: {diff}", replay=rep)
                return
    res.case(repr((spec["nodes"], opseed)), nontrivial=True, sample={"history": history})


def check_node(spec, res, opseed):
    """Node-level derivations on function nodes and on a nested-graph node."""
    set_case("C07", dict(spec, opseed=opseed), "sync")
    rng = random.Random(opseed)
    log = Log()
    nd = rng.choice(spec["nodes"])
    fn = tagged_node(nd["name"], nd["params"], nd["outs"], log, nd["defaults"])
    inner = Graph([tagged_node("f", ["a", "b"], ["p", "q"], log, op="tag")], name="inner")
    gn = inner.as_node()
    for receiver, label, run_inputs in ((fn, "function node", None), (gn, "graph node", {"a": 10, "b": 3})):
        snaps = [(receiver, "root", node_snapshot(receiver, run_inputs))]
        hist = []
        for step in range(3):
            base, bname, _ = rng.choice(snaps)
            ins, outs = list(base.inputs), list(base.outputs)
            op = rng.choice(["with_name", "with_inputs_swap", "with_inputs_one", "with_outputs_swap", "with_outputs_one", "map_over"])
            try:
                if op == "with_name":
                    d = base.with_name(base.name + "_r")
                elif op == "with_inputs_swap" and len(ins) >= 2:
                    d = base.with_inputs({ins[0]: ins[1], ins[1]: ins[0]})
                elif op == "with_inputs_one" and ins:
                    d = base.with_inputs({ins[0]: ins[0] + "_n"})
                elif op == "with_outputs_swap" and len(outs) >= 2:
                    d = base.with_outputs({outs[0]: outs[1], outs[1]: outs[0]})
                elif op == "with_outputs_one" and outs:
                    d = base.with_outputs({outs[0]: outs[0] + "_n"})
                elif op == "map_over" and hasattr(base, "map_over") and ins:
                    d = base.map_over(ins[0])
                else:
                    continue
            except Exception:  # noqa: BLE001
                continue
            hist.append(f"{bname}.{op}")
            if d is base:
                res.fail(kind="oracle", function=f"{label}.{op}", what=f"{op} returned the receiver itself", replay={"harness": "C07", "spec": dict(spec, opseed=opseed), "part": "node"})
            snaps.append((d, f"d{step}", node_snapshot(d, None)))
            for o, name, snap in snaps:
                now = node_snapshot(o, run_inputs if name == "root" else None)
                if now != snap:
                    diff = {k: (snap[k], now[k]) for k in snap if snap[k] != now[k]}
                    res.fail(kind="oracle", function=f"{label} derivation (immutability)", what=f"{label} {name} changed after {hist}: {diff}", replay={"harness": "C07", "spec": dict(spec, opseed=opseed), "part": "node"})
                    return
        res.case(repr((label, nd["name"], opseed)), nontrivial=bool(hist))


def check_observed_then_derived(res):
    """The same derivation applied to the same node gives the same object whether or not the node was LOOKED AT first (its
    defaults / annotations read, put into a graph, run): memoised views of the receiver must not travel into what is derived
    from it - for function nodes and gates, through chains of further derivations."""
    from hypergraph import Graph, node
    from harness.core import run_sync, set_case
    set_case("C07", {"observed_then_derived": True}, "sync")

    def mk():
        @node(output_name="y")
        def scale(x: int, factor: int = 2) -> int:
            return x * factor
        return scale

    def derive(n, chain):
        d = n.with_inputs(factor="k")
        if chain:
            d = d.with_name("scaled").with_outputs(y="z")
        return d

    def view(d):
        g = Graph([d])
        return {"inputs": tuple(d.inputs), "defaults": dict(d.defaults), "annotations": {k: getattr(v, "__name__", str(v)) for k, v in d.parameter_annotations.items()},
                "required": tuple(g.inputs.required), "optional": tuple(g.inputs.optional), "run": run_sync(g, {"x": 5})}

    for chain in (False, True):
        fresh = view(derive(mk(), chain))
        seen = mk()
        _ = (seen.defaults, seen.parameter_annotations, Graph([seen]).inputs, run_sync(Graph([seen]), {"x": 1}))
        after = view(derive(seen, chain))
        res.case(repr(("observed_then_derived", chain)), nontrivial=True, sample={"chain": chain, "fresh": fresh})
        if fresh != after:
            res.fail(kind="oracle", function="HyperNode._copy / _invalidate_cached_properties", replay={"harness": "C07", "spec": {"observed_then_derived": True}, "opseed": 0},
                     what=f"with_inputs(factor='k'){' + with_name + with_outputs' if chain else ''} gives {after} when the node had been looked at before, {fresh} when it had not")


def run(tier, seed, functions):
    n = 150 if tier == "quick" else 3000
    res = Result("C07", "random DAG graphs x sequences of <=3 derivations (bind, unbind, select, with_entrypoint, add_nodes, add_nodes(), as_node) applied to any earlier object, derived objects "
                 "are run (also with a run-time select); function nodes and nested-graph nodes x <=3 derivations (with_name, with_inputs/with_outputs incl. parallel swaps, map_over); "
                 "oracle = snapshot (inputs, outputs, bindings, selection, entry points, structure hash, run result) of every earlier object unchanged",
                 {"programs": n, "ops_per_history": 3})
    rng = random.Random(seed * 1297 + 7)
    for _ in range(n):
        spec = dag.gen_spec(rng)
        for nd in spec["nodes"]:
            nd["rename_mode"] = None
        check_graph(spec, res, rng.randrange(10**6))
        check_node(spec, res, rng.randrange(10**6))
    check_observed_then_derived(res)
    return res


def replay(rep):
    res = Result("C07", "", {})
    spec = dict(rep["spec"])
    if spec.get("observed_then_derived"):
        check_observed_then_derived(res)
        return [f["what"] for f in res.failures]
    opseed = spec.pop("opseed")
    (check_graph if rep.get("part") == "graph" else check_node)(spec, res, opseed)
    return [f["what"] for f in res.failures]
