"""C07 bounded stand-in: derivation operations return new objects and leave the receiver (and its siblings) unchanged."""
import random

from hypergraph import Graph

from harness import dag, nest
from harness.core import Log, Result, run_sync, set_case, tagged_node


def graph_snapshot(g, provided, select=None):
    ins = g.inputs
    kw = {"select": select} if select else {}
    return {"required": ins.required, "optional": ins.optional, "entrypoints": dict(ins.entrypoints), "bound": {k: repr(v) for k, v in sorted(ins.bound.items())},
            "outputs": g.outputs, "selected": g.selected, "entry_cfg": g.entrypoints_config, "hash": g.definition_hash, "nodes": tuple(sorted(g.nodes)),
            "run": run_sync(g, provided, **kw)}


def node_snapshot(n, run_graph_inputs=None):
    snap = {"name": n.name, "inputs": n.inputs, "outputs": n.outputs, "hash": n.definition_hash, "defaults": {p: (n.has_default_for(p)) for p in n.inputs}}
    if run_graph_inputs is not None:
        snap["run"] = run_sync(Graph([n]), run_graph_inputs)
    return snap


def graph_ops(g, spec, rng, log):
    """Apply one random derivation to graph g; returns (description, derived or None if the op legitimately raised)."""
    outs = list(g.outputs)
    req = list(g.inputs.required) + list(g.inputs.optional)
    op = rng.choice(["bind", "unbind", "select", "with_entrypoint", "add_nodes", "add_nodes_empty", "as_node"])
    try:
        if op == "bind" and req:
            k = rng.choice(req)
            return f"bind({k})", g.bind(**{k: rng.choice(dag.VALUES)})
        if op == "unbind" and g.inputs.bound:
            k = rng.choice(sorted(g.inputs.bound))
            return f"unbind({k})", g.unbind(k)
        if op == "select" and outs:
            k = rng.choice(outs)
            return f"select({k})", g.select(k)
        if op == "with_entrypoint":
            k = rng.choice(sorted(g.nodes))
            return f"with_entrypoint({k})", g.with_entrypoint(k)
        if op == "add_nodes":
            extra = tagged_node(f"extra{rng.randrange(1000)}", [rng.choice(req + outs)] if (req + outs) else [], [f"xo{rng.randrange(1000)}"], log)
            return "add_nodes(extra)", g.add_nodes(extra)
        if op == "add_nodes_empty":
            return "add_nodes()", g.add_nodes()
        if op == "as_node":
            gn = (g if g.name else Graph(list(g.nodes.values()), name="wrapped")).as_node()
            return "as_node()", gn
    except Exception:  # noqa: BLE001 - an operation may be legitimately rejected (e.g. binding an output); the receiver must still be unchanged
        return op + " (rejected)", None
    return op + " (n/a)", None


def check_graph(spec, res, opseed):
    set_case("C07", dict(spec, opseed=opseed), "sync")
    rng = random.Random(opseed)
    log = Log()
    g0, _ = dag.build(spec, log)
    provided = spec["provided"]
    objs = [(g0, "root", graph_snapshot(g0, provided))]
    history = []
    for step in range(3):
        base, bname, _ = rng.choice([o for o in objs if isinstance(o[0], Graph)])
        desc, d = graph_ops(base, spec, rng, log)
        history.append(f"{bname}.{desc}")
        if d is not None:
            if d is base:
                res.fail(kind="oracle", function=f"Graph.{desc.split('(')[0]}", what=f"{desc} returned the receiver itself, not a new object", replay={"harness": "C07", "spec": dict(spec, opseed=opseed), "part": "graph"})
            if isinstance(d, Graph):
                # use the derived object: runs with and without a run-time select
                snap = graph_snapshot(d, provided)
                if d.outputs:
                    run_sync(d, provided, select=d.outputs[0])
                objs.append((d, f"d{step}", snap))
            else:
                node_snapshot(d)
        # every earlier object must still look and behave exactly as when it was first observed
        for o, name, snap in objs:
            now = graph_snapshot(o, provided)
            if now != snap:
                diff = {k: (snap[k], now[k]) for k in snap if snap[k] != now[k]}
                res.fail(kind="oracle", function="Graph derivation (immutability)", what=f"object {name} changed after {history}: {diff}", replay={"harness": "C07", "spec": dict(spec, opseed=opseed), "part": "graph"})
                return
    res.case(repr((spec["nodes"], opseed)), nontrivial=True, sample={"history": history})


def check_node(spec, res, opseed):
    """Node-level derivations on function nodes and on a nested-graph node."""
    set_case("C07", dict(spec, opseed=opseed), "sync")
    rng = random.Random(opseed)
    log = Log()
    nd = rng.choice(spec["nodes"])
    fn = tagged_node(nd["name"], nd["params"], nd["outs"], log, nd["defaults"])
    inner = Graph([tagged_node("f", ["a", "b"], ["p", "q"], log, op="tag")], name="inner")
    gn = inner.as_node()
    for receiver, label, run_inputs in ((fn, "function node", None), (gn, "graph node", {"a": 10, "b": 3})):
        snaps = [(receiver, "root", node_snapshot(receiver, run_inputs))]
        hist = []
        for step in range(3):
            base, bname, _ = rng.choice(snaps)
            ins, outs = list(base.inputs), list(base.outputs)
            op = rng.choice(["with_name", "with_inputs_swap", "with_inputs_one", "with_outputs_swap", "with_outputs_one", "map_over"])
            try:
                if op == "with_name":
                    d = base.with_name(base.name + "_r")
                elif op == "with_inputs_swap" and len(ins) >= 2:
                    d = base.with_inputs({ins[0]: ins[1], ins[1]: ins[0]})
                elif op == "with_inputs_one" and ins:
                    d = base.with_inputs({ins[0]: ins[0] + "_n"})
                elif op == "with_outputs_swap" and len(outs) >= 2:
                    d = base.with_outputs({outs[0]: outs[1], outs[1]: outs[0]})
                elif op == "with_outputs_one" and outs:
                    d = base.with_outputs({outs[0]: outs[0] + "_n"})
                elif op == "map_over" and hasattr(base, "map_over") and ins:
                    d = base.map_over(ins[0])
                else:
                    continue
            except Exception:  # noqa: BLE001
                continue
            hist.append(f"{bname}.{op}")
            if d is base:
                res.fail(kind="oracle", function=f"{label}.{op}", what=f"{op} returned the receiver itself", replay={"harness": "C07", "spec": dict(spec, opseed=opseed), "part": "node"})
            snaps.append((d, f"d{step}", node_snapshot(d, None)))
            for o, name, snap in snaps:
                now = node_snapshot(o, run_inputs if name == "root" else None)
                if now != snap:
                    diff = {k: (snap[k], now[k]) for k in snap if snap[k] != now[k]}
                    res.fail(kind="oracle", function=f"{label} derivation (immutability)", what=f"{label} {name} changed after {hist}: {diff}", replay={"harness": "C07", "spec": dict(spec, opseed=opseed), "part": "node"})
                    return
        res.case(repr((label, nd["name"], opseed)), nontrivial=bool(hist))


def run(tier, seed, functions):
    n = 150 if tier == "quick" else 3000
    res = Result("C07", "random DAG graphs x sequences of <=3 derivations (bind, unbind, select, with_entrypoint, add_nodes, add_nodes(), as_node) applied to any earlier object, derived objects "
                 "are run (also with a run-time select); function nodes and nested-graph nodes x <=3 derivations (with_name, with_inputs/with_outputs incl. parallel swaps, map_over); "
                 "oracle = snapshot (inputs, outputs, bindings, selection, entry points, structure hash, run result) of every earlier object unchanged",
                 {"programs": n, "ops_per_history": 3})
    rng = random.Random(seed * 1297 + 7)
    for _ in range(n):
        spec = dag.gen_spec(rng)
        for nd in spec["nodes"]:
            nd["rename_mode"] = None
        check_graph(spec, res, rng.randrange(10**6))
        check_node(spec, res, rng.randrange(10**6))
    return res


def replay(rep):
    res = Result("C07", "", {})
    spec = dict(rep["spec"])
    opseed = spec.pop("opseed")
    (check_graph if rep.get("part") == "graph" else check_node)(spec, res, opseed)
    return [f["what"] for f in res.failures]
