"""C19 bounded stand-in: structural mistakes are rejected at construction wherever they occur; the repaired graph builds."""
import itertools
import random
import typing
from typing import Any, Optional, Union

from hypergraph import END, FunctionNode, Graph, GraphConfigError
from hypergraph._typing import is_type_compatible

from harness import dag
from harness.core import Log, Result, make_function, set_case, tagged_node
from harness.flow import gate_node


def base_nodes(spec, log):
    return [tagged_node(nd["name"], nd["params"], nd["outs"], log, nd["defaults"]) for nd in spec["nodes"]]


def flaws(spec, rng):
    """(label, builder) pairs: each builder returns the node list + kwargs of a graph with exactly ONE structural mistake."""
    out = []
    n = len(spec["nodes"])
    for pos in range(n):
        nd = spec["nodes"][pos]

        def dup_name(pos=pos):
            log = Log()
            ns = base_nodes(spec, log)
            ns.insert(rng.randrange(len(ns) + 1), tagged_node(spec["nodes"][pos]["name"], [], [f"zz{pos}"], log))
            return ns, {}
        out.append((f"duplicate node name at {pos}", dup_name))

        if nd["outs"]:
            def dup_output(pos=pos):
                log = Log()
                ns = base_nodes(spec, log)
                ns.insert(rng.randrange(len(ns) + 1), tagged_node(f"other{pos}", [], [spec["nodes"][pos]["outs"][0]], log))
                return ns, {}
            out.append((f"two unordered producers of {nd['outs'][0]}", dup_output))

        def bad_gate_target(pos=pos):
            log = Log()
            ns = base_nodes(spec, log)
            tgt = spec["nodes"][pos]["name"]
            ns.insert(rng.randrange(len(ns) + 1), gate_node(f"gate{pos}", "route", [], log, lambda a: None, targets=[tgt, "no_such_node"]))
            return ns, {}
        out.append((f"gate target that is not a node (next to {nd['name']})", bad_gate_target))

        def bad_wait(pos=pos):
            log = Log()
            ns = base_nodes(spec, log)
            nd2 = spec["nodes"][pos]
            ns[pos] = tagged_node(nd2["name"], nd2["params"], nd2["outs"], log, nd2["defaults"], wait_for=("nobody_produces_this",))
            return ns, {}
        out.append((f"wait_for on an unproduced name at {nd['name']}", bad_wait))

        if nd["params"]:
            def inconsistent_default(pos=pos):
                log = Log()
                ns = base_nodes(spec, log)
                p = spec["nodes"][pos]["params"][0]
                ns.insert(rng.randrange(len(ns) + 1), tagged_node(f"cons{pos}", [p], [f"cc{pos}"], log, {p: ("different", "default")}))
                if p in spec["nodes"][pos]["defaults"] or True:
                    nd2 = spec["nodes"][pos]
                    ns[pos] = tagged_node(nd2["name"], nd2["params"], nd2["outs"], log, {**nd2["defaults"], p: "one"})
                return ns, {}
            out.append((f"inconsistent defaults for {nd['params'][0]}", inconsistent_default))

    def bad_graph_name():
        return base_nodes(spec, Log()), {"name": "bad/name"}
    out.append(("illegal graph name", bad_graph_name))

    def bad_output_name():
        log = Log()
        ns = base_nodes(spec, log)
        f = make_function("weird", [], {}, ["return 1"], {})
        ns.append(FunctionNode(f, name="weird", output_name="not an identifier"))
        return ns, {}
    out.append(("illegal output name", bad_output_name))

    def edge_unknown_node():
        ns = base_nodes(spec, Log())
        return ns, {"edges": [("no_such_node", ns[0].name)]}
    out.append(("explicit edge naming an unknown node", edge_unknown_node))
    return out


def check_spec(spec, res, fseed):
    set_case("C19", dict(spec, fseed=fseed), "n/a")
    rng = random.Random(fseed)
    rep = {"harness": "C19", "spec": dict(spec, fseed=fseed), "runner": "n/a", "part": "flaws"}
    try:
        Graph(base_nodes(spec, Log()))
    except Exception as e:  # noqa: BLE001
        res.fail(kind="oracle", function="Graph()", what=f"valid graph rejected: {type(e).__name__}: {str(e)[:200]}", replay=rep)
        return
    for label, mk in flaws(spec, rng):
        res.case(repr((spec["nodes"], label)), nontrivial=True, sample={"flaw": label})
        try:
            ns, kw = mk()
            Graph(ns, **kw)
            res.fail(kind="oracle", function="Graph() validation", what=f"graph with a structural mistake ({label}) was accepted", replay=rep)
        except GraphConfigError:
            pass
        except Exception as e:  # noqa: BLE001
            res.fail(kind="oracle", function="Graph() validation", what=f"structural mistake ({label}) rejected with {type(e).__name__} instead of a configuration error: {str(e)[:150]}", replay=rep)


# ---- strict types -------------------------------------------------------------------------------
ATOMS = [int, bool, str, object, list, dict, float]
UNIVERSE = ATOMS + [Any, Optional[int], Union[int, str], Union[bool, str], list[int], list[str], list[bool], dict[str, int], dict[str, bool], Optional[list[int]]]


def compat(inc, req):
    """Independent evaluator of the documented rules: identity, Any (as required), unions (every incoming member must fit
    some required member), parameterised generics (origin subclass + pairwise args; bare required accepts), subclassing."""
    if req is Any or req is object or inc == req:
        return True
    if inc is Any:
        return False  # documented: Any accepts anything only as the REQUIRED type
    io, ro = typing.get_origin(inc), typing.get_origin(req)
    if io is Union:
        rs = [compat(a, req) for a in typing.get_args(inc)]
        return None if any(r is None for r in rs) else all(rs)
    if ro is Union:
        rs = [compat(inc, a) for a in typing.get_args(req)]
        return True if any(r is True for r in rs) else (None if any(r is None for r in rs) else False)
    if io is not None or ro is not None:
        ib, rb = io or inc, ro or req
        if not (isinstance(ib, type) and isinstance(rb, type) and issubclass(ib, rb)):
            return False
        ia, ra = typing.get_args(inc), typing.get_args(req)
        if not ra:
            return True
        if not ia:
            return None  # bare incoming generic against a parameterised requirement: not covered by the documented rules
        if len(ia) != len(ra):
            return False
        rs = [compat(a, b) for a, b in zip(ia, ra)]
        return False if any(r is False for r in rs) else (None if any(r is None for r in rs) else True)
    if isinstance(inc, type) and isinstance(req, type):
        return issubclass(inc, req)
    return False


def check_types(res):
    set_case("C19", {"part": "types"}, "n/a")
    for inc, req in itertools.product(UNIVERSE, UNIVERSE):
        want = compat(inc, req)
        got = is_type_compatible(inc, req)
        res.case(repr(("types", str(inc), str(req))), nontrivial=inc != req)
        if want is None:
            continue
        if bool(got) != want:
            res.fail(kind="oracle", function="is_type_compatible", what=f"is_type_compatible({inc}, {req}) = {got}, the documented rules give {want}", replay={"harness": "C19", "spec": {"inc": str(inc), "req": str(req)}, "runner": "n/a", "part": "types"})


def typed_node(name, params, out, ret, ann):
    sig = ", ".join(f"{p}: _T_{p}" for p in params)
    src_env = {f"_T_{p}": ann[p] for p in params}
    src_env["_RET"] = ret
    import linecache
    src = f"def {name}({sig}) -> _RET:\n    return None\n"
    fn = f"<verif-typed-{name}-{id(ann)}>"
    linecache.cache[fn] = (len(src), None, src.splitlines(True), fn)
    ns = dict(src_env)
    exec(compile(src, fn, "exec"), ns)
    f = ns[name]
    f.__annotations__ = {**{p: ann[p] for p in params}, "return": ret}
    return FunctionNode(f, name=name, output_name=out)


def check_strict(res):
    """strict_types: an edge whose producer type does not satisfy the consumer type (or lacks an annotation) is rejected -
    also when the consumer's inputs were renamed by a same-call swap."""
    set_case("C19", {"part": "strict"}, "n/a")
    rep = {"harness": "C19", "spec": {"part": "strict"}, "runner": "n/a", "part": "strict"}
    for prod_t, (ta, tb), swap in itertools.product([int, str], [(int, str), (str, int)], [False, True]):
        prod = typed_node("prod", [], "a", prod_t, {})
        other = typed_node("prod2", [], "b", (str if prod_t is int else int), {})
        if swap:
            cons = typed_node("cons", ["b", "a"], "r", int, {"b": ta, "a": tb}).with_inputs({"a": "b", "b": "a"})  # parameter b (type ta) is now fed by 'a'
        else:
            cons = typed_node("cons", ["a", "b"], "r", int, {"a": ta, "b": tb})
        ok_expected = (prod_t is ta)  # producer of 'a' has type prod_t, the parameter fed by 'a' has type ta; 'b' is fed by the complementary type
        ok_expected = ok_expected and ((str if prod_t is int else int) is tb)
        res.case(repr(("strict", str(prod_t), str(ta), str(tb), swap)), nontrivial=True)
        try:
            Graph([prod, other, cons], strict_types=True)
            built = True
        except GraphConfigError:
            built = False
        if built != ok_expected:
            res.fail(kind="oracle", function="_validate_types / annotations under renames", what=f"strict graph producer a:{prod_t.__name__} -> consumer param types ({ta.__name__},{tb.__name__}) swap={swap}: accepted={built}, expected accepted={ok_expected}", replay=rep)


def check_conflict_shapes(res):
    """Producers sharing two names with a third, ordered, producer of one of them (contested-value computation)."""
    set_case("C19", {"part": "conflict"}, "n/a")
    rep = {"harness": "C19", "spec": {"part": "conflict"}, "runner": "n/a", "part": "conflict"}
    log = Log()
    p = tagged_node("p", ["y"], ["x", "y"], log)
    q = tagged_node("q", ["x"], ["x", "y"], log)
    r = tagged_node("r", [], ["x"], log, emit=("r_done",))
    p2 = tagged_node("p", ["y"], ["x", "y"], log, wait_for=("r_done",))
    q2 = tagged_node("q", ["x"], ["x", "y"], log, wait_for=("r_done",))
    res.case("conflict-3-producers", nontrivial=True)
    try:
        Graph([p2, q2, r])
        res.fail(kind="oracle", function="validate_output_conflicts", what="two producers of x and y that are neither exclusive nor ordered (plus an ordered third producer of x) were accepted", replay=rep)
    except GraphConfigError:
        pass
    except Exception as e:  # noqa: BLE001
        res.fail(kind="oracle", function="validate_output_conflicts", what=f"unordered producers rejected with {type(e).__name__}, not a configuration error", replay=rep)


def check_conflict_orders(res):
    """Position independence of the mutex-or-ordered rule: three producers of one name, two of them ordered with the third
    but not with each other, in EVERY declaration order (name inference and explicit edges); the repaired graph is accepted."""
    set_case("C19", {"part": "conflict_orders"}, "n/a")
    rep = {"harness": "C19", "spec": {"part": "conflict_orders"}, "runner": "n/a", "part": "conflict_orders"}
    for repaired, explicit in itertools.product([False, True], [False, True]):
        for order in itertools.permutations(["first", "late", "merge"]):
            log = Log()
            nodes = {"first": tagged_node("first", ["seed"], ["x"], log, emit=("first_done",)),
                     "late": tagged_node("late", ["seed"], ["x"], log, emit=("late_done",), wait_for=(("first_done",) if repaired else ())),
                     "merge": tagged_node("merge", ["seed"], ["x"], log, wait_for=("first_done", "late_done"))}
            edges = [("first", "merge"), ("late", "merge")] + ([("first", "late")] if repaired else [])
            res.case(repr(("conflict_orders", order, repaired, explicit)), nontrivial=True)
            try:
                Graph([nodes[n] for n in order], **({"edges": edges} if explicit else {}))
                built, err = True, None
            except GraphConfigError:
                built, err = False, None
            except Exception as e:  # noqa: BLE001
                built, err = False, e
            if err is not None:
                res.fail(kind="oracle", function="validate_output_conflicts", what=f"producers {order} (repaired={repaired}, explicit edges={explicit}) rejected with {type(err).__name__}, not a configuration error", replay=rep)
            elif built != repaired:
                res.fail(kind="oracle", function="validate_output_conflicts", what=f"three producers of x in order {order}, first/late unordered={not repaired}, explicit edges={explicit}: accepted={built}, expected accepted={repaired}", replay=rep)


def check_strict_fanout(res):
    """strict_types at every CONSUMER position: one value consumed by several nodes, the flawed consumer (type mismatch or
    missing annotation) first, in the middle or last."""
    set_case("C19", {"part": "strict_fanout"}, "n/a")
    rep = {"harness": "C19", "spec": {"part": "strict_fanout"}, "runner": "n/a", "part": "strict_fanout"}
    import inspect
    for n_cons, bad_at, flaw in itertools.product([2, 3], [None, 0, 1, 2], ["mismatch", "unannotated"]):
        if bad_at is not None and bad_at >= n_cons:
            continue
        prod = typed_node("prod", [], "a", int, {})
        cons = []
        for i in range(n_cons):
            if i == bad_at and flaw == "unannotated":
                c = typed_node(f"cons{i}", ["a"], f"r{i}", int, {"a": inspect.Parameter.empty})
                c.func.__annotations__.pop("a", None)
                c = FunctionNode(c.func, name=f"cons{i}", output_name=f"r{i}")
            else:
                c = typed_node(f"cons{i}", ["a"], f"r{i}", int, {"a": (str if i == bad_at else int)})
            cons.append(c)
        res.case(repr(("strict_fanout", n_cons, bad_at, flaw)), nontrivial=True)
        try:
            Graph([prod] + cons, strict_types=True)
            built = True
        except GraphConfigError:
            built = False
        if built != (bad_at is None):
            res.fail(kind="oracle", function="_validate_types", what=f"strict graph, value 'a':int consumed by {n_cons} nodes, consumer #{bad_at} flawed ({flaw}): accepted={built}, expected accepted={bad_at is None}", replay=rep)


def run(tier, seed, functions):
    n = 40 if tier == "quick" else 600
    res = Result("C19", "valid random DAGs x single injected flaw at every position (duplicate node name, second unordered producer, gate target that is not a node, wait_for on an unproduced name, "
                 "inconsistent defaults, illegal graph/output name, explicit edge to an unknown node) must raise GraphConfigError and the unflawed graph must build; strict-type edges incl. swapped "
                 "renames; overlapping producer sets; closed universe of type expressions x all ordered pairs against an independent evaluator", {"programs": n, "type_universe": len(UNIVERSE)})
    rng = random.Random(seed * 1801 + 19)
    for _ in range(n):
        spec = dag.gen_spec(rng, side_effect_nodes=False)
        for nd in spec["nodes"]:
            nd["rename_mode"] = None
        check_spec(spec, res, rng.randrange(10**6))
    check_types(res)
    check_strict(res)
    check_conflict_shapes(res)
    check_conflict_orders(res)
    check_strict_fanout(res)
    return res


def replay(rep):
    res = Result("C19", "", {})
    if rep["part"] == "flaws":
        spec = dict(rep["spec"])
        check_spec(spec, res, spec.pop("fseed"))
    elif rep["part"] == "types":
        check_types(res)
    elif rep["part"] == "strict":
        check_strict(res)
    elif rep["part"] == "conflict_orders":
        check_conflict_orders(res)
    elif rep["part"] == "strict_fanout":
        check_strict_fanout(res)
    else:
        check_conflict_shapes(res)
    return [f["what"] for f in res.failures]
