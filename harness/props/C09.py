"""C09 bounded stand-in: caching is transparent (in-memory unbounded / LRU, on-disk incl. corruption and torn writes)."""
import pickle
import random
import shutil
import tempfile

from hypergraph import DiskCache, FunctionNode, Graph, InMemoryCache, SyncRunner, AsyncRunner
import hypergraph.cache as hcache

from harness import dag, flow
from harness.core import Log, Result, make_function, run_async, run_sync, set_case


def build(spec, cache_nodes, log):
    if spec["family"] == "dag":
        kw = {nd["name"]: {"cache": nd["name"] in cache_nodes} for nd in spec["nodes"]}
        return dag.build(spec, log, node_kwargs=kw)[0], spec["provided"]
    g, _ = flow.build_gated(spec, log)
    return g, {"x": spec["x"]}


def backends(tmp):
    yield "mem", lambda: InMemoryCache()
    for k in (0, 1, 2):
        yield f"lru{k}", (lambda k=k: InMemoryCache(max_size=k))
    yield "disk", lambda: DiskCache(tmp)


def check_transparent(spec, res, runner_name, bname, make_backend):
    set_case("C09", {"spec": spec, "backend": bname}, runner_name)
    run = run_sync if runner_name == "sync" else run_async
    Runner = SyncRunner if runner_name == "sync" else AsyncRunner
    names = [nd["name"] for nd in spec["nodes"]] if spec["family"] == "dag" else []
    rng = random.Random(len(repr(spec)))
    cache_nodes = set(rng.sample(names, rng.randint(0, len(names)))) if names else set()
    log_u, log_c = Log(), Log()
    gu, inputs = build(spec, set(), log_u)
    ref = run(gu, inputs)
    backend = make_backend()
    runner = Runner(cache=backend)
    gc, _ = build(spec, cache_nodes, log_c)
    rep = {"harness": "C09", "spec": {"spec": spec, "backend": bname}, "runner": runner_name, "part": "transparent"}
    res.case(repr((spec, bname, runner_name)), nontrivial=bool(cache_nodes), sample={"spec": spec, "cacheable": sorted(cache_nodes), "backend": bname})
    for i in range(3):
        before = {n: log_c.count(n) for n in names}
        out = run(gc, inputs, runner=runner)
        if out != ref:
            res.fail(kind="oracle", function="check_cache/store_in_cache/cache backend", what=f"run #{i + 1} with backend {bname} (cacheable {sorted(cache_nodes)}) gives {out}, uncached run gives {ref}", runner=runner_name, replay=rep)
            return
        if i >= 1 and bname in ("mem", "disk") and ref["status"] == "completed":
            for n in cache_nodes:
                if log_c.count(n) != before[n]:
                    res.fail(kind="oracle", function="check_cache", what=f"cacheable node {n} was invoked again on run #{i + 1} although its entry is retained ({bname})", runner=runner_name, replay=rep)
                    return


def twin_nodes_case(kind, res, runner_name, bname, make_backend):
    """Two nodes built on the SAME function, differing in output names / emit names / input renames, share one cache."""
    set_case("C09", {"twin": kind, "backend": bname}, runner_name)
    run = run_sync if runner_name == "sync" else run_async
    Runner = SyncRunner if runner_name == "sync" else AsyncRunner
    log = Log()
    f = make_function("f", ["a", "b"], {}, ["_LOG.calls.append(('f', {'a': a, 'b': b}))", "return ('f', a, b)"], {"_LOG": log})
    sink = lambda name, params, wf=(): FunctionNode(make_function(name, params, {}, [f"return ({name!r}, {', '.join(params)}{',' if params else ''})"], {}), name=name, output_name=name + "_out", **({"wait_for": wf} if wf else {}))

    def graphs(cache):
        if kind == "outputs":
            n1 = FunctionNode(f, name="n1", output_name="o1", cache=cache)
            n2 = FunctionNode(f, name="n2", output_name="o2", cache=cache)
            return [Graph([n1, n2])], {"a": 1, "b": 2}
        if kind == "emit":
            n1 = FunctionNode(f, name="n1", output_name="v", emit="sig_a", cache=cache)
            n2 = FunctionNode(f, name="n1", output_name="v", emit="sig_b", cache=cache)
            return [Graph([n1, sink("wa", ["v"], "sig_a")]), Graph([n2, sink("wb", ["v"], "sig_b")])], {"a": 1, "b": 2}
        if kind == "swapped_inputs":
            n1 = FunctionNode(f, name="n1", output_name="o", cache=cache)
            n2 = FunctionNode(f, name="n1", output_name="o", cache=cache).with_inputs({"a": "b", "b": "a"})
            return [Graph([n1]), Graph([n2])], {"a": 1, "b": 2}
        if kind == "gate_targets":
            from hypergraph import IfElseNode
            dec = make_function("dec", ["a"], {}, ["_LOG.calls.append(('dec', {'a': a}))", "return a > 0"], {"_LOG": log})
            br = lambda: [FunctionNode(make_function(n, ["a"], {}, [f"return {n!r}"], {}), name=n, output_name=n.lower()) for n in ("A", "B")]
            return [Graph([IfElseNode(dec, when_true="A", when_false="B", name="gate", cache=cache)] + br()),
                    Graph([IfElseNode(dec, when_true="B", when_false="A", name="gate", cache=cache)] + br())], {"a": 1}
        if kind == "renamed_input":
            n1 = FunctionNode(f, name="n1", output_name="o", cache=cache)
            n2 = FunctionNode(f, name="n1", output_name="o", cache=cache).with_inputs({"a": "c"})
            return [Graph([n1]), Graph([n2])], {"a": 1, "b": 2, "c": 5}
        raise ValueError(kind)

    ref_graphs, inputs = graphs(False)
    refs = []
    for g in ref_graphs:
        refs.append(run(g, {k: v for k, v in inputs.items() if k in g.inputs.all}))
    runner = Runner(cache=make_backend())
    cg, _ = graphs(True)
    res.case(repr((kind, bname, runner_name)), nontrivial=True, sample={"twin": kind, "backend": bname})
    for g, ref in zip(cg, refs):
        out = run(g, {k: v for k, v in inputs.items() if k in g.inputs.all}, runner=runner)
        if out != ref:
            res.fail(kind="oracle", function="check_cache (cache key)", what=f"twin nodes ({kind}) sharing backend {bname}: cached run gives {out}, uncached gives {ref}", runner=runner_name,
                     replay={"harness": "C09", "spec": {"twin": kind, "backend": bname}, "runner": runner_name, "part": "twin"})
            return


CORRUPTIONS = ("flip", "truncate", "type", "drop_hmac", "drop_payload", "swap_payload_keep_hmac", "torn_payload_only", "transplant")


def disk_corruption_case(corruption, res, prewarm_hit):
    """Every stored disk entry x corruption class: behaves as a miss (no exception, uncached value, no unauthenticated unpickle)."""
    set_case("C09", {"corruption": corruption, "prewarm_hit": prewarm_hit}, "sync")
    tmp = tempfile.mkdtemp(prefix="hgv-c09-")
    try:
        log = Log()
        f = make_function("f", ["a"], {}, ["_LOG.calls.append(('f', {'a': a}))", "return {'v': a, 'tag': 'fresh'}"], {"_LOG": log})
        g = Graph([FunctionNode(f, name="n", output_name="o", cache=True)])
        cache = DiskCache(tmp)
        runner = SyncRunner(cache=cache)
        ref = run_sync(Graph([FunctionNode(f, name="n", output_name="o")]), {"a": 1})
        run_sync(g, {"a": 1}, runner=runner)
        if prewarm_hit:
            run_sync(g, {"a": 1}, runner=runner)  # a verified hit on the same instance before the entry is altered
        if corruption == "transplant":
            run_sync(g, {"a": 2}, runner=runner)  # a second, validly signed entry (other arguments) in the same directory
        raw = cache._cache
        keys = [k for k in raw.iterkeys() if not str(k).endswith(":hmac")]
        forged = pickle.dumps({"o": {"v": 666, "tag": "forged"}})
        loads_seen = []
        orig_loads = hcache.pickle.loads
        if corruption == "transplant" and len(keys) == 2:
            # each entry's payload AND signature moved under the other entry's key: both are authentic, neither belongs there
            (k0, k1) = keys
            p0, h0, p1, h1 = raw.get(k0), raw.get(k0 + ":hmac"), raw.get(k1), raw.get(k1 + ":hmac")
            raw.set(k0, p1); raw.set(k0 + ":hmac", h1); raw.set(k1, p0); raw.set(k1 + ":hmac", h0)
        for k in keys:
            payload = raw.get(k)
            if corruption == "transplant":
                continue
            if corruption == "flip":
                raw.set(k, bytes([payload[0] ^ 0xFF]) + payload[1:])
            elif corruption == "truncate":
                raw.set(k, payload[: len(payload) // 2])
            elif corruption == "type":
                raw.set(k, "not-bytes")
            elif corruption == "drop_hmac":
                raw.delete(k + ":hmac")
            elif corruption == "drop_payload":
                raw.delete(k)
            elif corruption == "swap_payload_keep_hmac":
                raw.set(k, forged)
            elif corruption == "torn_payload_only":
                raw.set(k, forged)  # new payload written, crash before its signature: the old signature is still there

        class Spy:
            @staticmethod
            def loads(b, *a, **kw):
                loads_seen.append(b)
                return orig_loads(b, *a, **kw)

            def __getattr__(self, n):
                return getattr(pickle, n)

        hcache.pickle = Spy()
        try:
            before = log.count("f")
            out = run_sync(g, {"a": 1}, runner=runner)
            out2 = run_sync(g, {"a": 1}, runner=SyncRunner(cache=DiskCache(tmp)))
        finally:
            hcache.pickle = pickle
        rep = {"harness": "C09", "spec": {"corruption": corruption, "prewarm_hit": prewarm_hit}, "runner": "sync", "part": "disk"}
        res.case(repr((corruption, prewarm_hit)), nontrivial=True, sample={"corruption": corruption, "prewarm_hit": prewarm_hit, "outcome": out})
        if out != ref or out2 != ref:
            res.fail(kind="oracle", function="DiskCache.get", what=f"disk entry corrupted by '{corruption}' (verified hit before: {prewarm_hit}): run gives {out} / fresh instance {out2}, uncached gives {ref}", replay=rep)
        bad = {forged}
        if corruption == "flip":
            bad.add(bytes([payload[0] ^ 0xFF]) + payload[1:])
        if corruption == "truncate":
            bad.add(payload[: len(payload) // 2])
        if any(b in bad for b in loads_seen):
            res.fail(kind="oracle", function="DiskCache.get", what=f"unauthenticated bytes were deserialised after '{corruption}'", replay=rep)
    finally:
        shutil.rmtree(tmp, ignore_errors=True)


def sharing_case(res, runner_name, bname, make_backend):
    """Equal arguments must hit the cache whatever objects carry them: run 1 passes ONE list object for both parameters,
    run 2 passes two equal lists (and the other way round).  A key that depends on object sharing misses here."""
    set_case("C09", {"sharing": True, "backend": bname}, runner_name)
    run = run_sync if runner_name == "sync" else run_async
    Runner = SyncRunner if runner_name == "sync" else AsyncRunner
    from harness.core import tagged_node
    for first_shared in (True, False):
        log = Log()
        g = Graph([tagged_node("f", ["a", "b"], ["r"], log, cache=True)])
        runner = Runner(cache=make_backend())
        one = [1, 2]
        shared, distinct = {"a": one, "b": one}, {"a": [1, 2], "b": [1, 2]}
        seq = (shared, distinct) if first_shared else (distinct, shared)
        outs = [run(g, v, runner=runner) for v in seq]
        res.case(repr(("sharing", first_shared, bname, runner_name)), nontrivial=True, sample={"first_shared": first_shared, "backend": bname, "outcomes": outs})
        rep = {"harness": "C09", "spec": {"backend": bname}, "runner": runner_name, "part": "sharing"}
        if outs[0] != outs[1] or outs[0]["status"] != "completed":
            res.fail(kind="oracle", function="compute_cache_key", what=f"equal arguments with different object sharing give different outcomes ({bname}): {outs}", runner=runner_name, replay=rep)
        elif log.count("f") != 1:
            res.fail(kind="oracle", function="compute_cache_key", what=f"equal arguments carried by {'shared then distinct' if first_shared else 'distinct then shared'} objects: the cacheable node ran {log.count('f')} times, expected one run and one hit ({bname})", runner=runner_name, replay=rep)


def run(tier, seed, functions):
    n = 25 if tier == "quick" else 400
    res = Result("C09", "DAG and gated programs with random cacheable subsets x run sequences of 3 sharing one backend (unbounded, LRU 0..2, disk) vs the uncached run; twin nodes on one function "
                 "(different outputs / emit names / swapped or renamed inputs); every disk entry x {flip, truncate, type change, missing signature, missing payload, payload swapped under an "
                 "intact signature, torn write, payload+signature of another entry transplanted} with and without a prior verified hit, with a pickle.loads spy", {"programs": n})
    rng = random.Random(seed * 577 + 9)
    tmp = tempfile.mkdtemp(prefix="hgv-c09-")
    try:
        for i in range(n):
            spec = dag.gen_spec(rng) if i % 3 else flow.gen_gated(rng)
            if spec["family"] == "dag":
                for nd in spec["nodes"]:
                    nd["rename_mode"] = None
            for bname, mk in backends(tmp + f"/p{i}"):
                check_transparent(spec, res, "sync", bname, mk)
            check_transparent(spec, res, "async", "mem", lambda: InMemoryCache())
        for kind in ("outputs", "emit", "swapped_inputs", "renamed_input", "gate_targets"):
            for bname, mk in (("mem", lambda: InMemoryCache()), ("disk", lambda: DiskCache(tmp + "/twin_" + kind))):
                for r in ("sync", "async"):
                    twin_nodes_case(kind, res, r, bname, mk)
        for bname, mk in (("mem", lambda: InMemoryCache()), ("disk", lambda: DiskCache(tempfile.mkdtemp(prefix="sharing", dir=tmp)))):
            for r in ("sync", "async"):
                sharing_case(res, r, bname, mk)
        for c in CORRUPTIONS:
            for pre in (False, True):
                disk_corruption_case(c, res, pre)
    finally:
        shutil.rmtree(tmp, ignore_errors=True)
    return res


def replay(rep):
    res = Result("C09", "", {})
    sp = rep["spec"]
    tmp = tempfile.mkdtemp(prefix="hgv-c09-")
    try:
        if rep["part"] == "disk":
            disk_corruption_case(sp["corruption"], res, sp["prewarm_hit"])
        elif rep["part"] == "sharing":
            mk = (lambda: InMemoryCache()) if sp["backend"] == "mem" else (lambda: DiskCache(tempfile.mkdtemp(prefix="sharing", dir=tmp)))
            sharing_case(res, rep["runner"], sp["backend"], mk)
        elif rep["part"] == "twin":
            mk = (lambda: InMemoryCache()) if sp["backend"] == "mem" else (lambda: DiskCache(tmp))
            twin_nodes_case(sp["twin"], res, rep["runner"], sp["backend"], mk)
        else:
            mk = dict(backends(tmp))[sp["backend"]]
            check_transparent(sp["spec"], res, rep["runner"], sp["backend"], mk)
    finally:
        shutil.rmtree(tmp, ignore_errors=True)
    return [f["what"] for f in res.failures]
