"""C17 bounded stand-in: a waiting node runs after, never with, and once per production of the awaited name."""
import random

from harness import flow
from harness.core import STEP, Result, install_step_probe, run_async, run_sync, set_case


def check_spec(spec, res, runner_name):
    set_case("C17", spec, runner_name)
    install_step_probe()
    fam = spec["family"]
    try:
        g, log = {"signal": flow.build_signal, "ticker": flow.build_ticker, "loop": flow.build_loop}[fam](spec)
    except Exception as e:  # noqa: BLE001
        res.case(repr(spec))
        res.fail(kind="oracle", function="Graph()", what=f"valid program rejected: {type(e).__name__}: {str(e)[:200]}", replay={"harness": "C17", "spec": spec, "runner": runner_name})
        return
    inputs = {"x": 1} if fam == "signal" else {"count": 0, "x": 1} if fam == "ticker" else {"c0": spec["start"]}
    if fam == "ticker" and spec["async"] and runner_name == "sync":
        return
    out = (run_sync if runner_name == "sync" else run_async)(g, inputs, max_iterations=80)
    res.case(repr((spec, runner_name)), nontrivial=True, sample={"spec": spec, "runner": runner_name, "outcome": out})
    problems = []
    if out["status"] != "completed":
        problems.append(f"status {out['status']} {out['error']}")
    problems += flow.ordering_violations(g, log)
    if fam == "signal":
        for w in range(spec["n_waiters"]):
            if log.count(f"wait{w}") != 1:
                problems.append(f"waiter wait{w} ran {log.count(f'wait{w}')} times (its signal was produced once)")
    if fam == "ticker" and out["status"] == "completed":
        # every watcher must eventually run (its signal exists and its data arrives), at most once per production
        for w in range(spec["n_watch"]):
            c = log.count(f"watch{w}")
            if c < 1 or c > log.count("tick"):
                problems.append(f"watch{w} ran {c} times with {log.count('tick')} productions of the signal")
            if spec.get("two_names") and c != 1:
                problems.append(f"watch{w} waits for the one-shot signal 'ready' as well: it ran {c} times, 'ready' was produced once")
    for pb in problems:
        res.fail(kind="oracle", function="get_ready_nodes/_wait_for_satisfied/_defer_wait_for_nodes", what=pb, runner=runner_name, replay={"harness": "C17", "spec": spec, "runner": runner_name})


def run(tier, seed, functions):
    n = 100 if tier == "quick" else 2000
    res = Result("C17", "signal DAGs (function / gate producers, 1..2 waiters, data chains), ticker loops (signal re-emitted every iteration, watchers whose data arrives 0..3 steps late, "
                 "waiter declared before/after producer, sync and async bodies) and signal-synchronised counter loops; generic step-stamped ordering oracle",
                 {"programs": 3 * n})
    rng = random.Random(seed * 4447 + 17)
    for _ in range(n):
        for gen in (flow.gen_signal, flow.gen_ticker):
            spec = gen(rng)
            check_spec(spec, res, "sync")
            check_spec(spec, res, "async")
        spec = flow.gen_loop(rng)
        spec["sync"] = "signal"
        spec["nested"] = False
        check_spec(spec, res, "sync")
        check_spec(spec, res, "async")
    # systematic part (independent of the dice above): waiters on TWO names - a signal re-emitted by every loop iteration and a
    # one-shot signal, listed in either order -, whose data is re-supplied by every iteration and first arrives 0..3 steps late
    for limit in ((2, 4) if tier == "quick" else (1, 2, 3, 4)):
        for chain in range(4):
            for order in ("tick_first", "ready_first"):
                for watch_first in (True, False):
                    for watch_count in (True, False):
                        for is_async in (False, True):
                            spec = {"family": "ticker", "limit": limit, "chain": chain, "watch_first": watch_first, "n_watch": 1, "async": is_async, "watch_data": True,
                                    "two_names": order, "watch_count": watch_count}
                            check_spec(spec, res, "sync")
                            check_spec(spec, res, "async")
    return res


def replay(rep):
    from harness.monitor import Monitors
    mon = Monitors(only={rep["monitor"]}).arm() if rep.get("monitor") else None
    res = Result("C17", "", {})
    check_spec(rep["spec"], res, rep["runner"])
    if mon:
        mon.disarm()
        return [f["what"] for f in mon.failures]
    return [f["what"] for f in res.failures]
