"""C05 bounded stand-in: a nested graph behaves exactly like its nodes inlined (values and input spec)."""
import random

from harness import dag, nest
from harness.core import Result, run_async, run_sync, set_case


def check_spec(spec, res, runner_name):
    set_case("C05", spec, runner_name)
    run = run_sync if runner_name == "sync" else run_async
    rm = spec["real_map"]
    try:
        gf, logf = nest.build_flat(spec)
        gn, logn = nest.build_nested(spec)
    except Exception as e:  # noqa: BLE001
        res.case(repr(spec))
        res.fail(kind="oracle", function="Graph()/as_node()/with_inputs()", what=f"valid nested program rejected: {type(e).__name__}: {str(e)[:300]}", replay={"harness": "C05", "spec": spec, "runner": runner_name})
        return
    res.case(repr((spec, runner_name)), nontrivial=len(spec["group"]) >= 1 and (bool(spec["inner_bind"]) or spec["history"] != "none" or len(spec["base"]["nodes"]) > 1),
             sample={"spec": spec, "runner": runner_name})
    problems = []
    # input spec: same required / optional names (modulo the declared real rename of wrapper-only inputs)
    fr, fo = set(gf.inputs.required), set(gf.inputs.optional)
    nr = {k for k in gn.inputs.required}
    no = {k for k in gn.inputs.optional}
    fr_m, fo_m = {rm.get(k, k) for k in fr}, {rm.get(k, k) for k in fo}
    if nr != fr_m or no != fo_m:
        problems.append(f"input spec differs: flat required={sorted(fr_m)} optional={sorted(fo_m)}; nested required={sorted(nr)} optional={sorted(no)}")
    prov_f = spec["provided"]
    prov_n = {rm.get(k, k): v for k, v in prov_f.items()}
    of = run(gf, prov_f)
    on = run(gn, prov_n)
    if of["status"] != "completed":
        problems.append(f"flat run: {of}")
    elif on["status"] != "completed" or on["values"] != of["values"]:
        problems.append(f"nested run {on} differs from flat run {of}")
    else:
        expected, _ = dag.evaluate(nest.effective_flat(spec))
        exp = {k: repr(v) for k, v in sorted(expected.items())}
        if of["values"] != exp:
            problems.append(f"flat values {of['values']} != dependency-order evaluation {exp}")
    for pb in problems:
        res.fail(kind="oracle", function="GraphNode / input_spec / graph-node executor", what=pb, runner=runner_name, replay={"harness": "C05", "spec": spec, "runner": runner_name})


def check_shared_default(depth, res, runner_name):
    """Defaults inside inner graphs: two inner consumers of one parameter with a MUTABLE signature default that they mutate.
    Inlined, each node gets its own copy per run; wrapped (to any depth) it must be the same."""
    from hypergraph import Graph, node
    from harness.core import run_sync, run_async, set_case
    set_case("C05", {"shared_default": depth}, runner_name)
    run = run_sync if runner_name == "sync" else run_async

    def mk():
        @node(output_name="p")
        def first(x, acc=[]):  # noqa: B006 - the mutable default is the point
            acc.append(x)
            return list(acc)

        @node(output_name="q")
        def second(p, acc=[]):  # noqa: B006
            acc.append(len(p))
            return list(acc)
        return [first, second]

    flat = Graph(mk())
    g = Graph(mk(), name="inner0")
    for d in range(depth):
        g = Graph([g.as_node()], name=f"wrap{d}")
    ref, out = run(flat, {"x": 1}), run(g, {"x": 1})
    again = run(g, {"x": 1})
    res.case(repr(("shared_default", depth, runner_name)), nontrivial=True, sample={"depth": depth, "runner": runner_name, "flat": ref, "nested": out})
    rep = {"harness": "C05", "spec": {"shared_default": depth}, "runner": runner_name}
    if out != ref or again != ref:
        res.fail(kind="oracle", function="collect_inputs_for_node / graph-node executor (defaults inside inner graphs)",
                 what=f"mutable signature default shared between the inner consumers at nesting depth {depth}: flat {ref['values']}, nested {out['values']}, nested again {again['values']}", runner=runner_name, replay=rep)
    if set(g.inputs.required) != set(flat.inputs.required) or set(g.inputs.optional) != set(flat.inputs.optional):
        res.fail(kind="oracle", function="compute_input_spec", what=f"input spec differs at depth {depth}: flat {flat.inputs.required}/{flat.inputs.optional}, nested {g.inputs.required}/{g.inputs.optional}", runner=runner_name, replay=rep)


def check_sibling_wrappers(depth, res, runner_name):
    """Several nodes DERIVED from one wrapper of a graph (renamed differently, one with a parallel input swap), used side by side:
    each must behave like its own inlined copy of the inner nodes - a derivation of one sibling must not reach another."""
    from hypergraph import Graph, node
    from harness.core import run_sync, run_async, set_case
    set_case("C05", {"sibling_wrappers": depth}, runner_name)
    run = run_sync if runner_name == "sync" else run_async

    def mk_sub(out):
        @node(output_name=out)
        def sub(a, k):
            return a - k
        return sub

    inner = Graph([mk_sub("d")], name="stage")
    for d in range(depth):
        inner = Graph([inner.as_node()], name=f"stage_w{d}")
    base = inner.as_node()
    fwd = base.with_name("fwd").with_outputs(d="d_fwd")
    rev = base.with_name("rev").with_inputs(a="k", k="a").with_outputs(d="d_rev")
    again = base.with_name("plain").with_outputs(d="d_plain")   # derived AFTER the swap of its sibling
    nested = Graph([fwd, rev, again])
    out = run(nested, {"a": 10, "k": 3})
    want = {"d_fwd": 7, "d_rev": -7, "d_plain": 7}
    res.case(repr(("sibling_wrappers", depth, runner_name)), nontrivial=True, sample={"depth": depth, "runner": runner_name, "nested": out})
    rep = {"harness": "C05", "spec": {"sibling_wrappers": depth}, "runner": runner_name}
    if out["status"] != "completed" or {k: out["values"].get(k) for k in want} != {k: repr(v) for k, v in want.items()} and {k: out["values"].get(k) for k in want} != want:
        res.fail(kind="oracle", function="GraphNode derivations (rename history of sibling wrappers)", runner=runner_name, replay=rep,
                 what=f"three wrappers derived from one (fwd, rev with swapped inputs, plain) at depth {depth}: got {out['status']} {out['values']}, the inlined nodes give {want}")


def run(tier, seed, functions):
    n = 200 if tier == "quick" else 3000
    res = Result("C05", "random DAGs (<=4 nodes) x dependency-closed groups wrapped as a nested graph node (depth 1..2) x inner/outer bindings x wrapper rename histories "
                 "(round trips, double swaps, name re-use, real renames; wrapper optionally used before being renamed); oracle = flat graph run + independent evaluator + input-spec equality",
                 {"programs": n, "max_nodes": 4, "depth": "1..2"})
    rng = random.Random(seed * 2713 + 5)
    for _ in range(n):
        spec = nest.gen_spec(rng)
        check_spec(spec, res, "sync")
        check_spec(spec, res, "async")
    for depth in (1, 2, 3):
        for r in ("sync", "async"):
            check_shared_default(depth, res, r)
            check_sibling_wrappers(depth - 1, res, r)
    return res


def replay(rep):
    res = Result("C05", "", {})
    if "shared_default" in rep["spec"]:
        check_shared_default(rep["spec"]["shared_default"], res, rep["runner"])
    elif "sibling_wrappers" in rep["spec"]:
        check_sibling_wrappers(rep["spec"]["sibling_wrappers"], res, rep["runner"])
    else:
        check_spec(rep["spec"], res, rep["runner"])
    return [f["what"] for f in res.failures]
