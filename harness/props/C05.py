"""C05 bounded stand-in: a nested graph behaves exactly like its nodes inlined (values and input spec)."""
import random

from harness import dag, nest
from harness.core import Result, run_async, run_sync, set_case


def check_spec(spec, res, runner_name):
    set_case("C05", spec, runner_name)
    run = run_sync if runner_name == "sync" else run_async
    rm = spec["real_map"]
    try:
        gf, logf = nest.build_flat(spec)
        gn, logn = nest.build_nested(spec)
    except Exception as e:  # noqa: BLE001
        res.case(repr(spec))
        res.fail(kind="oracle", function="Graph()/as_node()/with_inputs()", what=f"valid nested program rejected: {type(e).__name__}: {str(e)[:300]}", replay={"harness": "C05", "spec": spec, "runner": runner_name})
        return
    res.case(repr((spec, runner_name)), nontrivial=len(spec["group"]) >= 1 and (bool(spec["inner_bind"]) or spec["history"] != "none" or len(spec["base"]["nodes"]) > 1),
             sample={"spec": spec, "runner": runner_name})
    problems = []
    # input spec: same required / optional names (modulo the declared real rename of wrapper-only inputs)
    fr, fo = set(gf.inputs.required), set(gf.inputs.optional)
    nr = {k for k in gn.inputs.required}
    no = {k for k in gn.inputs.optional}
    fr_m, fo_m = {rm.get(k, k) for k in fr}, {rm.get(k, k) for k in fo}
    if nr != fr_m or no != fo_m:
        problems.append(f"input spec differs: flat required={sorted(fr_m)} optional={sorted(fo_m)}; nested required={sorted(nr)} optional={sorted(no)}")
    prov_f = spec["provided"]
    prov_n = {rm.get(k, k): v for k, v in prov_f.items()}
    of = run(gf, prov_f)
    on = run(gn, prov_n)
    if of["status"] != "completed":
        problems.append(f"flat run: {of}")
    elif on["status"] != "completed" or on["values"] != of["values"]:
        problems.append(f"nested run {on} differs from flat run {of}")
    else:
        expected, _ = dag.evaluate(nest.effective_flat(spec))
        exp = {k: repr(v) for k, v in sorted(expected.items())}
        if of["values"] != exp:
            problems.append(f"flat values {of['values']} != dependency-order evaluation {exp}")
    for pb in problems:
        res.fail(kind="oracle", function="GraphNode / input_spec / graph-node executor", what=pb, runner=runner_name, replay={"harness": "C05", "spec": spec, "runner": runner_name})


def run(tier, seed, functions):
    n = 200 if tier == "quick" else 3000
    res = Result("C05", "random DAGs (<=4 nodes) x dependency-closed groups wrapped as a nested graph node (depth 1..2) x inner/outer bindings x wrapper rename histories "
                 "(round trips, double swaps, name re-use, real renames; wrapper optionally used before being renamed); oracle = flat graph run + independent evaluator + input-spec equality",
                 {"programs": n, "max_nodes": 4, "depth": "1..2"})
    rng = random.Random(seed * 2713 + 5)
    for _ in range(n):
        spec = nest.gen_spec(rng)
        check_spec(spec, res, "sync")
        check_spec(spec, res, "async")
    return res


def replay(rep):
    res = Result("C05", "", {})
    check_spec(rep["spec"], res, rep["runner"])
    return [f["what"] for f in res.failures]
