"""C03 bounded stand-in: gated programs - exactly the selected branches execute, only their outputs appear."""
import random

from harness import flow
from harness.core import set_case, Result, run_async, run_sync


def check_spec(spec, res, runner_name):
    set_case("C03", spec, runner_name)
    run = run_sync if runner_name == "sync" else run_async
    try:
        g, log = flow.build_gated(spec)
    except Exception as e:  # noqa: BLE001
        res.case(repr(spec))
        res.fail(kind="oracle", function="Graph()", what=f"valid gated program rejected: {type(e).__name__}: {str(e)[:200]}", replay={"harness": "C03", "spec": spec, "runner": runner_name})
        return
    out = run(g, {"x": spec["x"]})
    selected = flow.expect_gated(spec)
    res.case(repr((spec, runner_name)), nontrivial=True, sample={"spec": spec, "runner": runner_name, "outcome": out})
    problems = []
    if out["status"] != "completed":
        problems.append(f"status {out['status']} {out['error']}")
    else:
        for b in spec["branches"]:
            ran = log.count(b)
            if b in selected and ran != 1:
                problems.append(f"selected branch {b} ran {ran} times")
            if b not in selected and ran != 0:
                problems.append(f"branch {b} was not selected by any controlling gate but ran {ran} times")
            has_out = f"out_{b}" in out["values"]
            if has_out != (b in selected):
                problems.append(f"output out_{b} present={has_out} but selected={b in selected}")
        if log.count("gate") != 1:
            problems.append(f"gate ran {log.count('gate')} times")
    for pb in problems:
        res.fail(kind="oracle", function="runner.run (gated program)", what=pb, runner=runner_name, replay={"harness": "C03", "spec": spec, "runner": runner_name})


def check_machine(spec, res, runner_name):
    set_case("C03", spec, runner_name)
    run = run_sync if runner_name == "sync" else run_async
    try:
        g, log = flow.build_machine(spec)
    except Exception as e:  # noqa: BLE001 - random tables can describe graphs hypergraph legitimately rejects
        return
    out = run(g, {"phase": spec["phases"][0], "sev": 1}, max_iterations=40)
    res.case(repr((spec, runner_name)), nontrivial=len(log.decisions) > 1, sample=None)
    if out["status"] != "completed":
        return  # e.g. InfiniteLoopError on a table that never reaches 'done' through an open path: not what this oracle judges
    for pb in flow.gate_trace_violations(g, log):
        res.fail(kind="oracle", function="get_ready_nodes/_get_activated_nodes", what=pb, runner=runner_name, replay={"harness": "C03", "spec": spec, "runner": runner_name})


def run(tier, seed, functions):
    n = 150 if tier == "quick" else 3000
    res = Result("C03", "random gated DAG programs: ifelse / single-target route / multi-target route, END / None / fallback decisions, open and closed-by-default gates, "
                 "a second gate sharing a target, shuffled node order, both runners; the gate is runnable no later than its targets; distinct by (spec, runner)",
                 {"programs": n, "branches": "2..3", "runners": ["sync", "async"]})
    rng = random.Random(seed * 104729 + 3)
    for _ in range(n):
        spec = flow.gen_gated(rng)
        check_spec(spec, res, "sync")
        check_spec(spec, res, "async")
    for _ in range(n):
        spec = flow.gen_machine(rng)
        check_machine(spec, res, "sync")
        check_machine(spec, res, "async")
    return res


def replay(rep):
    from harness.monitor import Monitors
    mon = Monitors(only={rep["monitor"]}).arm() if rep.get("monitor") else None
    res = Result("C03", "", {})
    (check_machine if rep["spec"].get("family") == "machine" else check_spec)(rep["spec"], res, rep["runner"])
    if mon:
        mon.disarm()
        return [f["what"] for f in mon.failures]
    return [f["what"] for f in res.failures]
