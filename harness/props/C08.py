"""C08 bounded stand-in: the reported input spec is exact; violations are rejected before anything executes."""
import random

from hypergraph import Graph, MissingInputError, SyncRunner
from hypergraph.events import EventProcessor

from harness import dag, flow, nest
from harness.core import Log, Result, run_async, run_sync, set_case


class Recorder(EventProcessor):
    def __init__(self):
        self.events = []
        self.shutdowns = 0

    def on_event(self, event):
        self.events.append(type(event).__name__)

    def shutdown(self):
        self.shutdowns += 1


def configs(g, rng):
    """Derived configurations of a graph: binding, selection, entry point."""
    out = [("plain", g, {})]
    ins = list(g.inputs.required) + list(g.inputs.optional)
    if ins:
        k = rng.choice(ins)
        try:
            out.append((f"bind({k})", g.bind(**{k: 4}), {}))
        except Exception:  # noqa: BLE001
            pass
    if g.outputs:
        o = rng.choice(list(g.outputs))
        try:
            out.append((f"select({o})", g.select(o), {}))
        except Exception:  # noqa: BLE001
            pass
        out.append((f"run-time select {o}", g, {"select": o}))
    n = rng.choice(sorted(g.nodes))
    try:
        out.append((f"with_entrypoint({n})", g.with_entrypoint(n), {}))
    except Exception:  # noqa: BLE001
        pass
    return out


def effective_inputs(g, run_kw):
    """Input spec that applies to this call (a run-time select narrows it): computed by the library itself for the
    equivalent graph-level selection - the property says run-time select overrides the graph default."""
    if "select" in run_kw:
        try:
            return g.select(run_kw["select"]).inputs
        except Exception:  # noqa: BLE001
            return g.inputs
    return g.inputs


def check_graph(label, g, log, base_values, res, rep, runner_name, rng):
    run = run_sync if runner_name == "sync" else run_async
    for cname, gc, kw in configs(g, rng):
        ins = effective_inputs(gc, kw)
        req, opt = list(ins.required), list(ins.optional)
        entry = {k: list(v) for k, v in ins.entrypoints.items()}
        entry_params = {p for v in entry.values() for p in v}
        res.case(repr((label, cname, runner_name, rep["spec"].get("order_seed"), repr(rep["spec"])[:200])), nontrivial=bool(req), sample={"program": label, "config": cname, "required": req, "optional": opt, "entrypoints": entry})
        problems = []
        if set(req) & set(opt) or set(req) & entry_params or set(opt) & entry_params:
            problems.append(f"{cname}: required {req}, optional {opt}, entry-point params {sorted(entry_params)} are not disjoint")
        if set(req) & set(ins.bound):
            problems.append(f"{cname}: bound names {sorted(set(req) & set(ins.bound))} are still reported as required")
        supplied = {k: base_values.get(k, 1) for k in req}
        if entry:
            first = sorted(entry)[0]
            supplied.update({p: base_values.get(p, 0) for p in entry[first]})
        log.clear()
        rec = Recorder()
        out = run(gc, supplied, event_processors=[rec], max_iterations=50, **kw)
        if out["status"] == "raised" and "MissingInputError" in (out["error"] or ""):
            problems.append(f"{cname}: all required inputs {sorted(supplied)} supplied but the run was rejected: {out['error']}")
        for miss in req:
            part = {k: v for k, v in supplied.items() if k != miss}
            log.clear()
            rec = Recorder()
            out = run(gc, part, event_processors=[rec], max_iterations=50, **kw)
            if not (out["status"] == "raised" and "MissingInputError" in (out["error"] or "")):
                problems.append(f"{cname}: required input '{miss}' omitted but the call was accepted: {out['status']} {out['error']}")
            elif log.calls or rec.events or rec.shutdowns:
                problems.append(f"{cname}: rejected call (missing '{miss}') still invoked node functions {log.calls[:2]} / processor events {rec.events[:3]} / shutdowns {rec.shutdowns}")
        # bind removes from required, unbind restores
        for k in req[:2]:
            try:
                gb = gc.bind(**{k: 3})
            except Exception:  # noqa: BLE001
                continue
            if k in effective_inputs(gb, kw).required:
                problems.append(f"{cname}: after bind({k}) the name is still required")
            gu = gb.unbind(k)
            if k not in effective_inputs(gu, kw).required:
                problems.append(f"{cname}: after unbind({k}) the name is not required again")
            # ... and the runner agrees (derived graphs are validated against their own spec, whatever ran before)
            part = {kk: v for kk, v in supplied.items() if kk != k}
            ob = run(gb, part, max_iterations=50, **kw)
            if ob["status"] == "raised" and "MissingInputError" in (ob["error"] or ""):
                problems.append(f"{cname}: after bind({k}) a run without '{k}' was rejected: {ob['error']}")
            ou = run(gu, part, max_iterations=50, **kw)
            if not (ou["status"] == "raised" and "MissingInputError" in (ou["error"] or "")):
                problems.append(f"{cname}: after bind({k}).unbind({k}) a run without '{k}' was accepted: {ou['status']}")
        for pb in problems:
            res.fail(kind="oracle", function="compute_input_spec / validate_inputs / run template", what=f"[{label}] {pb}", runner=runner_name, replay=rep)


def check_spec(spec, res, runner_name):
    set_case("C08", spec, runner_name)
    rng = random.Random(hash(repr(spec)) & 0xFFFF)
    fam = spec["family"]
    rep = {"harness": "C08", "spec": spec, "runner": runner_name}
    try:
        if fam == "dag":
            g, log = dag.build(spec)
            vals = dict(spec["provided"])
        elif fam == "nest":
            g, log = nest.build_nested(spec)
            vals = {spec["real_map"].get(k, k): v for k, v in spec["provided"].items()}
        elif fam == "gated":
            g, log = flow.build_gated(spec)
            vals = {"x": spec["x"]}
        else:
            g, log = flow.build_loop(spec)
            vals = {"c0": spec["start"]}
    except Exception as e:  # noqa: BLE001
        res.fail(kind="oracle", function="Graph()", what=f"valid program rejected: {type(e).__name__}: {str(e)[:200]}", runner=runner_name, replay=rep)
        return
    check_graph(fam, g, log, vals, res, rep, runner_name, rng)


def run(tier, seed, functions):
    n = 60 if tier == "quick" else 1200
    res = Result("C08", "graphs from the dag / nest / gated / loop families x configurations (plain, bind, select, run-time select, with_entrypoint) x each single omitted required input; "
                 "oracle = accepted with all required (+ one entry point) supplied; MissingInputError with empty call log and silent processor on every omission; disjointness; bind/unbind",
                 {"programs": 4 * n})
    rng = random.Random(seed * 911 + 8)
    for _ in range(n):
        for gen in (dag.gen_spec, nest.gen_spec, flow.gen_gated, flow.gen_loop):
            spec = gen(rng)
            if spec["family"] == "dag":
                for nd in spec["nodes"]:
                    nd["rename_mode"] = None
            check_spec(spec, res, "sync")
            check_spec(spec, res, "async")
    # systematic part (independent of the dice above): every wrapper rename history x an inner binding of a wrapper-only input
    rng2 = random.Random(seed * 131 + 5)
    for _ in range(n // 6):
        base = nest.gen_spec(rng2)
        for h in ("none", "roundtrip", "swap_twice", "reuse", "real"):
            v = nest.force(base, h, rng2)
            check_spec(v, res, "sync")
    return res


def replay(rep):
    res = Result("C08", "", {})
    check_spec(rep["spec"], res, rep["runner"])
    return [f["what"] for f in res.failures]
