"""C08 bounded stand-in: the reported input spec is exact; violations are rejected before anything executes."""
import random

from hypergraph import Graph, MissingInputError, SyncRunner
from hypergraph.events import EventProcessor

from harness import dag, flow, nest
from harness.core import Log, Result, run_async, run_sync, set_case


class Recorder(EventProcessor):
    def __init__(self):
        self.events = []
        self.shutdowns = 0

    def on_event(self, event):
        self.events.append(type(event).__name__)

    def shutdown(self):
        self.shutdowns += 1


def configs(g, rng):
    """Derived configurations of a graph: binding, selection, entry point."""
    out = [("plain", g, {})]
    ins = list(g.inputs.required) + list(g.inputs.optional)
    if ins:
        k = rng.choice(ins)
        try:
            out.append((f"bind({k})", g.bind(**{k: 4}), {}))
        except Exception:  # noqa: BLE001
            pass
    if g.outputs:
        o = rng.choice(list(g.outputs))
        try:
            out.append((f"select({o})", g.select(o), {}))
        except Exception:  # noqa: BLE001
            pass
        out.append((f"run-time select {o}", g, {"select": o}))
    n = rng.choice(sorted(g.nodes))
    try:
        out.append((f"with_entrypoint({n})", g.with_entrypoint(n), {}))
    except Exception:  # noqa: BLE001
        pass
    return out


def effective_inputs(g, run_kw):
    """Input spec that applies to this call (a run-time select narrows it): computed by the library itself for the
    equivalent graph-level selection - the property says run-time select overrides the graph default."""
    if "select" in run_kw:
        try:
            return g.select(run_kw["select"]).inputs
        except Exception:  # noqa: BLE001
            return g.inputs
    return g.inputs


def check_graph(label, g, log, base_values, res, rep, runner_name, rng):
    run = run_sync if runner_name == "sync" else run_async
    for cname, gc, kw in configs(g, rng):
        ins = effective_inputs(gc, kw)
        req, opt = list(ins.required), list(ins.optional)
        entry = {k: list(v) for k, v in ins.entrypoints.items()}
        entry_params = {p for v in entry.values() for p in v}
        res.case(repr((label, cname, runner_name, rep["spec"].get("order_seed"), repr(rep["spec"])[:200])), nontrivial=bool(req), sample={"program": label, "config": cname, "required": req, "optional": opt, "entrypoints": entry})
        problems = []
        if set(req) & set(opt) or set(req) & entry_params or set(opt) & entry_params:
            problems.append(f"{cname}: required {req}, optional {opt}, entry-point params {sorted(entry_params)} are not disjoint")
        if set(req) & set(ins.bound):
            problems.append(f"{cname}: bound names {sorted(set(req) & set(ins.bound))} are still reported as required")
        supplied = {k: base_values.get(k, 1) for k in req}
        if entry:
            first = sorted(entry)[0]
            supplied.update({p: base_values.get(p, 0) for p in entry[first]})
        log.clear()
        rec = Recorder()
        out = run(gc, supplied, event_processors=[rec], max_iterations=50, **kw)
        if out["status"] == "raised" and "MissingInputError" in (out["error"] or ""):
            problems.append(f"{cname}: all required inputs {sorted(supplied)} supplied but the run was rejected: {out['error']}")
        for miss in req:
            part = {k: v for k, v in supplied.items() if k != miss}
            log.clear()
            rec = Recorder()
            out = run(gc, part, event_processors=[rec], max_iterations=50, **kw)
            if not (out["status"] == "raised" and "MissingInputError" in (out["error"] or "")):
                problems.append(f"{cname}: required input '{miss}' omitted but the call was accepted: {out['status']} {out['error']}")
            elif log.calls or rec.events or rec.shutdowns:
                problems.append(f"{cname}: rejected call (missing '{miss}') still invoked node functions {log.calls[:2]} / processor events {rec.events[:3]} / shutdowns {rec.shutdowns}")
        # bind removes from required, unbind restores
        for k in req[:2]:
            try:
                gb = gc.bind(**{k: 3})
            except Exception:  # noqa: BLE001
                continue
            if k in effective_inputs(gb, kw).required:
                problems.append(f"{cname}: after bind({k}) the name is still required")
            gu = gb.unbind(k)
            if k not in effective_inputs(gu, kw).required:
                problems.append(f"{cname}: after unbind({k}) the name is not required again")
            # ... and the runner agrees (derived graphs are validated against their own spec, whatever ran before)
            part = {kk: v for kk, v in supplied.items() if kk != k}
            ob = run(gb, part, max_iterations=50, **kw)
            if ob["status"] == "raised" and "MissingInputError" in (ob["error"] or ""):
                problems.append(f"{cname}: after bind({k}) a run without '{k}' was rejected: {ob['error']}")
            ou = run(gu, part, max_iterations=50, **kw)
            if not (ou["status"] == "raised" and "MissingInputError" in (ou["error"] or "")):
                problems.append(f"{cname}: after bind({k}).unbind({k}) a run without '{k}' was accepted: {ou['status']}")
        for pb in problems:
            res.fail(kind="oracle", function="compute_input_spec / validate_inputs / run template", what=f"[{label}] {pb}", runner=runner_name, replay=rep)


def check_spec(spec, res, runner_name):
    set_case("C08", spec, runner_name)
    rng = random.Random(hash(repr(spec)) & 0xFFFF)
    fam = spec["family"]
    rep = {"harness": "C08", "spec": spec, "runner": runner_name}
    try:
        if fam == "dag":
            g, log = dag.build(spec)
            vals = dict(spec["provided"])
        elif fam == "nest":
            g, log = nest.build_nested(spec)
            vals = {spec["real_map"].get(k, k): v for k, v in spec["provided"].items()}
        elif fam == "gated":
            g, log = flow.build_gated(spec)
            vals = {"x": spec["x"]}
        else:
            g, log = flow.build_loop(spec)
            vals = {"c0": spec["start"]}
    except Exception as e:  # noqa: BLE001
        res.fail(kind="oracle", function="Graph()", what=f"valid program rejected: {type(e).__name__}: {str(e)[:200]}", runner=runner_name, replay=rep)
        return
    check_graph(fam, g, log, vals, res, rep, runner_name, rng)


def _attempt(run, g, values, log, **kw):
    log.clear()
    rec = Recorder()
    out = run(g, values, event_processors=[rec], max_iterations=40, **kw)
    return out, list(log.calls), list(rec.events)


def fixed_cases(res, runner_name):
    """Deterministic programs for two interactions the generated families do not contain: (a) a selected output that sits behind
    an ORDERING-only dependency (emit / wait_for): the selection's input spec must still name what the signal's producer needs;
    (b) two independent data cycles whose gates also list a node of the OTHER cycle as a target: every cycle needs its own
    entry value, and one listed entry point per cycle is enough."""
    from hypergraph import END, node, route
    run = run_sync if runner_name == "sync" else run_async
    log = Log()

    # ---- (a) selection behind an ordering edge, the waiter declared before / after the producer
    @node(output_name="report", emit="audit_done")
    def audit(ledger: int) -> int:
        log.calls.append(("audit", {"ledger": ledger}))
        return ledger + 1

    @node(output_name="payout", wait_for="audit_done")
    def pay(amount: int) -> int:
        log.calls.append(("pay", {"amount": amount}))
        return amount * 2

    @node(output_name="other")
    def misc(z: int) -> int:
        log.calls.append(("misc", {"z": z}))
        return z

    for order_name, order in (("producer-first", [audit, pay, misc]), ("waiter-first", [pay, misc, audit])):
        g = Graph(order)
        for cname, gc, kw in ((f"select(payout) {order_name}", g.select("payout"), {}), (f"run-time select payout {order_name}", g, {"select": "payout"})):
            set_case("C08", {"fixed": "ordering-select", "config": cname}, runner_name)
            rep = {"harness": "C08", "spec": {"fixed": "ordering-select"}, "runner": runner_name, "part": "fixed"}
            req = list(effective_inputs(gc, kw).required)
            res.case(repr(("ordering-select", cname, runner_name)), nontrivial=True, sample={"config": cname, "required": req})
            full = {"ledger": 3, "amount": 5}
            out, calls, events = _attempt(run, gc, {k: full.get(k, 1) for k in req}, log, **kw)
            if out["status"] != "completed" or "payout" not in (out["values"] or {}):
                res.fail(kind="oracle", function="compute_input_spec / _compute_active_scope", runner=runner_name, replay=rep,
                         what=f"[{cname}] reported required inputs {req} supplied, but the selected output is not produced: {out['status']} {out['error']} values={out['values']}")
            for miss in ("ledger", "amount"):
                part = {k: v for k, v in full.items() if k != miss}
                out, calls, events = _attempt(run, gc, part, log, **kw)
                if not (out["status"] == "raised" and "MissingInputError" in (out["error"] or "")):
                    res.fail(kind="oracle", function="compute_input_spec / validate_inputs", runner=runner_name, replay=rep,
                             what=f"[{cname}] input '{miss}' (needed to produce the selected output through an ordering signal) omitted but the call was accepted: {out['status']} {out['error']}")
                elif calls or events:
                    res.fail(kind="oracle", function="run template", runner=runner_name, replay=rep, what=f"[{cname}] rejected call still ran {calls[:2]} / delivered {events[:2]}")

    # ---- (b) two data cycles, hand-over targets across the cycles in the gates' target lists (never taken)
    for cross in ("both", "first", "none"):
        def mk(name, out, inp):
            def f(**kw):
                log.calls.append((name, dict(kw)))
                return kw[inp] + 1
            f.__name__ = name
            import inspect
            f.__signature__ = inspect.Signature([inspect.Parameter(inp, inspect.Parameter.POSITIONAL_OR_KEYWORD, annotation=int)])
            return node(output_name=out)(f)
        node_a, node_b, node_x, node_y = mk("node_a", "a", "b"), mk("node_b", "b", "a"), mk("node_x", "x", "y"), mk("node_y", "y", "x")

        @route(targets=["node_a", END] + (["node_x"] if cross in ("both", "first") else []))
        def gate_ab(a: int) -> str:
            log.calls.append(("gate_ab", {"a": a}))
            return END if a > 3 else "node_a"

        @route(targets=["node_x", END] + (["node_a"] if cross == "both" else []))
        def gate_xy(x: int) -> str:
            log.calls.append(("gate_xy", {"x": x}))
            return END if x > 3 else "node_x"

        set_case("C08", {"fixed": "two-cycles", "cross": cross}, runner_name)
        rep = {"harness": "C08", "spec": {"fixed": "two-cycles", "cross": cross}, "runner": runner_name, "part": "fixed"}
        try:
            g = Graph([node_a, node_b, gate_ab, node_x, node_y, gate_xy])
        except Exception as e:  # noqa: BLE001
            res.fail(kind="oracle", function="Graph()", what=f"two-cycle program rejected: {type(e).__name__}: {str(e)[:160]}", runner=runner_name, replay=rep)
            continue
        spec = g.inputs
        res.case(repr(("two-cycles", cross, runner_name)), nontrivial=True, sample={"cross": cross, "entrypoints": {k: list(v) for k, v in spec.entrypoints.items()}})
        for values in ({"b": 1}, {"a": 1}, {"y": 1}, {"x": 1}):
            out, calls, events = _attempt(run, g, values, log)
            if not (out["status"] == "raised" and "MissingInputError" in (out["error"] or "")):
                res.fail(kind="oracle", function="_validate_cycle_entry / _group_entrypoints_by_scc", runner=runner_name, replay=rep,
                         what=f"[two cycles, cross targets: {cross}] only one cycle seeded ({values}) but the call was accepted: {out['status']} {out['error']}")
            elif calls or events:
                res.fail(kind="oracle", function="run template", runner=runner_name, replay=rep, what=f"[two cycles] rejected call still ran {calls[:2]} / delivered {events[:2]}")
        for values in ({"b": 1, "y": 1}, {"a": 1, "x": 1}, {"b": 1, "x": 1}):
            out, calls, events = _attempt(run, g, values, log)
            if out["status"] != "completed":
                res.fail(kind="oracle", function="_validate_cycle_entry / _group_entrypoints_by_scc", runner=runner_name, replay=rep,
                         what=f"[two cycles, cross targets: {cross}] one listed entry point per cycle supplied ({values}) but the run was not accepted: {out['status']} {out['error']}")


def run(tier, seed, functions):
    n = 60 if tier == "quick" else 1200
    res = Result("C08", "graphs from the dag / nest / gated / loop families x configurations (plain, bind, select, run-time select, with_entrypoint) x each single omitted required input; "
                 "oracle = accepted with all required (+ one entry point) supplied; MissingInputError with empty call log and silent processor on every omission; disjointness; bind/unbind",
                 {"programs": 4 * n})
    rng = random.Random(seed * 911 + 8)
    for _ in range(n):
        for gen in (dag.gen_spec, nest.gen_spec, flow.gen_gated, flow.gen_loop):
            spec = gen(rng)
            if spec["family"] == "dag":
                for nd in spec["nodes"]:
                    nd["rename_mode"] = None
            check_spec(spec, res, "sync")
            check_spec(spec, res, "async")
    # systematic part (independent of the dice above): every wrapper rename history x an inner binding of a wrapper-only input
    rng2 = random.Random(seed * 131 + 5)
    for _ in range(n // 6):
        base = nest.gen_spec(rng2)
        for h in ("none", "roundtrip", "swap_twice", "reuse", "real"):
            v = nest.force(base, h, rng2)
            check_spec(v, res, "sync")
    fixed_cases(res, "sync")
    fixed_cases(res, "async")
    return res


def replay(rep):
    res = Result("C08", "", {})
    if rep.get("part") == "fixed":
        fixed_cases(res, rep["runner"])
        return [f["what"] for f in res.failures]
    check_spec(rep["spec"], res, rep["runner"])
    return [f["what"] for f in res.failures]
