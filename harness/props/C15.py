"""C15 bounded stand-in: max_concurrency bounds all node function executions globally and never deadlocks."""
import asyncio
import random
import warnings

from hypergraph import AsyncRunner, FunctionNode, Graph

from harness.core import Result, make_function, outcome, set_case


class Meter:
    def __init__(self):
        self.inflight = 0
        self.peak = 0
        self.calls = 0

    async def body(self, name, x):
        self.inflight += 1
        self.calls += 1
        self.peak = max(self.peak, self.inflight)
        # stay open across several scheduler turns (every admitted body overlaps with the others); items with a smaller
        # input value stay open longer, so later map items complete before earlier ones
        for _ in range(4 + 3 * (3 - (x % 4 if isinstance(x, int) else 0))):
            await asyncio.sleep(0)
        self.inflight -= 1
        return (name, x)


def wide_graph(meter, width, prefix, name):
    nodes = []
    for w in range(width):
        n = f"{prefix}w{w}"
        f = make_function(n, ["x"], {}, [f"return await _M.body({n!r}, x)"], {"_M": meter}, is_async=True)
        nodes.append(FunctionNode(f, name=n, output_name=f"{n}_out"))
    return Graph(nodes, name=name)


def build(spec, meter):
    shape = spec["shape"]
    if shape == "flat":
        return wide_graph(meter, spec["width"], "", "flat"), {"x": 1}, None
    if shape == "nested":
        inners = [wide_graph(meter, spec["width"], f"g{j}_", f"inner{j}").as_node() for j in range(spec["fan"])]
        g = Graph(inners, name="outer")
        for d in range(spec["depth"] - 1):
            g = Graph([g.as_node()], name=f"deep{d}")
        return g, {"x": 1}, None
    if shape == "mapped_node":
        inner = wide_graph(meter, spec["width"], "m_", "inner")
        gn = inner.as_node().map_over("x")
        return Graph([gn], name="outer"), {"x": list(range(spec["fan"]))}, None
    if shape == "runner_map":
        return wide_graph(meter, spec["width"], "", "item"), {"x": list(range(spec["fan"]))}, "x"
    raise ValueError(shape)


async def go(g, values, map_over, k):
    runner = AsyncRunner()
    kw = {} if k is None else {"max_concurrency": k}
    if map_over:
        return await asyncio.wait_for(runner.map(g, values, map_over=map_over, **kw), timeout=20)
    return await asyncio.wait_for(runner.run(g, values, **kw), timeout=20)


def check_spec(spec, res):
    set_case("C15", spec, "async")
    rep = {"harness": "C15", "spec": spec, "runner": "async"}
    res.case(repr(spec), nontrivial=spec["width"] * spec.get("fan", 1) > spec["k"], sample={"spec": spec})
    with warnings.catch_warnings():
        warnings.simplefilter("ignore")
        m0 = Meter()
        g0, v0, mo = build(spec, m0)
        ref = asyncio.run(go(g0, v0, mo, None))
        m = Meter()
        g, v, mo = build(spec, m)
        try:
            out = asyncio.run(go(g, v, mo, spec["k"]))
        except asyncio.TimeoutError:
            res.fail(kind="oracle", function="concurrency limiter", what=f"run with max_concurrency={spec['k']} did not terminate (deadlock/starvation) for {spec}", replay=rep)
            return
    norm = lambda r: [outcome(x) for x in r] if isinstance(r, list) else outcome(r)
    if m.peak > spec["k"]:
        res.fail(kind="oracle", function="concurrency limiter", what=f"{m.peak} node functions were executing at once with max_concurrency={spec['k']} ({spec})", replay=rep)
    if norm(out) != norm(ref) or m.calls != m0.calls:
        res.fail(kind="oracle", function="concurrency limiter", what=f"result with max_concurrency={spec['k']} differs from the unlimited run ({spec})", replay=rep)


def run(tier, seed, functions):
    res = Result("C15", "wide async graphs (width 1..4) flat / nested (fan 1..3, depth 1..2) / mapping node / runner.map (fan 1..4), k in 1..3, bodies that stay open across several scheduler turns "
                 "(every admitted body overlaps); oracle = peak in-flight <= k, termination within 20 s, result equal to the unlimited run", {"k": "1..3"})
    rng = random.Random(seed * 1013 + 15)
    specs = []
    for k in (1, 2, 3):
        for shape in ("flat", "nested", "mapped_node", "runner_map"):
            for _ in range(3 if tier == "quick" else 25):
                specs.append({"shape": shape, "width": rng.randint(1, 4), "fan": rng.randint(1, 4 if shape != "nested" else 3), "depth": rng.randint(1, 2), "k": k})
    for spec in specs:
        check_spec(spec, res)
    return res


def replay(rep):
    res = Result("C15", "", {})
    check_spec(rep["spec"], res)
    return [f["what"] for f in res.failures]
