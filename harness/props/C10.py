"""C10 bounded stand-in: map yields one aligned result per combination, in input order, equal to single runs."""
import asyncio
import itertools
import random

from hypergraph import AsyncRunner, FunctionNode, Graph, SyncRunner, ifelse

from harness.core import Log, NodeFailure, Result, make_function, outcome, run_async, run_sync, set_case


def item_graph(log, is_async, fail_on, branchy=False):
    """f(a, b, c) -> r ; fails when a == fail_on ; async variant finishes LATER for smaller a (reversed completion order)."""
    body = ["_LOG.calls.append(('f', {'a': a, 'b': b, 'c': c}))"]
    if is_async:
        body.append("for _k in range(max(0, 6 - 2 * (a if isinstance(a, int) else 0))): await _SLEEP(0)")
    body += [f"if a == {fail_on!r}: raise _ERR('f')", "return ('f', a, b, c)"]
    f = make_function("f", ["a", "b", "c"], {}, body, {"_LOG": log, "_ERR": NodeFailure, "_SLEEP": asyncio.sleep}, is_async=is_async)
    nodes = [FunctionNode(f, name="f", output_name="r")]
    if branchy:
        # items take different branches: even a -> 'pos' output only, odd a -> 'neg' output only
        from harness.flow import gate_node
        nodes.append(gate_node("g", "ifelse", ["a"], log, lambda args: args["a"] % 2 == 0, when=("p", "n")))
        nodes.append(FunctionNode(make_function("p", ["a"], {}, ["return ('p', a)"], {}), name="p", output_name="pos"))
        nodes.append(FunctionNode(make_function("n", ["a"], {}, ["return ('n', a)"], {}), name="n", output_name="neg"))
    return Graph(nodes, name="item")


def combos(values, map_over, mode):
    mapped = [values[k] for k in map_over]
    if mode == "zip":
        if len({len(m) for m in mapped}) > 1:
            return None
        rows = list(zip(*mapped))
    else:
        rows = list(itertools.product(*mapped))
    out = []
    for row in rows:
        d = {k: v for k, v in values.items() if k not in map_over}
        d.update(dict(zip(map_over, row)))
        out.append(d)
    return out


def check_runner_map(case, res, runner_name):
    set_case("C10", case, runner_name)
    is_async = runner_name == "async"
    log = Log()
    g = item_graph(log, is_async, case["fail_on"])
    values = dict(case["values"])
    exp = combos(values, case["map_over"], case["mode"])
    kw = {"map_over": case["map_over"], "map_mode": case["mode"], "error_handling": case["error_handling"]}
    if is_async and case["mc"] is not None:
        kw["max_concurrency"] = case["mc"]
    runner = AsyncRunner() if is_async else SyncRunner()

    def do_map():
        if is_async:
            return asyncio.run(runner.map(g, values, **kw))
        return runner.map(g, values, **kw)

    res.case(repr((case, runner_name)), nontrivial=bool(exp), sample={"case": case, "runner": runner_name})
    rep = {"harness": "C10", "spec": case, "runner": runner_name, "part": "runner_map"}
    try:
        results = do_map()
        got = [outcome(r) for r in results]
        raised = None
    except Exception as e:  # noqa: BLE001
        got, raised = None, f"{type(e).__name__}:{getattr(e, 'who', '')}"
    if exp is None:
        if raised is None or not raised.startswith("ValueError"):
            res.fail(kind="oracle", function="generate_map_inputs", what=f"zip over unequal lengths should raise ValueError, got {raised or got}", runner=runner_name, replay=rep)
        return
    singles = []
    for d in exp:
        gl = item_graph(Log(), is_async, case["fail_on"])
        singles.append((run_async if is_async else run_sync)(gl, d, error_handling="continue"))
    any_fail = any(s["status"] == "failed" for s in singles)
    if case["error_handling"] == "raise" and any_fail:
        first = next(s for s in singles if s["status"] == "failed")
        if raised != first["error"]:
            res.fail(kind="oracle", function="runner.map", what=f"raise mode: expected the first failing item's error {first['error']}, got {raised or got}", runner=runner_name, replay=rep)
        return
    if raised is not None:
        res.fail(kind="oracle", function="runner.map", what=f"map raised {raised} (expected {len(exp)} results)", runner=runner_name, replay=rep)
        return
    if got != singles:
        res.fail(kind="oracle", function="runner.map / generate_map_inputs", what=f"map results {got} differ from the single runs in input order {singles}", runner=runner_name, replay=rep)


def check_mapped_node(case, res, runner_name):
    set_case("C10", case, runner_name)
    is_async = runner_name == "async"
    log = Log()
    inner = item_graph(log, is_async, case["fail_on"], branchy=case.get("branchy", False))
    gn = inner.as_node().map_over(*case["map_over"], mode=case["mode"], error_handling=case["error_handling"])
    if case.get("rename"):
        gn = gn.with_inputs({case["map_over"][0]: "aa"})
    outer = Graph([gn])
    values = dict(case["values"])
    exp = combos(values, case["map_over"], case["mode"])
    run_values = {("aa" if (case.get("rename") and k == case["map_over"][0]) else k): v for k, v in values.items()}
    out = (run_async if is_async else run_sync)(outer, run_values, **({"max_concurrency": case["mc"]} if is_async and case["mc"] else {}))
    res.case(repr((case, runner_name, "node")), nontrivial=bool(exp), sample={"case": case, "runner": runner_name, "outcome": out})
    rep = {"harness": "C10", "spec": case, "runner": runner_name, "part": "mapped_node"}
    if exp is None:
        return
    singles = []
    for d in exp:
        gl = item_graph(Log(), is_async, case["fail_on"], branchy=case.get("branchy", False))
        singles.append((run_async if is_async else run_sync)(gl, d, error_handling="continue"))
    any_fail = any(s["status"] == "failed" for s in singles)
    if case["error_handling"] == "raise" and any_fail:
        first = next(s for s in singles if s["status"] == "failed")
        if out["status"] != "raised" or out["error"] != first["error"]:
            res.fail(kind="oracle", function="graph-node executor (map)", what=f"mapping node raise mode: expected {first['error']}, got {out}", runner=runner_name, replay=rep)
        return
    if out["status"] != "completed":
        res.fail(kind="oracle", function="graph-node executor (map)", what=f"mapping node run: {out}", runner=runner_name, replay=rep)
        return
    for name in inner.outputs:
        want = [None if s["status"] == "failed" else (s["values"] or {}).get(name) for s in singles]
        want_repr = repr([eval(w) if w is not None else None for w in want]) if all(w is None or isinstance(w, str) for w in want) else None
        got = out["values"].get(name)
        if got is None and not exp:
            continue
        if want_repr is not None and got != want_repr:
            res.fail(kind="oracle", function="collect_as_lists", what=f"mapping node output '{name}' = {got}, expected one aligned entry per combination {want_repr}", runner=runner_name, replay=rep)


def gen_case(rng):
    n_map = rng.randint(1, 3)
    params = ["a", "b", "c"]
    map_over = rng.sample(params, n_map)
    mode = rng.choice(["zip", "product"])
    L = rng.randint(0, 3)
    values = {}
    for p in params:
        if p in map_over:
            ln = L if (mode == "zip" and rng.random() < 0.9) else rng.randint(0, 3)
            values[p] = [rng.randint(0, 3) for _ in range(ln)] if p == "a" else [f"{p}{i}" for i in range(ln)]
        else:
            values[p] = rng.choice([0, 1, 2, "s"]) if p != "a" else rng.randint(0, 3)
    # the order of the values mapping is independent of the map_over order
    items = list(values.items())
    rng.shuffle(items)
    return {"map_over": map_over, "mode": mode, "values": dict(items), "fail_on": rng.choice([None, None, 1, 2]), "error_handling": rng.choice(["raise", "continue"]),
            "mc": rng.choice([None, 1, 2, 3]), "branchy": rng.random() < 0.3, "rename": rng.random() < 0.3}


def run(tier, seed, functions):
    n = 150 if tier == "quick" else 3000
    res = Result("C10", "runner.map and mapping graph nodes: 1..3 mapped parameters, zip/product, list lengths 0..3, broadcast values, values-dict order independent of map_over order, "
                 "failing items (raise/continue), items taking different gate branches, renamed mapping node, max_concurrency None/1/2/3 with reversed completion order (async); "
                 "oracle = single runs on each combination in input order", {"cases": n})
    rng = random.Random(seed * 3301 + 10)
    for _ in range(n):
        case = gen_case(rng)
        check_runner_map(case, res, "sync")
        check_runner_map(case, res, "async")
        check_mapped_node(case, res, rng.choice(["sync", "async"]))
    return res


def replay(rep):
    res = Result("C10", "", {})
    (check_runner_map if rep["part"] == "runner_map" else check_mapped_node)(rep["spec"], res, rep["runner"])
    return [f["what"] for f in res.failures]
