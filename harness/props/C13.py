"""C13 bounded stand-in: failing event processors never change a run; other processors still get the complete stream."""
import random

from harness import dag, flow, nest
from harness.core import Log, Result, run_async, run_sync, set_case
from harness.events import AsyncRecorder, Recorder, stream_signature
from harness.props.C12 import build, gen


def check_spec(spec, res, runner_name, mode):
    set_case("C13", {"spec": spec, "mode": mode}, runner_name)
    run = run_sync if runner_name == "sync" else run_async
    fail = tuple(spec.get("fail", ()))
    eh = mode["error_handling"]
    try:
        g0, inputs, _ = build(spec, Log(), fail)
    except Exception:  # noqa: BLE001
        return
    log_ref = Log()
    g_ref, _, _ = build(spec, log_ref, fail)
    ref = run(g_ref, inputs, error_handling=eh, max_iterations=60)
    ref_calls = log_ref.multiset()
    rec0 = Recorder()
    g_rec, _, _ = build(spec, Log(), fail)
    run(g_rec, inputs, error_handling=eh, max_iterations=60, event_processors=[rec0])
    full = stream_signature(rec0.events)
    rep = {"harness": "C13", "spec": {"spec": spec, "mode": mode}, "runner": runner_name}
    points = list(range(len(full))) if mode["exhaustive"] else sorted(set(random.Random(len(full)).sample(range(len(full)), min(4, len(full))))) if full else []
    scenarios = [("index", k) for k in points] + [("all", None), ("shutdown", None)]
    for what, k in scenarios:
        for async_proc in ((False, True) if runner_name == "async" else (False,)):
            for bad_first in (True, False):
                mk = AsyncRecorder if async_proc else Recorder
                bad = mk(fail_at=("all" if what == "all" else k if what == "index" else None), fail_shutdown=(what == "shutdown"))
                good = Recorder()
                procs = [bad, good] if bad_first else [good, bad]
                log = Log()
                g, _, _ = build(spec, log, fail)
                out = run(g, inputs, error_handling=eh, max_iterations=60, event_processors=procs)
                res.case(repr((spec, what, k, async_proc, bad_first, runner_name, eh)), nontrivial=bool(full), sample=None)
                if out != ref:
                    res.fail(kind="oracle", function="EventDispatcher", what=f"processor failing at {what} {k} (async={async_proc}, registered first={bad_first}) changed the run: {out} vs {ref}", runner=runner_name, replay=rep)
                    return
                if log.multiset() != ref_calls:
                    res.fail(kind="oracle", function="EventDispatcher", what=f"processor failing at {what} {k} changed the node invocations", runner=runner_name, replay=rep)
                    return
                # a suspending async processor may legitimately reorder events of concurrently running siblings:
                # completeness is judged on the multiset for the async runner, on the exact sequence for the sync runner
                same = (stream_signature(good.events) == full) if runner_name == "sync" else (sorted(map(repr, stream_signature(good.events))) == sorted(map(repr, full)))
                if not same:
                    res.fail(kind="oracle", function="EventDispatcher", what=f"with a processor failing at {what} {k} (async={async_proc}, registered first={bad_first}) the healthy processor received {len(good.events)} of {len(full)} events", runner=runner_name, replay=rep)
                    return
                if good.shutdowns != 1:
                    res.fail(kind="oracle", function="EventDispatcher.shutdown", what=f"healthy processor shutdown called {good.shutdowns} times (other processor fails at {what})", runner=runner_name, replay=rep)
                    return


def run(tier, seed, functions):
    n = 25 if tier == "quick" else 400
    res = Result("C13", "mixed corpus (as C12) x failure point = every event index (quick: 4 sampled indices per program), every event, or shutdown x sync/async processor x registered before/after a "
                 "healthy processor x raise/continue x both runners; oracle = run without processors (status, values, error, invocation multiset) and the recorded reference stream",
                 {"programs": n})
    rng = random.Random(seed * 7109 + 13)
    for i in range(n):
        spec = gen(rng)
        for r in ("sync", "async"):
            check_spec(spec, res, r, {"error_handling": rng.choice(["raise", "continue"]), "exhaustive": tier != "quick" or i < 3})
    return res


def replay(rep):
    res = Result("C13", "", {})
    check_spec(rep["spec"]["spec"], res, rep["runner"], rep["spec"]["mode"])
    return [f["what"] for f in res.failures]
