"""C06 bounded stand-in: renames only change wiring names (function nodes, gates, nested-graph nodes, map_over/clone lists)."""
import random

from hypergraph import Graph

from harness import dag, flow, nest
from harness.core import Log, Result, run_async, run_sync, set_case, tagged_node
from harness.props import C05


def history_variants(names, rng):
    """Net-identity rename histories over a tuple of names: list of batches (dicts)."""
    names = list(names)
    out = [[]]
    if names:
        a = names[0]
        out.append([{a: "t_1"}, {"t_1": a}])
        out.append([{a: "t_1"}, {"t_1": "t_2"}, {"t_2": a}])
    if len(names) >= 2:
        a, b = names[0], names[1]
        out.append([{a: b, b: a}, {a: b, b: a}])
        out.append([{a: "t_1"}, {b: a}, {a: b}, {"t_1": a}])
        out.append([{a: "t_1", b: "t_2"}, {"t_1": b, "t_2": a}, {a: b, b: a}])
    return rng.choice(out)


def renamed_node(nd, log, rng, prewarm):
    node = tagged_node(nd["name"], nd["params"], nd["outs"], log, nd["defaults"], rename_mode=rng.choice([None, None, "late", "late_swap", "ctor"]))
    if prewarm:
        node.defaults, node.parameter_annotations  # noqa: B018
        Graph([node])
    for batch in history_variants(nd["params"], rng):
        node = node.with_inputs(batch)
    for batch in history_variants(nd["outs"], rng):
        node = node.with_outputs(batch)
    if rng.random() < 0.3:
        node = node.with_name(nd["name"] + "_x").with_name(nd["name"])
    return node


def check_dag_histories(spec, res, runner_name, hseed):
    set_case("C06", dict(spec, hseed=hseed), runner_name)
    run = run_sync if runner_name == "sync" else run_async
    rng = random.Random(hseed)
    log = Log()
    try:
        nodes = [renamed_node(nd, log, rng, prewarm=rng.random() < 0.5) for nd in spec["nodes"]]
        g = Graph([nodes[i] for i in spec["order"]])
        if spec["bind"]:
            g = g.bind(**spec["bind"])
    except Exception as e:  # noqa: BLE001
        res.case(repr((spec, hseed)))
        res.fail(kind="oracle", function="with_inputs/with_outputs/Graph()", what=f"net-identity rename history rejected: {type(e).__name__}: {str(e)[:300]}", runner=runner_name,
                 replay={"harness": "C06", "spec": dict(spec, hseed=hseed), "runner": runner_name, "part": "dag"})
        return
    out = run(g, spec["provided"])
    expected, _ = dag.evaluate(spec)
    exp = {k: repr(v) for k, v in sorted(expected.items())}
    res.case(repr((spec["nodes"], hseed, runner_name)), nontrivial=True, sample={"spec": spec, "hseed": hseed, "runner": runner_name})
    if out["status"] != "completed" or out["values"] != exp:
        res.fail(kind="oracle", function="rename maps (_rename.py/_callable.py/base.py)", what=f"renamed graph gives {out}, expected {exp}", runner=runner_name,
                 replay={"harness": "C06", "spec": dict(spec, hseed=hseed), "runner": runner_name, "part": "dag"})


def check_alpha(spec, res, runner_name):
    """Consistently alpha-rename every value name of the whole graph."""
    set_case("C06", spec, runner_name)
    run = run_sync if runner_name == "sync" else run_async
    m = lambda v: v + "_z"
    log = Log()
    nodes = []
    for nd in spec["nodes"]:
        node = tagged_node(nd["name"], nd["params"], nd["outs"], log, nd["defaults"])
        if nd["params"]:
            node = node.with_inputs({p: m(p) for p in nd["params"]})
        if nd["outs"]:
            node = node.with_outputs({o: m(o) for o in nd["outs"]})
        nodes.append(node)
    try:
        g = Graph([nodes[i] for i in spec["order"]])
        if spec["bind"]:
            g = g.bind(**{m(k): v for k, v in spec["bind"].items()})
    except Exception as e:  # noqa: BLE001
        res.fail(kind="oracle", function="with_inputs/with_outputs/Graph()", what=f"alpha-renamed graph rejected: {type(e).__name__}: {str(e)[:300]}", runner=runner_name,
                 replay={"harness": "C06", "spec": spec, "runner": runner_name, "part": "alpha"})
        return
    out = run(g, {m(k): v for k, v in spec["provided"].items()})
    expected, _ = dag.evaluate(spec)
    exp = {m(k): repr(v) for k, v in sorted(expected.items())}
    res.case(repr((spec["nodes"], "alpha", runner_name)), nontrivial=True)
    if out["status"] != "completed" or out["values"] != exp:
        res.fail(kind="oracle", function="rename maps", what=f"alpha-renamed graph gives {out}, expected {exp}", runner=runner_name, replay={"harness": "C06", "spec": spec, "runner": runner_name, "part": "alpha"})


def check_mapped_wrapper(variant, res, runner_name):
    """map_over / clone lists follow renames of a nested-graph node (swap or chain of a listed name with an unlisted one)."""
    set_case("C06", variant, runner_name)
    run = run_sync if runner_name == "sync" else run_async
    log = Log()
    inner = Graph([tagged_node("f", ["a", "b"], ["r"], log)], name="inner")
    gn = inner.as_node()
    kind = variant["kind"]
    if kind == "map_swap":
        gn = gn.map_over("a").with_inputs({"a": "b", "b": "a"})  # external 'b' is now the mapped parameter a
        inputs, expect = {"b": [1, 2], "a": 7}, [("f", 0, 1, 7), ("f", 0, 2, 7)]
    elif kind == "map_chain":
        gn = gn.map_over("a").with_inputs({"a": "b", "b": "c"})
        inputs, expect = {"b": [1, 2], "c": 7}, [("f", 0, 1, 7), ("f", 0, 2, 7)]
    elif kind == "map_then_rename_twice":
        gn = gn.map_over("a").with_inputs({"a": "t"}).with_inputs({"t": "u"})
        inputs, expect = {"u": [1, 2], "b": 7}, [("f", 0, 1, 7), ("f", 0, 2, 7)]
    else:  # clone list follows a swap: cloned parameter is the ORIGINAL b
        gn = gn.map_over("a", clone=["b"]).with_inputs({"a": "b", "b": "a"})
        inputs, expect = {"b": [1, 2], "a": [9]}, [("f", 0, 1, [9]), ("f", 0, 2, [9])]
    g = Graph([gn])
    out = run(g, inputs)
    res.case(repr((variant, runner_name)), nontrivial=True, sample={"variant": variant, "runner": runner_name, "outcome": out})
    if out["status"] != "completed" or out["values"] != {"r": repr(expect)}:
        res.fail(kind="oracle", function="GraphNode.with_inputs/_original_map_params/_original_clone", what=f"mapped wrapper after rename gives {out}, expected r={expect}", runner=runner_name,
                 replay={"harness": "C06", "spec": variant, "runner": runner_name, "part": "mapped"})
    if kind == "clone_swap":
        ok = tuple(gn._clone) == ("a",) or list(gn._clone) == ["a"]
        if not ok:
            res.fail(kind="oracle", function="GraphNode.with_inputs", what=f"clone list {gn._clone} does not follow the rename (expected ['a'])", runner=runner_name,
                     replay={"harness": "C06", "spec": variant, "runner": runner_name, "part": "mapped"})


def check_revisit(variant, res, runner_name):
    """A rename chain that RETURNS TO AN INTERMEDIATE name (a -> x -> y -> x): the value must travel under the current name."""
    set_case("C06", variant, runner_name)
    run = run_sync if runner_name == "sync" else run_async
    log = Log()
    kind = variant["kind"]
    if kind.startswith("nested"):
        inner = Graph([tagged_node("f", ["a"], ["r"], log)], name="inner")
        nd = inner.as_node()
    else:
        nd = tagged_node("f", ["a"], ["r"], log)
    if kind.endswith("outputs"):
        nd = nd.with_outputs({"r": "x"}).with_outputs({"x": "y"}).with_outputs({"y": "x"})
        g = Graph([nd, tagged_node("use", ["x"], ["out"], log)])
        inputs, expect = {"a": 1}, {"x": repr(("f", 0, 1)), "out": repr(("use", 0, ("f", 0, 1)))}
    else:
        nd = nd.with_inputs({"a": "x"}).with_inputs({"x": "y"}).with_inputs({"y": "x"})
        g = Graph([nd])
        inputs, expect = {"x": 1}, {"r": repr(("f", 0, 1))}
    out = run(g, inputs)
    res.case(repr((variant, runner_name)), nontrivial=True, sample={"variant": variant, "runner": runner_name, "outcome": out})
    if out["status"] != "completed" or out["values"] != expect:
        res.fail(kind="oracle", function="with_inputs/with_outputs (rename chain returning to an intermediate name)", what=f"{kind}: a -> x -> y -> x gives {out}, expected {expect}", runner=runner_name,
                 replay={"harness": "C06", "spec": variant, "runner": runner_name, "part": "revisit"})


def run(tier, seed, functions):
    n = 120 if tier == "quick" else 2500
    res = Result("C06", "random DAGs x net-identity rename histories per node (round trips, chains through temporaries, double swaps, name re-use; node optionally used before renaming) "
                 "x consistent alpha-renaming of whole graphs x nested-graph wrappers (family 'nest') x map_over/clone lists under swaps and chains; oracle = independent evaluator",
                 {"programs": n})
    rng = random.Random(seed * 3571 + 6)
    for _ in range(n):
        spec = dag.gen_spec(rng)
        for nd in spec["nodes"]:
            nd["rename_mode"] = None
        hs = rng.randrange(10**6)
        check_dag_histories(spec, res, "sync", hs)
        check_dag_histories(spec, res, "async", hs)
        check_alpha(spec, res, "sync")
        nspec = nest.gen_spec(rng)
        C05.check_spec(nspec, res, "sync")
    for kind in ("map_swap", "map_chain", "map_then_rename_twice", "clone_swap"):
        for r in ("sync", "async"):
            check_mapped_wrapper({"kind": kind}, res, r)
    for kind in ("nested_outputs", "nested_inputs", "function_outputs", "function_inputs"):
        for r in ("sync", "async"):
            check_revisit({"kind": kind}, res, r)
    for f in res.failures:
        if f.get("replay", {}).get("harness") == "C05":
            f["replay"]["harness"] = "C06"
            f["replay"]["part"] = "nest"
    return res


def replay(rep):
    res = Result("C06", "", {})
    part = rep.get("part", "dag")
    if part == "dag":
        spec = dict(rep["spec"])
        check_dag_histories(spec, res, rep["runner"], spec.pop("hseed"))
    elif part == "alpha":
        check_alpha(rep["spec"], res, rep["runner"])
    elif part == "mapped":
        check_mapped_wrapper(rep["spec"], res, rep["runner"])
    elif part == "revisit":
        check_revisit(rep["spec"], res, rep["runner"])
    else:
        C05.check_spec(rep["spec"], res, rep["runner"])
    return [f["what"] for f in res.failures]
