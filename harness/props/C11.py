"""C11 bounded stand-in: node errors surface unwrapped (same object); partial results are exactly the completed work."""
import asyncio
import random
import warnings

from hypergraph import AsyncRunner, FunctionNode, Graph, SyncRunner

from harness import dag, nest
from harness.core import Log, Result, make_function, set_case


class Boom(Exception):
    pass


def build(spec, failing, excs, wrap_depth=0, log=None):
    """DAG whose nodes in `failing` raise their OWN pre-created exception object excs[name]."""
    log = log or Log()
    nodes = []
    for nd in spec["nodes"]:
        body = [f"_LOG.calls.append(({nd['name']!r}, {{}}))"]
        if nd["name"] in failing:
            body.append(f"raise _EXC[{nd['name']!r}]")
        vals = [f"({nd['name']!r}, {i}, {', '.join(nd['params'])}{',' if nd['params'] else ''})" for i in range(len(nd["outs"]))]
        body.append("return None" if not vals else f"return {vals[0]}" if len(vals) == 1 else f"return ({', '.join(vals)},)")
        dflt = dict(nd["defaults"])
        f = make_function(nd["name"], nd["params"], dflt, body, {"_LOG": log, "_EXC": excs})
        out = tuple(nd["outs"]) if len(nd["outs"]) != 1 else nd["outs"][0]
        nodes.append(FunctionNode(f, name=nd["name"], output_name=out if nd["outs"] else None))
    g = Graph([nodes[i] for i in spec["order"]], name="g0")
    if spec["bind"]:
        g = g.bind(**spec["bind"])
    for d in range(wrap_depth):
        g = Graph([g.as_node()], name=f"wrap{d}")
    return g, log


def downstream(spec, start):
    prod = {o: nd["name"] for nd in spec["nodes"] for o in nd["outs"]}
    deps = {nd["name"]: {prod[p] for p in nd["params"] if p in prod} for nd in spec["nodes"]}
    out, changed = set(start), True
    while changed:
        changed = False
        for n, ds in deps.items():
            if n not in out and ds & out:
                out.add(n)
                changed = True
    return out


def levels(spec):
    prod = {o: nd["name"] for nd in spec["nodes"] for o in nd["outs"]}
    lvl = {}
    for nd in spec["nodes"]:
        ups = [prod[p] for p in nd["params"] if p in prod and p not in nd["defaults"]]
        lvl[nd["name"]] = 1 + max([lvl[u] for u in ups], default=0)
    return lvl


def do_run(g, inputs, runner_name, **kw):
    with warnings.catch_warnings():
        warnings.simplefilter("ignore")
        try:
            if runner_name == "sync":
                return SyncRunner().run(g, dict(inputs), **kw), None
            return asyncio.run(AsyncRunner().run(g, dict(inputs), **kw)), None
        except BaseException as e:  # noqa: BLE001
            return None, e


def check_spec(spec, res, runner_name, failing, depth):
    set_case("C11", {"spec": spec, "failing": failing, "depth": depth}, runner_name)
    excs = {n: Boom(f"boom in {n}") for n in failing}
    expected_vals, _ = dag.evaluate(spec)
    bad = downstream(spec, failing)
    lv = levels(spec)
    first_level = min(lv[n] for n in failing)
    rep = {"harness": "C11", "spec": {"spec": spec, "failing": failing, "depth": depth}, "runner": runner_name}
    res.case(repr((spec["nodes"], tuple(failing), depth, runner_name)), nontrivial=len(spec["nodes"]) > 1, sample={"failing": failing, "depth": depth, "runner": runner_name})
    # --- raise mode: the very exception object of a failing node, unwrapped
    g, log = build(spec, failing, excs, depth)
    r, e = do_run(g, spec["provided"], runner_name)
    if e is None:
        if any(lv[n] <= 10 for n in failing):
            res.fail(kind="oracle", function="run (raise mode)", what=f"nodes {failing} raise but the run returned {r.status}", runner=runner_name, replay=rep)
    elif not any(e is x for x in excs.values()):
        res.fail(kind="oracle", function="run (raise mode)", what=f"surfaced {type(e).__name__}({e}) (cause={e.__cause__!r}) is not the exception object raised by the node", runner=runner_name, replay=rep)
    # --- continue mode: FAILED result carrying it; partial values = completed work
    g, log = build(spec, failing, excs, depth)
    r, e = do_run(g, spec["provided"], runner_name, error_handling="continue")
    if e is not None:
        res.fail(kind="oracle", function="run (continue mode)", what=f"continue mode raised {type(e).__name__}: {e}", runner=runner_name, replay=rep)
        return
    if r.status.value != "failed" or not any(r.error is x for x in excs.values()):
        res.fail(kind="oracle", function="run (continue mode)", what=f"expected FAILED carrying the node's exception object, got {r.status} error={r.error!r}", runner=runner_name, replay=rep)
        return
    if depth == 0:
        vals = r.values
        for k, v in vals.items():
            if k not in expected_vals or repr(expected_vals[k]) != repr(v):
                res.fail(kind="oracle", function="partial values", what=f"partial value {k}={v!r} is not a correct value of a completed node (expected {expected_vals.get(k)!r})", runner=runner_name, replay=rep)
        prod = {o: nd["name"] for nd in spec["nodes"] for o in nd["outs"]}
        for k in vals:
            if prod.get(k) in bad:
                res.fail(kind="oracle", function="partial values", what=f"output {k} of node {prod[k]} (failing or downstream of the failure) appears in the partial values", runner=runner_name, replay=rep)
        for nd in spec["nodes"]:
            if lv[nd["name"]] < first_level and nd["name"] not in bad:
                for o in nd["outs"]:
                    if o not in vals:
                        res.fail(kind="oracle", function="partial values", what=f"value {o} completed in an earlier step (node {nd['name']}, level {lv[nd['name']]} < {first_level}) is missing from the partial values", runner=runner_name, replay=rep)
    # --- selected output downstream of the failure with on_missing='error': still a FAILED result, not another exception
    if depth == 0 and g.outputs:
        g, log = build(spec, failing, excs, depth)
        r, e = do_run(g, spec["provided"], runner_name, error_handling="continue", select=[g.outputs[-1]], on_missing="error")
        if e is not None or r.status.value != "failed" or not any(r.error is x for x in excs.values()):
            res.fail(kind="oracle", function="run (continue mode, select/on_missing)", what=f"with select + on_missing='error' the node failure is not reported as a FAILED result: result={getattr(r, 'status', None)} raised={e!r}", runner=runner_name, replay=rep)


def check_map(spec, res, runner_name, failing):
    set_case("C11", {"spec": spec, "failing": failing, "map": True}, runner_name)
    excs = {n: Boom(f"boom in {n}") for n in failing}
    g, log = build(spec, failing, excs, 0)
    req = list(g.inputs.required) + list(g.inputs.optional)
    if not req:
        return
    k = req[0]
    vals = dict(spec["provided"])
    vals[k] = [vals.get(k, 1), vals.get(k, 1)]
    rep = {"harness": "C11", "spec": {"spec": spec, "failing": failing, "map": True}, "runner": runner_name}
    with warnings.catch_warnings():
        warnings.simplefilter("ignore")
        try:
            if runner_name == "sync":
                SyncRunner().map(g, vals, map_over=k)
            else:
                asyncio.run(AsyncRunner().map(g, vals, map_over=k))
            err = None
        except BaseException as e:  # noqa: BLE001
            err = e
    res.case(repr((spec["nodes"], tuple(failing), "map", runner_name)), nontrivial=True)
    if err is None or not any(err is x for x in excs.values()):
        res.fail(kind="oracle", function="map (raise mode)", what=f"map in raise mode surfaced {err!r}, not the failing node's exception object", runner=runner_name, replay=rep)


def run(tier, seed, functions):
    n = 60 if tier == "quick" else 1200
    res = Result("C11", "random DAGs x every node as the failing one and pairs failing in the same step x nesting depth 0..2 x run (raise / continue, also select+on_missing=error) and map x both runners; "
                 "oracle = identity of the surfaced exception object, partial values subset of the independent evaluator, earlier levels present, nothing from the failing node or downstream",
                 {"programs": n})
    rng = random.Random(seed * 5003 + 11)
    for _ in range(n):
        spec = dag.gen_spec(rng, side_effect_nodes=False)
        prod = dag.produced_names(spec)
        for nd in spec["nodes"]:
            nd["rename_mode"] = None
            # no signature default on upstream-fed parameters: every node then runs exactly once, on final values
            nd["defaults"] = {p: v for p, v in nd["defaults"].items() if p not in prod}
        spec["provided"] = dag.choose_provided(spec, rng)
        names = [nd["name"] for nd in spec["nodes"]]
        lv = levels(spec)
        choices = [[x] for x in names]
        same = [[a, b] for a in names for b in names if a < b and lv[a] == lv[b]]
        for failing in choices + same[:2]:
            for r in ("sync", "async"):
                check_spec(spec, res, r, failing, rng.choice([0, 0, 1, 2]))
        check_map(spec, res, "sync", [rng.choice(names)])
        check_map(spec, res, "async", [rng.choice(names)])
    return res


def replay(rep):
    res = Result("C11", "", {})
    sp = rep["spec"]
    if sp.get("map"):
        check_map(sp["spec"], res, rep["runner"], sp["failing"])
    else:
        check_spec(sp["spec"], res, rep["runner"], sp["failing"], sp["depth"])
    return [f["what"] for f in res.failures]
