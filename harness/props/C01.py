"""C01 bounded stand-in: every output of a gate-free DAG equals the dependency-order evaluation (both runners)."""
import random

from harness import dag
from harness.core import set_case, Log, Result, run_async, run_sync


def check_spec(spec, res, runner_name, run):
    set_case("C01", spec, runner_name)
    try:
        g, log = dag.build(spec)
    except Exception as e:  # noqa: BLE001 - a valid program must build
        res.case(repr(spec), sample=None)
        res.fail(kind="oracle", function="Graph()", what=f"valid DAG program rejected at construction: {type(e).__name__}: {str(e)[:200]}", runner=runner_name,
                 replay={"harness": "C01", "spec": spec, "runner": runner_name})
        return
    out = run(g, spec["provided"])
    expected, calls = dag.evaluate(spec)
    key = repr((spec["nodes"], spec["bind"], sorted(spec["provided"].items(), key=repr), runner_name))
    res.case(key, nontrivial=len(spec["nodes"]) > 1 or bool(spec["bind"]), sample={"spec": spec, "runner": runner_name, "outcome": out})
    exp_vals = {k: repr(v) for k, v in sorted(expected.items())}
    problems = []
    if out["status"] != "completed":
        problems.append(f"status {out['status']} error {out['error']}")
    elif out["values"] != exp_vals:
        problems.append(f"values {out['values']} != dependency-order evaluation {exp_vals}")
    else:
        for nd in spec["nodes"]:
            n_calls = log.count(nd["name"])
            want = [a for n, a in calls if n == nd["name"]]
            if want and n_calls == 0:
                problems.append(f"runnable node {nd['name']} never ran")
            if want and dag.exact_once(spec, nd):
                got = [a for n, a in log.calls if n == nd["name"]]
                if n_calls != 1 or repr(sorted(got[0].items())) != repr(sorted(want[0].items())):
                    problems.append(f"node {nd['name']} calls {got} expected exactly once with {want[0]}")
    for pb in problems:
        res.fail(kind="oracle", function="SyncRunner.run/AsyncRunner.run", what=pb, runner=runner_name, replay={"harness": "C01", "spec": spec, "runner": runner_name})


def targeted():
    """Unusual-but-legal shapes that random sampling reaches rarely."""
    specs = []
    for v in (None, 0, "", [], False):
        # falsy / None bindings, with and without a competing signature default
        specs.append({"family": "dag", "nodes": [{"name": "n0", "params": ["i0", "i1"], "outs": ["o0"], "defaults": {}, "rename_mode": None}], "bind": {"i1": v}, "order": [0], "provided": {"i0": 1}})
        specs.append({"family": "dag", "nodes": [{"name": "n0", "params": ["i0", "i1"], "outs": ["o0"], "defaults": {"i1": 9}, "rename_mode": None},
                                                   {"name": "n1", "params": ["o0"], "outs": ["o1"], "defaults": {}, "rename_mode": None}], "bind": {"i1": v}, "order": [1, 0], "provided": {"i0": 1}})
        specs.append({"family": "dag", "nodes": [{"name": "n0", "params": ["i0"], "outs": ["o0"], "defaults": {"i0": 9}, "rename_mode": "late"}], "bind": {}, "order": [0], "provided": {"i0": v}})
    return specs


def run(tier, seed, functions):
    n = 250 if tier == "quick" else 4000
    res = Result("C01", "random gate-free DAGs (<=4 nodes, <=3 inputs, multi-output and side-effect-only nodes, defaults/bindings/run-time values incl. None, "
                 "ctor/late input renames, shuffled node order) + targeted falsy-binding shapes; distinct by (nodes, bind, provided, runner); non-trivial = >1 node or a binding",
                 {"max_nodes": 4, "max_inputs": 3, "programs": n, "runners": ["sync", "async"]})
    rng = random.Random(seed * 7919 + 1)
    specs = targeted() + [dag.gen_spec(rng, allow_async=False) for _ in range(n)]
    for spec in specs:
        check_spec(spec, res, "sync", run_sync)
        check_spec(spec, res, "async", run_async)
    return res


def replay(rep):
    from harness.monitor import Monitors
    mon = Monitors(only={rep["monitor"]}).arm() if rep.get("monitor") else None
    res = Result("C01", "", {})
    check_spec(rep["spec"], res, rep["runner"], run_sync if rep["runner"] == "sync" else run_async)
    if mon:
        mon.disarm()
        return [f["what"] for f in mon.failures]
    return [f["what"] for f in res.failures]
