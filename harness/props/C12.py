"""C12 bounded stand-in: events of every terminated run form a complete, well-nested span tree; shutdown exactly once."""
import asyncio
import random

from hypergraph import AsyncRunner, FunctionNode, Graph, InMemoryCache, SyncRunner

from harness import dag, flow, nest
from harness.core import Log, Result, make_function, run_async, run_sync, set_case
from harness.events import AsyncRecorder, Recorder, tree_problems


def build(spec, log, fail=()):
    fam = spec["family"]
    if fam == "dag":
        kw = {nd["name"]: ({"fail_when": (lambda n, a: True)} if nd["name"] in fail else {}) for nd in spec["nodes"]}
        for nd in spec["nodes"]:
            kw[nd["name"]]["cache"] = spec.get("cache", False)
        g, _ = dag.build(spec, log, node_kwargs=kw)
        return g, spec["provided"], None
    if fam == "nest":
        g, _ = nest.build_nested(spec, log)
        return g, {spec["real_map"].get(k, k): v for k, v in spec["provided"].items()}, None
    if fam == "gated":
        g, _ = flow.build_gated(spec, log)
        return g, {"x": spec["x"]}, None
    if fam == "loop":
        g, _ = flow.build_loop(spec, log)
        return g, {"c0": spec["start"]}, None
    if fam == "siblings":
        # several nested graphs ready in the same superstep (nested runs must be parented to THEIR launcher)
        nodes, launcher = [], {}
        for k in range(spec["n"]):
            f = make_function(f"leaf{k}", ["x"], {}, [f"return ('leaf{k}', x)"], {})
            inner = Graph([FunctionNode(f, name=f"leaf{k}", output_name=f"out{k}")], name=f"graph_{k}")
            nodes.append(inner.as_node())
            launcher[f"graph_{k}"] = f"graph_{k}"
        return Graph(nodes, name="outer"), {"x": 1}, launcher
    raise ValueError(fam)


def check_spec(spec, res, runner_name, variant):
    set_case("C12", {"spec": spec, "variant": variant}, runner_name)
    run = run_sync if runner_name == "sync" else run_async
    log = Log()
    fail = tuple(spec.get("fail", ()))
    try:
        g, inputs, launcher = build(spec, log, fail)
    except Exception:  # noqa: BLE001
        return
    rec = AsyncRecorder(suspend=True) if (variant.get("async_proc") and runner_name == "async") else Recorder()
    kw = {"event_processors": [rec], "error_handling": variant["error_handling"], "max_iterations": 60}
    if variant.get("select_missing") and g.outputs:
        kw["select"] = [g.outputs[-1]]
        kw["on_missing"] = "error"
    runner = (SyncRunner if runner_name == "sync" else AsyncRunner)(cache=InMemoryCache()) if spec.get("cache") else None
    out = run(g, inputs, runner=runner, **kw)
    if spec.get("cache"):
        rec2 = Recorder()
        out = run(g, inputs, runner=runner, **dict(kw, event_processors=[rec2]))
        rec = rec2
    rep = {"harness": "C12", "spec": {"spec": spec, "variant": variant}, "runner": runner_name}
    res.case(repr((spec, variant, runner_name)), nontrivial=len(rec.events) > 2, sample={"spec": spec, "variant": variant, "n_events": len(rec.events), "outcome": out["status"]})
    rejected = out["status"] == "raised" and any(x in (out["error"] or "") for x in ("MissingInputError", "ValueError:", "IncompatibleRunnerError", "GraphConfigError")) and not rec.events
    if rejected:
        if rec.shutdowns:
            res.fail(kind="oracle", function="run template", what=f"rejected call invoked shutdown {rec.shutdowns} times", runner=runner_name, replay=rep)
        return
    observed = {"completed": "completed", "failed": "failed", "raised": "failed"}.get(out["status"])
    if observed is None:
        return  # paused runs have not terminated
    problems = tree_problems(rec.events, expect_status=observed, launcher_of=launcher)
    if rec.shutdowns != 1:
        problems.append(f"shutdown invoked {rec.shutdowns} times for one top-level call")
    for pb in problems:
        res.fail(kind="oracle", function="event emission (templates / superstep / dispatcher)", what=pb + f"   [outcome {out['status']} {out['error']}]", runner=runner_name, replay=rep)


def check_map(spec, res, runner_name, error_handling):
    set_case("C12", {"spec": spec, "variant": {"map": True, "error_handling": error_handling}}, runner_name)
    log = Log()
    f = make_function("f", ["a"], {}, ["if a == 2: raise _ERR('f')", "return ('f', a)"], {"_ERR": RuntimeError})
    g = Graph([FunctionNode(f, name="f", output_name="r")], name="item")
    rec = Recorder()
    runner = SyncRunner() if runner_name == "sync" else AsyncRunner()
    vals = {"a": spec["items"]}
    try:
        if runner_name == "sync":
            runner.map(g, vals, map_over="a", error_handling=error_handling, event_processors=[rec])
        else:
            asyncio.run(runner.map(g, vals, map_over="a", error_handling=error_handling, event_processors=[rec], **({"max_concurrency": spec["mc"]} if spec["mc"] else {})))
        status = "completed"
    except Exception:  # noqa: BLE001
        status = "failed"
    rep = {"harness": "C12", "spec": {"spec": spec, "variant": {"map": True, "error_handling": error_handling}}, "runner": runner_name}
    res.case(repr((spec, error_handling, runner_name)), nontrivial=bool(spec["items"]), sample=None)
    if not spec["items"]:
        if rec.events or rec.shutdowns:
            res.fail(kind="oracle", function="map template", what=f"empty map emitted {len(rec.events)} events / {rec.shutdowns} shutdowns", runner=runner_name, replay=rep)
        return
    problems = tree_problems(rec.events, expect_status=status)
    if rec.shutdowns != 1:
        problems.append(f"shutdown invoked {rec.shutdowns} times for one top-level map call")
    for pb in problems:
        res.fail(kind="oracle", function="map template events", what=pb, runner=runner_name, replay=rep)


def check_map_rejected(res, runner_name):
    """A map call whose inputs are incomplete is a rejected call: nothing may be emitted (known finding F9 on this tree)."""
    set_case("C12", {"spec": {"rejected_map": True}, "variant": {"map": True, "error_handling": "raise"}}, runner_name)
    f = make_function("f", ["x", "y"], {}, ["return (x, y)"], {})
    g = Graph([FunctionNode(f, name="f", output_name="r")], name="item")
    rec = Recorder()
    runner = SyncRunner() if runner_name == "sync" else AsyncRunner()
    try:
        r = runner.map(g, {"x": [1, 2]}, map_over="x", event_processors=[rec])
        if runner_name == "async":
            asyncio.run(r)
        raised = None
    except Exception as e:  # noqa: BLE001
        raised = type(e).__name__
    res.case(repr(("rejected_map", runner_name)), nontrivial=True)
    if raised == "MissingInputError" and (rec.events or rec.shutdowns):
        res.fail(kind="oracle", function="map template", finding_sig="F9", what=f"map() rejected with MissingInputError still emitted {len(rec.events)} events and {rec.shutdowns} shutdown(s) ({runner_name})",
                 runner=runner_name, replay={"harness": "C12", "spec": {"spec": {"rejected_map": True}, "variant": {"map": True, "error_handling": "raise"}}, "runner": runner_name})


def gen(rng):
    fam = rng.choice(["dag", "dag", "nest", "gated", "loop", "siblings"])
    if fam == "dag":
        spec = dag.gen_spec(rng)
        for nd in spec["nodes"]:
            nd["rename_mode"] = None
        names = [nd["name"] for nd in spec["nodes"]]
        spec["fail"] = rng.sample(names, rng.choice([0, 0, 1, 2])) if len(names) >= 2 else []
        spec["cache"] = rng.random() < 0.3
        return spec
    if fam == "siblings":
        return {"family": "siblings", "n": rng.randint(2, 3)}
    return {"nest": nest.gen_spec, "gated": flow.gen_gated, "loop": flow.gen_loop}[fam](rng)


def run(tier, seed, functions):
    n = 120 if tier == "quick" else 2500
    res = Result("C12", "mixed corpus (DAGs with failing nodes and cached re-runs, nested graphs, sibling nested graphs ready in one step, gated DAGs, loops, maps incl. empty and failing) x "
                 "(raise/continue, sync / suspending async processor, selected-but-missing output with on_missing=error) x both runners; span-tree checker on the recorded stream",
                 {"programs": n})
    rng = random.Random(seed * 8629 + 12)
    for _ in range(n):
        spec = gen(rng)
        for r in ("sync", "async"):
            check_spec(spec, res, r, {"error_handling": rng.choice(["raise", "continue"]), "async_proc": rng.random() < 0.5, "select_missing": rng.random() < 0.25})
    for items in ([], [1], [1, 2, 3], [3, 1]):
        for eh in ("raise", "continue"):
            for r, mc in (("sync", None), ("async", None), ("async", 2)):
                check_map({"items": items, "mc": mc}, res, r, eh)
    check_map_rejected(res, "sync")
    check_map_rejected(res, "async")
    return res


def replay(rep):
    res = Result("C12", "", {})
    sp = rep["spec"]
    if sp["spec"].get("rejected_map"):
        check_map_rejected(res, rep["runner"])
        return [f["what"] for f in res.failures if not f.get("finding_sig")]
    if sp["variant"].get("map"):
        check_map(sp["spec"], res, rep["runner"], sp["variant"]["error_handling"])
    else:
        check_spec(sp["spec"], res, rep["runner"], sp["variant"])
    return [f["what"] for f in res.failures]
