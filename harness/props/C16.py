"""C16 bounded stand-in: entry points limit what runs; results hold only requested, declared outputs."""
import random
import warnings

from hypergraph import FunctionNode, Graph, SyncRunner, AsyncRunner
from hypergraph.nodes.base import _EMIT_SENTINEL

from harness import dag
from harness.core import Log, Result, run_async, run_sync, set_case, tagged_node


def descendants(spec, name):
    prod = {o: nd["name"] for nd in spec["nodes"] for o in nd["outs"]}
    deps = {nd["name"]: {prod[p] for p in nd["params"] if p in prod} for nd in spec["nodes"]}
    out, changed = {name}, True
    while changed:
        changed = False
        for n, ds in deps.items():
            if n not in out and ds & out:
                out.add(n)
                changed = True
    return out


def build(spec, log):
    emitters = set(spec.get("emitters", ()))
    nodes = []
    for nd in spec["nodes"]:
        nodes.append(tagged_node(nd["name"], nd["params"], nd["outs"], log, nd["defaults"], emit=((f"sig_{nd['name']}",) if nd["name"] in emitters else ())))
    g = Graph([nodes[i] for i in spec["order"]])
    if spec["bind"]:
        g = g.bind(**spec["bind"])
    return g


def check_entrypoint(spec, res, runner_name, prior_run):
    set_case("C16", {"spec": spec, "prior_run": prior_run, "part": "entry"}, runner_name)
    run = run_sync if runner_name == "sync" else run_async
    rep = {"harness": "C16", "spec": {"spec": spec, "prior_run": prior_run, "part": "entry"}, "runner": runner_name}
    log = Log()
    g = build(spec, log)
    expected, _ = dag.evaluate(spec)
    if prior_run:
        run(g, spec["provided"])  # history: the base graph is used before the scoped graph is derived
    for nd in spec["nodes"]:
        entry = nd["name"]
        try:
            ge = g.with_entrypoint(entry)
        except Exception:  # noqa: BLE001
            continue
        active = descendants(spec, entry)
        # upstream values come from the caller: everything the active nodes consume that no active node produces
        act_out = {o for m in spec["nodes"] if m["name"] in active for o in m["outs"]}
        needed = {p for m in spec["nodes"] if m["name"] in active for p in m["params"] if p not in act_out}
        vals = {}
        for p in needed:
            if p in expected:
                vals[p] = ("CALLER", p)  # distinguishable from what the skipped upstream node would have produced
            elif p in spec["provided"]:
                vals[p] = spec["provided"][p]
        log.clear()
        out = run(ge, vals)
        res.case(repr((spec["nodes"], entry, prior_run, runner_name)), nontrivial=len(active) < len(spec["nodes"]), sample={"entry": entry, "active": sorted(active)})
        if out["status"] != "completed":
            continue
        ran = {n for n, _ in log.calls}
        if not ran <= active:
            res.fail(kind="oracle", function="compute_active_node_set / get_ready_nodes", what=f"entry point {entry}: nodes {sorted(ran - active)} executed although they are not downstream of the entry point (prior run of the base graph: {prior_run})", runner=runner_name, replay=rep)
        for p in needed:
            if p in expected:
                for n, args in log.calls:
                    if p in args and args[p] != ("CALLER", p):
                        res.fail(kind="oracle", function="entry-point scoping", what=f"entry point {entry}: node {n} received {p}={args[p]!r}, not the caller's value", runner=runner_name, replay=rep)


def check_selection(spec, res, runner_name):
    set_case("C16", {"spec": spec, "part": "select"}, runner_name)
    run = run_sync if runner_name == "sync" else run_async
    rep = {"harness": "C16", "spec": {"spec": spec, "part": "select"}, "runner": runner_name}
    log = Log()
    g = build(spec, log)
    declared = set(g.outputs)
    rng = random.Random(len(repr(spec)))
    inputs = spec["provided"]

    def judge(label, out, allowed, strict_missing=None):
        if out["status"] not in ("completed", "failed"):
            return
        vals = out["values"] or {}
        for k, v in vals.items():
            if k not in declared:
                res.fail(kind="oracle", function="filter_outputs", what=f"{label}: returned name '{k}' is not a declared output of the graph", runner=runner_name, replay=rep)
            if allowed is not None and k not in allowed:
                res.fail(kind="oracle", function="filter_outputs", what=f"{label}: returned name '{k}' is outside the effective selection {sorted(allowed)}", runner=runner_name, replay=rep)
            if "object object at" in v or "emit sentinel" in v:
                res.fail(kind="oracle", function="filter_outputs", what=f"{label}: an ordering sentinel is returned under '{k}'", runner=runner_name, replay=rep)
        res.case(repr((spec["nodes"], label, runner_name)), nontrivial=True)

    judge("default selection", run(g, inputs), declared)
    outs = list(g.outputs)
    if outs:
        pick = rng.sample(outs, rng.randint(1, min(2, len(outs))))
        emit_names = [o for o in outs if o.startswith("sig_")]
        if emit_names and rng.random() < 0.7:
            pick = list(dict.fromkeys(pick + [emit_names[0]]))
        judge(f"run-time select {pick}", run(g, inputs, select=pick), set(pick))
        gs = g.select(*pick)
        judge(f"graph select {pick}", run(gs, inputs), set(pick))
        other = [rng.choice(outs)]
        judge(f"run-time select {other} over graph select {pick}", run(gs, inputs, select=other), set(other))
        judge("run-time '**' over graph select", run(gs, inputs, select="**"), declared)
        # nested graph exposes exactly its selected outputs
        try:
            outer = Graph([Graph(list(g.nodes.values()), name="inner").select(*pick).as_node()])
            o = run(outer, {k: v for k, v in {**spec["bind"], **inputs}.items() if k in outer.inputs.all})
            judge(f"nested select {pick}", o, set(pick))
        except Exception:  # noqa: BLE001
            pass
        # on_missing: a selected but unproduced name
        with warnings.catch_warnings(record=True) as w:
            warnings.simplefilter("always")
            missing_sel = [outs[0]]
            o_ign = run(g.with_entrypoint(spec["nodes"][-1]["name"]), {**inputs, **{p: 1 for p in spec["nodes"][-1]["params"]}}, select=missing_sel, on_missing="ignore") if len(spec["nodes"]) > 1 else None
        bad = run(g, inputs, on_missing="bogus")
        if not (bad["status"] == "raised" and "ValueError" in (bad["error"] or "")):
            res.fail(kind="oracle", function="_validate_on_missing", what=f"invalid on_missing mode accepted: {bad}", runner=runner_name, replay=rep)


def check_on_missing(res, runner_name):
    set_case("C16", {"part": "on_missing"}, runner_name)
    run = run_sync if runner_name == "sync" else run_async
    rep = {"harness": "C16", "spec": {"part": "on_missing"}, "runner": runner_name}
    from harness.flow import gate_node
    log = Log()
    g = Graph([gate_node("g", "ifelse", ["x"], log, lambda a: a["x"] > 0, when=("p", "n")), tagged_node("p", ["x"], ["pos"], log), tagged_node("n", ["x"], ["neg"], log)])
    with warnings.catch_warnings(record=True) as w:
        warnings.simplefilter("always")
        o = run(g, {"x": 1}, select=["neg"], on_missing="ignore")
        n_ignore = len([x for x in w if issubclass(x.category, UserWarning)])
    with warnings.catch_warnings(record=True) as w2:
        warnings.simplefilter("always")
        try:
            r = (SyncRunner() if runner_name == "sync" else None)
            if r:
                res_w = r.run(g, {"x": 1}, select=["neg"], on_missing="warn")
                n_warn = len([x for x in w2 if issubclass(x.category, UserWarning)])
            else:
                import asyncio
                res_w = asyncio.run(AsyncRunner().run(g, {"x": 1}, select=["neg"], on_missing="warn"))
                n_warn = len([x for x in w2 if issubclass(x.category, UserWarning)])
        except Exception as e:  # noqa: BLE001
            res.fail(kind="oracle", function="_handle_missing_outputs", what=f"on_missing='warn' raised {e!r}", runner=runner_name, replay=rep)
            return
    o_err = run(g, {"x": 1}, select=["neg"], on_missing="error")
    res.case(repr(("on_missing", runner_name)), nontrivial=True)
    if o["status"] != "completed" or o["values"] != {} or n_ignore:
        res.fail(kind="oracle", function="_handle_missing_outputs", what=f"on_missing='ignore': {o}, warnings={n_ignore}", runner=runner_name, replay=rep)
    if dict(res_w.values) != {} or n_warn < 1:
        res.fail(kind="oracle", function="_handle_missing_outputs", what=f"on_missing='warn': values={dict(res_w.values)}, UserWarnings={n_warn}", runner=runner_name, replay=rep)
    if not (o_err["status"] == "raised" and "ValueError" in (o_err["error"] or "")):
        res.fail(kind="oracle", function="_handle_missing_outputs", what=f"on_missing='error' did not raise ValueError: {o_err}", runner=runner_name, replay=rep)


def check_entry_below_gate(variant, res, runner_name):
    """Entry point on (or below) a gate's target: the gate is UPSTREAM of the entry point, so it must not execute, whatever
    it would decide and although all its inputs are available."""
    from hypergraph import Graph, ifelse, route
    set_case("C16", {"part": "entry_gate", "variant": variant}, runner_name)
    run = run_sync if runner_name == "sync" else run_async
    rep = {"harness": "C16", "spec": {"part": "entry_gate", "variant": variant}, "runner": runner_name}
    log = Log()
    kind, entry = variant["gate"], variant["entry"]

    if kind == "ifelse":
        @ifelse(when_true="fast", when_false="slow")
        def gate(score=100):
            log.calls.append(("gate", {"score": score}))
            return score < 10
    else:
        @route(targets=["fast", "slow"])
        def gate(score=100):
            log.calls.append(("gate", {"score": score}))
            return "slow"
    nodes = [tagged_node("assess", ["doc"], ["score"], log, {"doc": "d"}), gate, tagged_node("fast", ["text"], ["fast_out"], log), tagged_node("slow", ["text"], ["slow_out"], log),
             tagged_node("publish", ["fast_out"], ["report"], log), tagged_node("archive", ["slow_out"], ["stored"], log)]
    g = Graph(nodes).with_entrypoint(entry)
    allowed = {"fast": {"fast", "publish"}, "slow": {"slow", "archive"}, "publish": {"publish"}}[entry]
    vals = {"text": "t"} if entry in ("fast", "slow") else {"fast_out": "f"}
    for extra in ({}, {"score": 3}):
        log.clear()
        out = run(g, {**vals, **extra})
        ran = {n for n, _ in log.calls}
        res.case(repr((variant, runner_name, sorted(extra))), nontrivial=True, sample={"variant": variant, "ran": sorted(ran), "outcome": out})
        if not ran <= allowed:
            res.fail(kind="oracle", function="compute_active_node_set / _active_from_entrypoints", what=f"entry point {entry} below a {kind} gate (caller values {sorted({**vals, **extra})}): nodes {sorted(ran - allowed)} executed although they are not downstream of the entry point", runner=runner_name, replay=rep)
        if out["status"] == "completed" and not ran:
            res.fail(kind="oracle", function="compute_active_node_set / get_ready_nodes", what=f"entry point {entry} below a {kind} gate: the entry node itself did not run ({out})", runner=runner_name, replay=rep)


def run(tier, seed, functions):
    n = 80 if tier == "quick" else 1500
    res = Result("C16", "random DAGs (some nodes emitting ordering signals) x every node as entry point (with and without a prior run of the base graph; upstream values supplied by the caller and "
                 "tagged) x selections (default, run-time incl. emit names, graph-level, run-time over graph-level, '**', nested) x on_missing modes; oracle = executed set within entry+descendants, "
                 "returned names declared, selected, never a sentinel", {"programs": n})
    rng = random.Random(seed * 4099 + 16)
    for _ in range(n):
        spec = dag.gen_spec(rng, side_effect_nodes=False)
        prod = dag.produced_names(spec)
        for nd in spec["nodes"]:
            nd["rename_mode"] = None
            nd["defaults"] = {p: v for p, v in nd["defaults"].items() if p not in prod}
        spec["provided"] = dag.choose_provided(spec, rng)
        spec["emitters"] = [nd["name"] for nd in spec["nodes"] if rng.random() < 0.4]
        for r in ("sync", "async"):
            check_entrypoint(spec, res, r, prior_run=rng.random() < 0.5)
            check_selection(spec, res, r)
    check_on_missing(res, "sync")
    check_on_missing(res, "async")
    for gate in ("ifelse", "route"):
        for entry in ("fast", "slow", "publish"):
            for r in ("sync", "async"):
                check_entry_below_gate({"gate": gate, "entry": entry}, res, r)
    return res


def replay(rep):
    res = Result("C16", "", {})
    sp = rep["spec"]
    if sp["part"] == "entry_gate":
        check_entry_below_gate(sp["variant"], res, rep["runner"])
        return [f["what"] for f in res.failures]
    if sp["part"] == "entry":
        check_entrypoint(sp["spec"], res, rep["runner"], sp["prior_run"])
    elif sp["part"] == "select":
        check_selection(sp["spec"], res, rep["runner"])
    else:
        check_on_missing(res, rep["runner"])
    return [f["what"] for f in res.failures]
