"""C14 bounded stand-in: interrupts pause before dependants run and resume to the same result."""
import asyncio
import random
import warnings

from hypergraph import AsyncRunner, FunctionNode, Graph, InterruptNode

from harness.core import Log, Result, make_function, set_case, tagged_node

ANSWERS = ["yes", 0, False, "", [], {"k": 1}, 7]


def build(spec, log, auto=None):
    """chain: pre (x -> d0) ; interrupts I_k (consume d_{k}, produce r_k) ; steps s_k (consume r_k -> d_{k+1}) ; side (x -> s)
    auto: {interrupt name: response}  -> that interrupt's handler returns the response itself (never pauses)."""
    auto = auto or {}
    nodes = [tagged_node("pre", ["x"], ["d0"], log)]
    if spec["side"]:
        nodes.append(tagged_node("side", [spec.get("side_dep", "x")], ["s"], log))
    for k in range(spec["n"]):
        name = f"ask{k}"
        inp = f"d{k}"
        iname = f"q{k}" if spec["rename"] else inp
        body = [f"_LOG.calls.append(({name!r}, {{'v': {iname if not spec['rename'] else 'qq'}}}))", f"return _AUTO.get({name!r})"]
        params = ["qq"] if spec["rename"] else [inp]
        fn = make_function(name, params, {}, body, {"_LOG": log, "_AUTO": auto})
        outs = (f"r{k}", f"r{k}b") if (spec["multi"] and k == 0) else f"r{k}"
        node = InterruptNode(fn, name=name, output_name=outs, rename_inputs=({"qq": inp} if spec["rename"] else None), emit=(f"sig{k}" if spec.get("emit") else None))
        nodes.append(node)
        nodes.append(tagged_node(f"step{k}", [f"r{k}"], [f"d{k + 1}"], log))
        if spec.get("emit"):
            # a node ordered (not fed) by the interrupt: it runs once the interrupt has been passed, however it was passed
            nodes.append(tagged_node(f"after{k}", ["d0"], [f"w{k}"], log, wait_for=(f"sig{k}",)))
    random.Random(spec["order_seed"]).shuffle(nodes)
    g = Graph(nodes, name="flow")
    for d in range(spec["depth"]):
        g = Graph([g.as_node()], name=f"outer{d}")
    return g


def do_run(g, values):
    with warnings.catch_warnings():
        warnings.simplefilter("ignore")
        return asyncio.run(AsyncRunner().run(g, dict(values)))


def check_spec(spec, res):
    set_case("C14", spec, "async")
    rep = {"harness": "C14", "spec": spec, "runner": "async"}
    answers = spec["answers"]
    # reference: handlers return the answers themselves
    log_ref = Log()
    g_ref = build(spec, log_ref, auto={f"ask{k}": (answers[k] if not (spec["multi"] and k == 0) else {"r0": answers[0], "r0b": "second"}) for k in range(spec["n"])})
    ref = do_run(g_ref, {"x": 1})
    res.case(repr(spec), nontrivial=True, sample={"spec": spec})
    log = Log()
    g = build(spec, log)
    values = {"x": 1}
    for k in range(spec["n"]):
        r = do_run(g, values)
        # path = names of the enclosing graph NODES from the outside in (the top-level graph itself is not a node)
        chain = (["flow"] + [f"outer{d}" for d in range(spec["depth"] - 1)]) if spec["depth"] else []
        prefix = "/".join(reversed(chain))
        want_name = (prefix + "/" if prefix else "") + f"ask{k}"
        if r.status.value != "paused":
            res.fail(kind="oracle", function="interrupt executor / async superstep", what=f"interrupt ask{k} returned None but the run did not pause: {r.status} {r.error!r}", replay=rep)
            return
        p = r.pause
        if p.node_name != want_name or p.output_param != f"r{k}":
            res.fail(kind="oracle", function="PauseInfo / nested pause propagation", what=f"pause identifies {p.node_name}/{p.output_param}, expected {want_name}/r{k}", replay=rep)
            return
        if spec["depth"] == 0:
            if repr(p.value) != repr(("pre" if k == 0 else f"step{k - 1}", 0, *((1,) if k == 0 else (answers[k - 1],)))):
                res.fail(kind="oracle", function="PauseInfo.value", what=f"value shown to the human {p.value!r} is not the interrupt's input", replay=rep)
            # no dependant of the interrupt has run; earlier values are returned
            if log.count(f"step{k}") != 0:
                res.fail(kind="oracle", function="async superstep (pause)", what=f"step{k} (depends on ask{k}) ran before the pause was answered", replay=rep)
            need = {"d0"} | {f"d{j}" for j in range(1, k + 1)} | {f"r{j}" for j in range(k)}
            missing = [v for v in sorted(need) if v not in r.values]
            if missing:
                res.fail(kind="oracle", function="PAUSED result", what=f"values computed before the pause are missing from the PAUSED result: {missing} (have {sorted(r.values)})", replay=rep)
            if spec["side"] and log.count("side") > 0 and "s" not in r.values:
                res.fail(kind="oracle", function="PAUSED result", what="node 'side' executed before the pause but its output is not in the PAUSED result", replay=rep)
            key = p.response_key
            values = dict(values)
            values[key] = answers[k]
            if spec["multi"] and k == 0:
                values[p.response_keys["r0b"]] = "second"
        else:
            return  # nesting: only the pause identity is claimed (DESIGN C14)
    final = do_run(g, values)
    if final.status.value != "completed" or {k: repr(v) for k, v in final.values.items()} != {k: repr(v) for k, v in ref.values.items()}:
        res.fail(kind="oracle", function="resume path", what=f"resumed run {final.status} {dict(final.values)!r} differs from the run whose handlers return the same responses {dict(ref.values)!r}", replay=rep)


def run(tier, seed, functions):
    n = 120 if tier == "quick" else 2000
    res = Result("C14", "chains with 1..3 interrupts (single / multi output, renamed input), a concurrent sibling node, nesting depth 0..2 (pause identity), every pause/resume history with answers "
                 "drawn from truthy and falsy values; oracle = pause identity / shown value / no dependant ran / earlier values returned / resumed run equals the auto-resolved run",
                 {"cases": n})
    rng = random.Random(seed * 2293 + 14)
    for _ in range(n):
        k = rng.randint(1, 3)
        spec = {"n": k, "multi": rng.random() < 0.3, "rename": rng.random() < 0.3, "side": rng.random() < 0.6, "side_dep": rng.choice(["x", "d0", "d0"]), "depth": rng.choice([0, 0, 0, 1, 2]), "order_seed": rng.randrange(1000),
                "answers": [rng.choice(ANSWERS) for _ in range(k)]}
        check_spec(spec, res)
    # systematic part (independent of the dice above): interrupts that also EMIT an ordering signal awaited by another node
    for k in (1, 2, 3):
        for multi in (False, True):
            for rename in (False, True):
                for order_seed in (1, 2, 3):
                    check_spec({"n": k, "multi": multi, "rename": rename, "side": False, "side_dep": "x", "depth": 0, "order_seed": order_seed, "answers": [ANSWERS[(j + order_seed) % len(ANSWERS)] for j in range(k)],
                                "emit": True}, res)
    return res


def replay(rep):
    res = Result("C14", "", {})
    check_spec(rep["spec"], res)
    return [f["what"] for f in res.failures]
