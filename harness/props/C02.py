"""C02 bounded stand-in: same outcome under sync / async, every completion order (yield counts), every max_concurrency, node order."""
import itertools
import random

from hypergraph import AsyncRunner, SyncRunner

from harness import dag, flow
from harness.core import Log, Result, run_async, run_sync, set_case


def build(spec, yields=None, order=None, fail=(), sync=False):
    fam = spec["family"]
    if fam == "dag":
        if sync:
            spec = dict(spec, nodes=[dict(nd, **{"async": False}) for nd in spec["nodes"]])
        kw = {}
        for nd in spec["nodes"]:
            d = {}
            if yields and nd["name"] in yields:
                d["yields"] = yields[nd["name"]]
            if nd["name"] in fail:
                d["fail_when"] = lambda name, args: True
            kw[nd["name"]] = d
        return dag.build(spec, order=order, node_kwargs=kw)
    if fam == "gated":
        return flow.build_gated(spec)
    if fam == "loop":
        return flow.build_loop(spec)
    if fam == "machine":
        return flow.build_machine(spec)
    raise ValueError(fam)


def inputs_of(spec):
    fam = spec["family"]
    return spec["provided"] if fam == "dag" else {"x": spec["x"]} if fam == "gated" else {"c0": spec["start"]} if fam == "loop" else {"phase": spec["phases"][0], "sev": 1}


def check_spec(spec, res, variant):
    set_case("C02", spec, variant)
    fail = tuple(spec.get("fail", ()))
    ref_order = None
    if fail and variant["perm"] and spec["family"] == "dag":
        # node-list order independence is claimed for runs that do not fail; a failing run is compared on the same order
        ref_order = list(range(len(spec["nodes"])))
        random.Random(variant["yseed"] + 1).shuffle(ref_order)
    g0, log0 = build(spec, fail=fail, sync=True, order=ref_order)
    ref = run_sync(g0, inputs_of(spec), max_iterations=60)
    ref_ms = log0.multiset()
    res.case(repr((spec, variant)), nontrivial=len(log0.calls) > 1, sample={"spec": spec, "variant": variant, "sync_outcome": ref})
    problems = []
    # variant = (max_concurrency, yields seed, permute order?)
    mc, yseed, perm = variant["mc"], variant["yseed"], variant["perm"]
    yr = random.Random(yseed)
    yields = {nd["name"]: yr.randint(0, 3) for nd in spec.get("nodes", [])}
    order = None
    if perm and spec["family"] == "dag":
        order = list(range(len(spec["nodes"])))
        random.Random(yseed + 1).shuffle(order)
    g1, log1 = build(spec, yields=yields, order=order, fail=fail)
    kw = {"max_iterations": 60}
    if mc is not None:
        kw["max_concurrency"] = mc
    out = run_async(g1, inputs_of(spec), **kw)
    if ref["status"] in ("completed",):
        if out["status"] != ref["status"] or out["values"] != ref["values"]:
            problems.append(f"async(max_concurrency={mc}, yields={yields}, order={order}) outcome {out} differs from sync outcome {ref}")
        elif log1.multiset() != ref_ms:
            problems.append(f"async(max_concurrency={mc}) invocation multiset differs from sync: {sorted(log1.multiset().items())} vs {sorted(ref_ms.items())}")
    else:
        if out["status"] != ref["status"] or out["error"] != ref["error"]:
            problems.append(f"failing run: async(max_concurrency={mc}, yields={yields}) reports {out['status']} {out['error']}, sync reports {ref['status']} {ref['error']}")
    # continue mode: every partial value of the sync runner is returned identically by the async runner.
    # (Scope: programs without a signature default on an upstream-fed parameter. With such a default a node may start
    # early and legitimately re-run in the failing step; the async runner applies that successful sibling, the sync
    # runner stops at the first failure, so the two partial values of that name differ by construction - DESIGN 9.4.)
    early_start = spec["family"] == "dag" and any(p in dag.produced_names(spec) and p in nd["defaults"] for nd in spec["nodes"] for p in nd["params"])
    if fail and not early_start:
        g2, _ = build(spec, fail=fail, sync=True, order=order)
        g3, _ = build(spec, yields=yields, fail=fail, order=order)
        ps = run_sync(g2, inputs_of(spec), error_handling="continue")
        pa = run_async(g3, inputs_of(spec), error_handling="continue", **({"max_concurrency": mc} if mc is not None else {}))
        if ps["status"] == "failed":
            if pa["status"] != "failed" or pa["error"] != ps["error"]:
                problems.append(f"continue mode: async {pa['status']} {pa['error']} vs sync {ps['status']} {ps['error']}")
            elif any(pa["values"].get(k) != v for k, v in (ps["values"] or {}).items()):
                problems.append(f"continue mode: sync partial values {ps['values']} not all returned by async {pa['values']}")
    for pb in problems:
        res.fail(kind="oracle", function="run_superstep_async/_execute_graph_impl_async", what=pb, replay={"harness": "C02", "spec": spec, "runner": variant})


def gen(rng):
    fam = rng.choice(["dag", "dag", "dag", "gated", "loop", "machine"])
    if fam == "dag":
        spec = dag.gen_spec(rng, allow_async=True)
        for nd in spec["nodes"]:
            nd["async"] = True
            nd["rename_mode"] = None
        names = [nd["name"] for nd in spec["nodes"]]
        spec["fail"] = rng.sample(names, rng.choice([0, 0, 1, 2, 2])) if len(names) >= 2 else []
        return spec
    return {"gated": flow.gen_gated, "loop": flow.gen_loop, "machine": flow.gen_machine}[fam](rng)


def run(tier, seed, functions):
    n = 120 if tier == "quick" else 2500
    res = Result("C02", "mixed corpus (async DAGs with 0..2 failing nodes, gated DAGs, counter loops, routing state machines) x variants (max_concurrency in None/1/2, per-node yield counts "
                 "0..3 = completion orders, node-list permutation); oracle = SyncRunner outcome + invocation multiset; failing runs: same error, sync partial values returned by async",
                 {"programs": n, "variants_per_program": 4})
    rng = random.Random(seed * 6151 + 2)
    for _ in range(n):
        spec = gen(rng)
        for mc in (None, 1, 2):
            check_spec(spec, res, {"mc": mc, "yseed": rng.randrange(10**6), "perm": False})
        check_spec(spec, res, {"mc": None, "yseed": rng.randrange(10**6), "perm": True})
    return res


def replay(rep):
    res = Result("C02", "", {})
    check_spec(rep["spec"], res, rep["runner"])
    return [f["what"] for f in res.failures]
