"""C20 bounded stand-in: diagram data (interactive view + Mermaid) is self-consistent and faithful in every expansion state."""
import random
import re

from hypergraph import END, Graph
from hypergraph.viz.renderer import render_graph

from harness.core import Log, Result, set_case, tagged_node
from harness.flow import gate_node


# ------------------------------------------------------------------------------------------- program generator
def gen_spec(rng, depth=None):
    """A tree of graphs; each level: a chain of leaf nodes with shared inputs, optional gate (-> sibling / END), optional
    ordering edge, and at most one nested child graph consuming a value of this level (possibly by two inner consumers)."""
    depth = rng.randint(0, 2) if depth is None else depth
    counter = [0]

    def level(d, feed):
        lid = counter[0]
        counter[0] += 1
        n_leaf = rng.randint(1, 3)
        nodes, vals = [], [feed]
        for k in range(n_leaf):
            name = f"L{lid}n{k}"
            params = [rng.choice(vals)] + ([feed] if rng.random() < 0.4 and feed not in vals[-1:] else [])
            params = list(dict.fromkeys(params))
            out = f"v{lid}_{k}"
            nodes.append({"kind": "leaf", "name": name, "params": params, "out": out, "emit": None, "wait_for": None})
            vals.append(out)
        if n_leaf >= 2 and rng.random() < 0.4:
            nodes[0]["emit"] = f"sig{lid}"
            nodes[-1]["wait_for"] = f"sig{lid}"
        if rng.random() < 0.5:
            tgt = rng.choice([n["name"] for n in nodes])
            nodes.append({"kind": "gate", "name": f"L{lid}gate", "params": [rng.choice(vals)], "targets": [tgt, "END"] if rng.random() < 0.6 else [tgt, nodes[0]["name"]] if nodes[0]["name"] != tgt else [tgt, "END"]})
        if n_leaf >= 2 and rng.random() < 0.35:
            # sibling whose name merely extends another node's name (load / load_meta)
            old_name, new_name = nodes[1]["name"], nodes[0]["name"] + "_meta"
            for nd in nodes:
                if nd["kind"] == "gate":
                    nd["targets"] = [new_name if t == old_name else t for t in nd["targets"]]
            nodes[1]["name"] = new_name
        child = None
        if d > 0:
            child = level(d - 1, rng.choice(vals[1:] if len(vals) > 1 else vals))
            child["gname"] = f"G{lid}"
            if rng.random() < 0.6:
                # a sibling consuming an output of the nested graph; its name may extend the container's name
                cout = [nd["out"] for nd in child["nodes"] if nd["kind"] == "leaf"][-1]
                nodes.append({"kind": "leaf", "name": (f"G{lid}_stats" if rng.random() < 0.5 else f"L{lid}post"), "params": [cout], "out": f"v{lid}_post", "emit": None, "wait_for": None})
        return {"nodes": nodes, "child": child, "feed": feed}

    return {"family": "viz", "root": level(depth, "x"), "depth": depth, "order_seed": rng.randrange(1000)}


def build_level(lv, log, name=None):
    nodes = []
    for nd in lv["nodes"]:
        if nd["kind"] == "leaf":
            nodes.append(tagged_node(nd["name"], nd["params"], [nd["out"]], log, emit=((nd["emit"],) if nd["emit"] else ()), wait_for=((nd["wait_for"],) if nd["wait_for"] else ())))
        else:
            tg = [END if t == "END" else t for t in nd["targets"]]
            nodes.append(gate_node(nd["name"], "route", nd["params"], log, lambda a: None, targets=tg))
    if lv["child"] is not None:
        nodes.append(build_level(lv["child"], log, lv["child"]["gname"]).as_node())
    return Graph(nodes, name=name) if name else Graph(nodes)


# ------------------------------------------------------------------------------------------- expected structure
def structure(spec):
    """PARENT, DEPS (producer leaf id, consumer leaf id, kind, value), INPUT consumers, END gates - from the spec alone."""
    parent, deps, inputs, end_gates, containers = {}, [], {}, [], []

    def walk(lv, prefix, outer_producers):
        here = {}
        ids = {}
        for nd in lv["nodes"]:
            ids[nd["name"]] = prefix + nd["name"]
            if prefix:
                parent[ids[nd["name"]]] = prefix[:-1]
        for nd in lv["nodes"]:
            if nd["kind"] == "leaf":
                here[nd["out"]] = ids[nd["name"]]
                if nd["emit"]:
                    here[nd["emit"]] = ids[nd["name"]]
        prods = {**outer_producers, **here}
        if lv["child"] is not None:
            cprefix = prefix + lv["child"]["gname"] + "/"
            for nd in lv["child"]["nodes"]:
                if nd["kind"] == "leaf":
                    prods.setdefault(nd["out"], cprefix + nd["name"])
        for nd in lv["nodes"]:
            me = ids[nd["name"]]
            for p in nd["params"]:
                if p in prods:
                    deps.append((prods[p], me, "data", p))
                else:
                    inputs.setdefault(p, []).append(me)
            if nd["kind"] == "leaf" and nd["wait_for"] and nd["wait_for"] in prods:
                deps.append((prods[nd["wait_for"]], me, "ordering", nd["wait_for"]))
            if nd["kind"] == "gate":
                for t in nd["targets"]:
                    if t == "END":
                        end_gates.append(me)
                    else:
                        deps.append((me, ids[t], "control", "control"))
        if lv["child"] is not None:
            cid = prefix + lv["child"]["gname"]
            containers.append(cid)
            if prefix:
                parent[cid] = prefix[:-1]
            walk(lv["child"], cid + "/", prods)

    walk(spec["root"], "", {})
    return parent, deps, inputs, end_gates, containers


# ------------------------------------------------------------------------------------------- oracle (per state)
def check_state(label, node_ids, edges, expanded, S, san=lambda s: s, hidden_ids=frozenset()):
    parent, deps, inputs, end_gates, _ = S
    problems = []

    def chain(leaf):
        out = [leaf]
        while out[-1] in parent:
            out.append(parent[out[-1]])
        return out

    def visible(n):
        return all(a in expanded for a in chain(n)[1:])

    def reps(leaf):
        return {san(n) for n in chain(leaf) if visible(n)}

    def deepest(leaf):
        return next(n for n in chain(leaf) if visible(n))

    for s, t in edges:
        for end in (s, t):
            if end not in node_ids:
                problems.append(("consistency", f"{label}: edge {s} -> {t}: endpoint {end!r} is not a declared node of this state"))
            elif end in hidden_ids and not end.startswith("input_"):
                problems.append(("consistency", f"{label}: edge {s} -> {t}: endpoint {end!r} is hidden in this state"))
    vis_end = {san(g) for g in end_gates if visible(g)}
    end_src = {s for s, t in edges if t == "__end__"}
    for s in sorted(end_src - vis_end):
        problems.append(("soundness", f"{label}: edge {s} -> End starts at a node that is not a visible END-routing gate"))
    for s in sorted(vis_end - end_src):
        problems.append(("faithful", f"{label}: visible gate {s} routes to END but no edge to the End node is drawn"))
    edges = [(s, t) for s, t in edges if t != "__end__"]
    data_src = {t: s for s, t in edges if t.startswith("data_")}
    flat = set()
    for s, t in edges:
        if t.startswith("data_"):
            continue
        if s.startswith("data_"):
            if s not in data_src:
                problems.append(("consistency", f"{label}: DATA node {s} feeds {t} but has no producer edge"))
                continue
            s = data_src[s]
        flat.add((s, t))
    for param, consumers in inputs.items():
        srcs = {n for n in node_ids if n == f"input_{param}" or (n.startswith("input_group_") and param in n)}
        for c in consumers:
            # documented Mermaid simplification: the input edge to a gate's target is omitted when that gate consumes the
            # same input (the dependency is shown through the gate); graph inputs are not producer nodes
            gated_by = [p2 for p2, c2, k2, _v2 in deps if k2 == "control" and c2 == c]
            if label.startswith("mermaid") and any(g2 in consumers for g2 in gated_by):
                continue
            if not any(s in srcs and t in reps(c) for s, t in flat):
                others = [o for o in consumers if o != c and any(s in srcs and t in reps(o) for s, t in flat)]
                sig = "F8" if (others and c in parent) else None
                problems.append(("faithful", f"{label}: input {param!r} is not connected to its consumer {c!r}", sig))
    for p, c, kind, v in deps:
        if deepest(p) == deepest(c):
            continue
        if not any(s in reps(p) and t in reps(c) and s != t for s, t in flat):
            # known finding F8: a value entering an expanded container reaches only the first of several inner consumers,
            # or a producer hidden inside a collapsed inner container loses its edge
            # (the consumer that IS drawn must sit in the same container as the one that is not: a value that reaches a
            # root-level sibling instead of the container's inner consumer is a different defect and is reported)
            sibs = [c2 for p2, c2, k2, v2 in deps if p2 == p and v2 == v and c2 != c and parent.get(c2) == parent.get(c) and any(s in reps(p) and t in reps(c2) for s, t in flat)]
            sig = "F8" if (kind == "data" and (sibs or not visible(p) or not visible(c)) and (c in parent or p in parent)) else None
            problems.append(("faithful", f"{label}: {kind} dependency {p} --{v}--> {c} is not drawn between visible representatives", sig))
    for s, t in sorted(flat):
        if s.startswith("input_"):
            ok = any((s == f"input_{param}" or (s.startswith("input_group_") and param in s)) and t in reps(c) for param, cs in inputs.items() for c in cs)
        else:
            ok = any(s in reps(p) and t in reps(c) for p, c, _k, _v in deps)
        if not ok:
            problems.append(("soundness", f"{label}: edge {s} -> {t} corresponds to no dependency"))
    return problems


_EDGE_RE = re.compile(r"^\s*(\w+)\s+(?:-->|-\.->|==>)(?:\|[^|]*\|)?\s+(\w+)\s*$")
_NODE_RE = re.compile(r"^\s*(\w+)\s*(?:\[|\(|\{)")
_SUB_RE = re.compile(r"^\s*subgraph\s+(\w+)")


def check_spec(spec, res):
    set_case("C20", spec, "n/a")
    rep = {"harness": "C20", "spec": spec, "runner": "n/a"}
    log = Log()
    try:
        g = build_level(spec["root"], log)
    except Exception:  # noqa: BLE001 - random shapes may be legitimately rejected (e.g. gate self-loops)
        return
    S = structure(spec)
    parent, deps, inputs, end_gates, containers = S
    problems = []
    flatg = g.to_flat_graph()
    # the flattened graph lists every nested node exactly once under its parent
    ids = list(flatg.nodes())
    want = set(parent) | {n for n in ids if "/" not in n}
    if len(ids) != len(set(ids)) or not set(parent) <= set(ids):
        problems.append(("flatten", f"flattened graph node ids {sorted(ids)} do not list every nested node exactly once (expected to contain {sorted(parent)})"))
    for nid in parent:
        if nid in flatg.nodes and flatg.nodes[nid].get("parent") != parent[nid]:
            problems.append(("flatten", f"flattened node {nid} has parent {flatg.nodes[nid].get('parent')!r}, expected {parent[nid]!r}"))
    try:
        data = render_graph(flatg, depth=0)
        meta = data["meta"]
        if set(meta["nodesByState"]) != set(meta["edgesByState"]):
            problems.append(("consistency", "interactive: nodesByState and edgesByState have different state keys"))
        n_states = 0
        for key in sorted(meta["edgesByState"]):
            n_states += 1
            exp_part = key.split("|")[0]
            expanded = {item.rsplit(":", 1)[0] for item in exp_part.split(",") if item.endswith(":1")}
            nodes = meta["nodesByState"].get(key, [])
            nids = [n["id"] for n in nodes]
            if not nodes or (not meta["edgesByState"][key] and (deps or inputs)):
                problems.append(("consistency", f"interactive[{key}]: state without nodes or without edges"))
            vis_ids = [n["id"] for n in nodes if not n.get("hidden")]
            if len(vis_ids) != len(set(vis_ids)):
                problems.append(("consistency", f"interactive[{key}]: a visible node appears twice"))
            hidden = frozenset(n["id"] for n in nodes if n.get("hidden"))
            edges = [(e["source"], e["target"]) for e in meta["edgesByState"][key]]
            problems += check_state(f"interactive[{key}]", set(nids), edges, expanded, S, hidden_ids=hidden)
        if n_states < 2 ** 0:
            problems.append(("consistency", "interactive: no expansion state at all"))
    except Exception as e:  # noqa: BLE001
        problems.append(("crash", f"render_graph raised {type(e).__name__}: {str(e)[:200]}"))
    san = lambda s: s.replace("/", "__")
    for depth in range(0, spec["depth"] + 2):
        expanded = {c for c in containers if c.count("/") < depth}
        for sep in (False, True):
            try:
                src = g.to_mermaid(depth=depth, separate_outputs=sep).source
            except Exception as e:  # noqa: BLE001
                problems.append(("crash", f"to_mermaid(depth={depth}, separate_outputs={sep}) raised {type(e).__name__}: {str(e)[:200]}"))
                continue
            body = src.split("%% Styling")[0]
            declared, edges = [], []
            for line in body.splitlines():
                m = _EDGE_RE.match(line)
                if m:
                    edges.append((m.group(1), m.group(2)))
                    continue
                m = _SUB_RE.match(line)
                if m:
                    declared.append(m.group(1))
                    continue
                m = _NODE_RE.match(line)
                if m:
                    declared.append(m.group(1))
            label = f"mermaid[depth={depth},separate_outputs={sep}]"
            if len(declared) != len(set(declared)):
                problems.append(("consistency", f"{label}: a node is declared twice"))
            problems += check_state(label, set(declared), edges, expanded, S, san=san)
    res.case(repr(spec), nontrivial=spec["depth"] > 0, sample={"depth": spec["depth"], "containers": containers, "deps": len(deps)})
    for pb in problems:
        kind, text = pb[0], pb[1]
        sig = pb[2] if len(pb) > 2 else None
        res.fail(kind="oracle", function="viz renderer / mermaid", what=text, category=kind, finding_sig=sig, replay=rep)


def run(tier, seed, functions):
    n = 60 if tier == "quick" else 1000
    res = Result("C20", "random nested graphs (depth 0..2, plus a few of depth 3; shared inputs, gates to siblings / END, ordering edges, values entering a container) x every expansion state x both output modes "
                 "(interactive view) x every Mermaid depth x both output modes; oracle = structure computed from the spec alone: endpoints declared, each dependency drawn between visible "
                 "representatives, no edge without a dependency, flattened graph lists each nested node once under its parent", {"programs": n, "depth": "0..2"})
    res.failures = _Unlimited()
    rng = random.Random(seed * 2953 + 20)
    for _ in range(n):
        check_spec(gen_spec(rng), res)
    # systematic part (own dice): three levels of nesting - the innermost graph's edges are added by the second recursive
    # step of the flattening, which depth 0..2 never reaches
    rng3 = random.Random(seed * 7919 + 3)
    for _ in range(max(6, n // 10)):
        check_spec(gen_spec(rng3, depth=3), res)
    return res


class _Unlimited(list):
    """keep every non-F8 failure and at most a few F8 instances"""


def replay(rep):
    res = Result("C20", "", {})
    check_spec(rep["spec"], res)
    return [f["what"] for f in res.failures if not f.get("finding_sig")]
