"""Event recording and the span-tree checker shared by C12 / C13 / C08 stand-ins."""
from hypergraph.events import AsyncEventProcessor, EventProcessor


class Recorder(EventProcessor):
    def __init__(self, fail_at=None, fail_shutdown=False):
        self.events, self.shutdowns = [], 0
        self.fail_at, self.fail_shutdown = fail_at, fail_shutdown

    def on_event(self, event):
        i = len(self.events)
        self.events.append(event)
        if self.fail_at == "all" or self.fail_at == i:
            raise RuntimeError(f"processor failure at event {i}")

    def shutdown(self):
        self.shutdowns += 1
        if self.fail_shutdown:
            raise RuntimeError("processor failure at shutdown")


class AsyncRecorder(AsyncEventProcessor):
    def __init__(self, fail_at=None, fail_shutdown=False, suspend=True):
        self.events, self.shutdowns = [], 0
        self.fail_at, self.fail_shutdown, self.suspend = fail_at, fail_shutdown, suspend

    def on_event(self, event):
        self.events.append(event)

    async def on_event_async(self, event):
        import asyncio
        i = len(self.events)
        self.events.append(event)
        if self.suspend:
            await asyncio.sleep(0)
        if self.fail_at == "all" or self.fail_at == i:
            raise RuntimeError(f"async processor failure at event {i}")

    def shutdown(self):
        self.shutdowns += 1

    async def shutdown_async(self):
        self.shutdowns += 1
        if self.fail_shutdown:
            raise RuntimeError("async processor failure at shutdown")


def kind(e):
    return type(e).__name__


def tree_problems(events, expect_status=None, launcher_of=None):
    """Well-nested span tree: one RunStart first / one RunEnd last per run; every NodeStart closed by exactly one NodeEnd or
    NodeError of the same span; children closed before parents; nested runs parented to the node span that launched them;
    cache-hit / route-decision events inside the run (and node) they describe."""
    problems = []
    if not events:
        return problems
    open_runs, open_nodes = {}, {}  # span_id -> event
    closed = set()
    run_children = {}
    top = [e for e in events if kind(e) == "RunStartEvent" and e.parent_span_id is None]
    if len(top) != 1:
        problems.append(f"{len(top)} top-level RunStart events")
    if kind(events[0]) != "RunStartEvent":
        problems.append(f"first event is {kind(events[0])}, not RunStart")
    if kind(events[-1]) != "RunEndEvent" or events[-1].parent_span_id is not None:
        problems.append(f"last event is {kind(events[-1])} (parent {events[-1].parent_span_id}), not the top-level RunEnd")
    for e in events:
        k = kind(e)
        if k == "RunStartEvent":
            if e.span_id in open_runs or e.span_id in closed:
                problems.append(f"span {e.span_id} started twice")
            if e.parent_span_id is not None and e.parent_span_id not in open_nodes and e.parent_span_id not in open_runs:
                problems.append(f"nested run {e.graph_name} ({e.span_id}) started while its parent span {e.parent_span_id} is not open")
            open_runs[e.span_id] = e
        elif k == "RunEndEvent":
            if e.span_id not in open_runs:
                problems.append(f"RunEnd for span {e.span_id} that is not open")
            else:
                still = [n for n in open_nodes.values() if n.parent_span_id == e.span_id]
                if still:
                    problems.append(f"run {e.span_id} ended while node spans {[n.node_name for n in still]} are still open")
                still_r = [r for r in open_runs.values() if r.parent_span_id == e.span_id]
                if still_r:
                    problems.append(f"run {e.span_id} ended while child runs are still open")
                del open_runs[e.span_id]
                closed.add(e.span_id)
        elif k == "NodeStartEvent":
            if e.parent_span_id not in open_runs:
                problems.append(f"NodeStart {e.node_name} outside an open run (parent {e.parent_span_id})")
            if e.span_id in open_nodes or e.span_id in closed:
                problems.append(f"node span {e.span_id} started twice")
            open_nodes[e.span_id] = e
        elif k in ("NodeEndEvent", "NodeErrorEvent"):
            if e.span_id not in open_nodes:
                problems.append(f"{k} {e.node_name} for a span that is not open (closed twice or never started)")
            else:
                kids = [r for r in open_runs.values() if r.parent_span_id == e.span_id]
                if kids:
                    problems.append(f"node {e.node_name} closed before its nested run(s) {[r.graph_name for r in kids]}")
                del open_nodes[e.span_id]
                closed.add(e.span_id)
        elif k in ("CacheHitEvent", "RouteDecisionEvent"):
            if e.parent_span_id not in open_runs and e.parent_span_id not in open_nodes:
                problems.append(f"{k} for {e.node_name} outside the run it describes")
            if k == "CacheHitEvent" and e.span_id not in open_nodes:
                problems.append(f"CacheHit for {e.node_name} outside its node span")
    if open_nodes:
        problems.append(f"node spans never closed: {[n.node_name for n in open_nodes.values()]}")
    if open_runs:
        problems.append(f"runs never closed: {[r.graph_name for r in open_runs.values()]}")
    if launcher_of is not None:
        # nested runs must be parented to the span of the node that launched them
        node_span = {e.span_id: e.node_name for e in events if kind(e) == "NodeStartEvent"}
        for e in events:
            if kind(e) == "RunStartEvent" and e.parent_span_id is not None and e.parent_span_id in node_span:
                want = launcher_of.get(e.graph_name)
                if want is not None and node_span[e.parent_span_id] != want:
                    problems.append(f"nested run '{e.graph_name}' is parented to node '{node_span[e.parent_span_id]}', it was launched by '{want}'")
    if expect_status is not None:
        ends = [e for e in events if kind(e) == "RunEndEvent" and e.parent_span_id is None]
        if ends and ends[-1].status.value != expect_status:
            problems.append(f"top-level RunEnd status {ends[-1].status.value} but the caller observed {expect_status}")
        if len(ends) > 1:
            problems.append(f"{len(ends)} top-level RunEnd events")
    return problems


def stream_signature(events):
    return [(kind(e), getattr(e, "node_name", getattr(e, "graph_name", ""))) for e in events]
