"""Families 'gated', 'loop' and 'signal': programs with gates, cycles and ordering signals, each with an independent
reference semantics written from the property statements (not from the scheduler)."""
from __future__ import annotations

import random

from hypergraph import END, Graph, IfElseNode, RouteNode

from .core import Log, make_function, tagged_node


def gate_node(name, kind, params, log, decide, targets=None, when=None, default_open=True, multi_target=False, fallback=None, wait_for=(), emit=(), cache=False):
    """A gate whose routing function is `decide(args_dict)` (a Python callable evaluated at run time, logged)."""
    body = [f"_LOG.calls.append(({name!r}, {{{', '.join(f'{p!r}: {p}' for p in params)}}}))",
            f"return _LOG.decided({name!r}, _DECIDE({{{', '.join(f'{p!r}: {p}' for p in params)}}}))"]
    fn = make_function(name, params, {}, body, {"_LOG": log, "_DECIDE": decide})
    kw = {}
    if wait_for:
        kw["wait_for"] = tuple(wait_for) if len(wait_for) > 1 else wait_for[0]
    if emit:
        kw["emit"] = tuple(emit) if len(emit) > 1 else emit[0]
    if kind == "ifelse":
        return IfElseNode(fn, when_true=when[0], when_false=when[1], name=name, default_open=default_open, cache=cache, **kw)
    return RouteNode(fn, targets=targets, name=name, default_open=default_open, multi_target=multi_target, fallback=fallback, cache=cache, **kw)


# ----------------------------------------------------------------------------------------------- gated DAGs
def gen_gated(rng: random.Random):
    """src -> gate -> {branch_a, branch_b, (branch_c)} -> optional join; the gate reads graph inputs only, so it is runnable
    no later than its targets: exactly the selected branches may execute."""
    kind = rng.choice(["ifelse", "route", "route_multi"])
    n_br = 2 if kind == "ifelse" else rng.randint(2, 3)
    branches = [f"b{k}" for k in range(n_br)]
    use_end = kind != "ifelse" and rng.random() < 0.4
    sel = rng.randrange(n_br + (1 if use_end else 0) + (1 if kind != "ifelse" else 0))  # index, END, or None
    if kind == "route_multi":
        chosen = sorted(rng.sample(range(n_br), rng.randint(0, n_br)))
    else:
        chosen = [sel] if sel < n_br else []
    decision_kind = "end" if (kind == "route" and use_end and sel == n_br) else ("none" if (kind == "route" and sel >= n_br) else "target")
    if kind == "route" and decision_kind == "target":
        chosen = [min(sel, n_br - 1)]
    spec = {"family": "gated", "kind": kind, "branches": branches, "chosen": chosen, "decision_kind": decision_kind, "use_end": use_end,
            "default_open": rng.random() < 0.5, "branch_reads_src": rng.random() < 0.5, "second_gate": rng.random() < 0.3,
            "fallback": (rng.randrange(n_br) if kind == "route" and rng.random() < 0.3 else None), "x": rng.choice([0, 1, 5]), "explicit_edges": rng.random() < 0.35,
            "order_seed": rng.randrange(1000)}
    return spec


def build_gated(spec, log=None):
    log = log or Log()
    br = spec["branches"]
    kind = spec["kind"]
    nodes = [tagged_node("src", ["x"], ["s"], log)]
    chosen_names = [br[i] for i in spec["chosen"]]

    def decide(args):
        if kind == "ifelse":
            return spec["chosen"] == [0]
        if spec["decision_kind"] == "end":
            return END
        if kind == "route_multi":
            return list(chosen_names)
        if spec["decision_kind"] == "none":
            return None
        return chosen_names[0]

    targets = list(br) + ([END] if spec["use_end"] else [])
    fb = br[spec["fallback"]] if spec["fallback"] is not None else None
    if kind == "ifelse":
        g = gate_node("gate", "ifelse", ["x"], log, decide, when=(br[0], br[1]), default_open=spec["default_open"])
    else:
        g = gate_node("gate", "route", ["x"], log, decide, targets=targets, default_open=spec["default_open"], multi_target=(kind == "route_multi"), fallback=fb)
    nodes.append(g)
    for b in br:
        nodes.append(tagged_node(b, ["s"] if spec["branch_reads_src"] else ["x"], [f"out_{b}"], log))
    if spec["second_gate"]:
        # a second gate sharing target b0, always choosing b0's sibling: b0 runs iff SOME controlling gate selects it
        nodes.append(gate_node("gate2", "route", ["x"], log, lambda a: br[1], targets=[br[0], br[1]], default_open=spec["default_open"]))
    rng = random.Random(spec["order_seed"])
    rng.shuffle(nodes)
    if spec.get("explicit_edges"):
        # explicit-edges mode: every data edge is declared, plus the gate -> target pairs as ordering-only edges
        edges = []
        for b in br:
            edges.append(("src", b, "s") if spec["branch_reads_src"] else None)
            edges.append(("gate", b))
            if spec["second_gate"] and b in (br[0], br[1]):
                edges.append(("gate2", b))
        return Graph(nodes, edges=[e for e in edges if e is not None]), log
    return Graph(nodes), log


def expect_gated(spec):
    """Branches that must run / must not run, from the property text."""
    br = spec["branches"]
    selected = set()
    if spec["decision_kind"] == "target" or spec["kind"] == "route_multi":
        selected |= {br[i] for i in spec["chosen"]}
    if spec["kind"] == "route" and spec["decision_kind"] == "none" and spec["fallback"] is not None:
        selected.add(br[spec["fallback"]])
    if spec["kind"] == "ifelse":
        selected = {br[0]} if spec["chosen"] == [0] else {br[1]}
    if spec["second_gate"]:
        selected.add(br[1])
    return selected


# ----------------------------------------------------------------------------------------------- loops
def gen_loop(rng: random.Random):
    return {"family": "loop", "emit_from": rng.choice(["last", "last", "first"]), "limit": rng.randint(0, 5), "body_len": rng.randint(1, 3), "gate": rng.choice(["route", "ifelse"]), "exit": rng.choice(["END", "node"]),
            "sync": rng.choice(["direct", "direct", "signal"]), "nested": rng.random() < 0.25, "start": rng.choice([0, 0, 2]), "order_seed": rng.randrange(1000),
            "max_iterations": rng.choice([None, None, "exact", "short", 1000])}


def build_loop(spec, log=None):
    """count -> body_1 .. body_k (each +1 on its own stage value) -> gate decides from the last stage value.

    direct: the gate reads the value produced by the last body node.  signal: the last body node emits 'done' and the gate
    waits for it (reading the counter).  Sequential meaning: while count < limit: run the body chain once."""
    log = log or Log()
    k = spec["body_len"]
    names = [f"body{j}" for j in range(k)]
    nodes = []
    # stage values: c0 (loop variable, provided initially) -> c1 -> ... -> ck ; the last body node writes c0 again
    for j, n in enumerate(names):
        src = f"c{j}"
        dst = f"c{j + 1}" if j < k - 1 else "c0"
        emit_at = k - 1 if spec.get("emit_from", "last") == "last" else 0
        emit = ("done",) if (spec["sync"] == "signal" and j == emit_at) else ()
        nodes.append(tagged_node(n, [src], [dst], log, op="sum", emit=emit))
    limit = spec["limit"]
    exit_target = END if spec["exit"] == "END" else "finish"

    def decide(args):
        more = args["c0"] < limit
        if spec["gate"] == "ifelse":
            return more
        return names[0] if more else exit_target

    wf = ("done",) if spec["sync"] == "signal" else ()
    if spec["gate"] == "ifelse":
        g = gate_node("gate", "ifelse", ["c0"], log, decide, when=(names[0], exit_target), wait_for=wf)
    else:
        g = gate_node("gate", "route", ["c0"], log, decide, targets=[names[0], exit_target], wait_for=wf)
    nodes.append(g)
    if spec["exit"] == "node":
        nodes.append(tagged_node("finish", ["c0"], ["final"], log, op="sum"))
    rng = random.Random(spec["order_seed"])
    rng.shuffle(nodes)
    graph = Graph(nodes, name="loop")
    if spec["nested"] and spec["body_len"] == 1 and spec["exit"] == "node":
        # expose only the exit value, so that the wrapper is not itself a cycle of the outer graph
        graph = Graph([graph.select("final").as_node()], name="outer")
    return graph, log


def expect_loop(spec):
    """Sequential while-loop: returns (body executions per body node, final counter, finish ran)."""
    c = spec["start"]
    k = spec["body_len"]
    runs = 0
    if spec["sync"] == "signal":
        # the gate waits for the end-of-iteration signal: the first body pass runs before the first decision (do-while)
        c += k
        runs += 1
    while c < spec["limit"]:
        c += k
        runs += 1
    return runs, c


# ----------------------------------------------------------------------------------------------- ordering signals (DAG)
def gen_signal(rng: random.Random):
    return {"family": "signal", "n_waiters": rng.randint(1, 2), "producer_kind": rng.choice(["function", "gate"]), "chain": rng.randint(0, 2), "order_seed": rng.randrange(1000),
            "waiter_has_data": rng.random() < 0.5}


def build_signal(spec, log=None):
    """prod (emit 'sig', after a data chain of length `chain`) ; waiters wait_for 'sig' (optionally also consuming data)."""
    log = log or Log()
    nodes = []
    prev = "x"
    for j in range(spec["chain"]):
        nodes.append(tagged_node(f"pre{j}", [prev], [f"p{j}"], log))
        prev = f"p{j}"
    if spec["producer_kind"] == "function":
        nodes.append(tagged_node("prod", [prev], ["pv"], log, emit=("sig",)))
    else:
        nodes.append(gate_node("prod", "route", [prev], log, lambda a: None, targets=["sink", END], emit=("sig",)))
        nodes.append(tagged_node("sink", ["x"], ["sink_out"], log))
    for w in range(spec["n_waiters"]):
        nodes.append(tagged_node(f"wait{w}", ["x"] if spec["waiter_has_data"] else [], [f"w{w}"], log, wait_for=("sig",)))
    rng = random.Random(spec["order_seed"])
    rng.shuffle(nodes)
    return Graph(nodes), log


# ----------------------------------------------------------------------------------------------- routing state machines
def gen_machine(rng: random.Random):
    """Two-level routing loops (dispatch gate -> optional inner gate -> workers that advance a shared `phase`)."""
    n_phase = rng.randint(1, 3)
    n_workers = rng.randint(1, 3)
    workers = [f"w{k}" for k in range(n_workers)]
    inner = rng.random() < 0.6
    phases = [f"p{k}" for k in range(n_phase)] + ["done"]
    spec = {"family": "machine", "phases": phases, "workers": workers, "inner": inner, "inner_kind": rng.choice(["ifelse", "route"]) if n_workers >= 2 else "route",
            "dispatch_open": rng.random() < 0.7, "inner_open": rng.random() < 0.7, "finish": rng.choice(["node", "END"]), "order_seed": rng.randrange(1000),
            "worker_next": {w: {ph: rng.randint(i + 1, n_phase) for i, ph in enumerate(phases[:-1])} for w in workers},
            "dispatch_table": {}, "inner_table": {}, "extra_output": rng.random() < 0.5}
    for i, ph in enumerate(phases[:-1]):
        spec["dispatch_table"][ph] = ("inner" if rng.random() < 0.6 else workers[0]) if inner else rng.choice(workers)
        spec["inner_table"][ph] = rng.choice(workers[:2] if spec["inner_kind"] == "ifelse" else workers)
    return spec


def build_machine(spec, log=None):
    log = log or Log()
    phases, workers = spec["phases"], spec["workers"]
    fin = "finish" if spec["finish"] == "node" else END
    nodes = []
    d_targets = (["inner", workers[0]] if spec["inner"] else list(workers)) + [fin]

    def d_decide(a):
        return fin if a["phase"] == "done" else spec["dispatch_table"][a["phase"]]

    nodes.append(gate_node("dispatch", "route", ["phase"], log, d_decide, targets=d_targets, default_open=spec["dispatch_open"]))
    if spec["inner"]:
        def i_decide(a):
            t = spec["inner_table"].get(a["phase"], workers[0])
            return (t == workers[0]) if spec["inner_kind"] == "ifelse" else t
        if spec["inner_kind"] == "ifelse":
            nodes.append(gate_node("inner", "ifelse", ["phase", "sev"], log, i_decide, when=(workers[0], workers[1]), default_open=spec["inner_open"]))
        else:
            nodes.append(gate_node("inner", "route", ["phase", "sev"], log, i_decide, targets=list(workers), default_open=spec["inner_open"]))
    for w in workers:
        table = spec["worker_next"][w]
        body = [f"_LOG.calls.append(({w!r}, {{'phase': phase, 'sev': sev}}))", f"return _PH[_T.get(phase, len(_PH) - 1)]"]
        fn = make_function(w, ["phase", "sev"], {}, body, {"_LOG": log, "_PH": phases, "_T": table})
        from hypergraph import FunctionNode
        if w == workers[0]:
            nodes.append(FunctionNode(fn, name=w, output_name="phase"))  # the only worker that advances the shared state
        else:
            nodes.append(FunctionNode(fn, name=w, output_name=f"side_{w}"))
    if spec["finish"] == "node":
        nodes.append(tagged_node("finish", ["phase"], ["summary"], log))
    rng = random.Random(spec["order_seed"])
    rng.shuffle(nodes)
    return Graph(nodes, name="machine"), log


def gate_trace_violations(graph, log):
    """Generic oracle from the C03 statement, on the execution log of ANY program: a gated node starts only if some
    controlling gate's most recent decision names it, or a default-open controlling gate has not decided yet in this run."""
    problems = []
    ctl = graph.controlled_by
    for pos, (name, _args) in enumerate(log.calls):
        gates = ctl.get(name) or []
        if not gates:
            continue
        ok = False
        for g in gates:
            prior = [d for p, gn, d in log.decisions if gn == g and p <= pos]
            if not prior:
                gnode = graph.nodes.get(g)
                if gnode is not None and getattr(gnode, "default_open", True):
                    ok = True
                continue
            last = prior[-1]
            gnode = graph.nodes.get(g)
            if isinstance(gnode, IfElseNode) and isinstance(last, bool):
                last = gnode.when_true if last else gnode.when_false
            if last is END or last is None:
                continue
            if (name in last) if isinstance(last, list) else (last == name):
                ok = True
        if not ok:
            problems.append(f"gated node {name} started (call #{pos}) although no controlling gate's latest decision names it and every controlling gate has already decided "
                            f"(gates={gates}, decisions so far={[(gn, 'END' if d is END else d) for p, gn, d in log.decisions if p <= pos]})")
    return problems


# ----------------------------------------------------------------------------------------------- ticker / watcher (signals in cycles)
def gen_ticker(rng: random.Random):
    return {"family": "ticker", "limit": rng.randint(1, 4), "chain": rng.randint(0, 3), "watch_first": rng.random() < 0.5, "n_watch": rng.randint(1, 2), "async": rng.random() < 0.5,
            "watch_data": rng.random() < 0.7}


def build_ticker(spec, log=None):
    """tick: gated loop body emitting 'ticked' on every run; watchers wait for 'ticked' and (optionally) need a data value
    that arrives `chain` supersteps late."""
    log = log or Log()
    a = spec["async"]
    tick = tagged_node("tick", ["count"], ["count"], log, op="sum", emit=("ticked",), is_async=a)
    again = gate_node("again", "route", ["count"], log, lambda args: "tick" if args["count"] < spec["limit"] else END, targets=["tick", END])
    chain, prev = [], "x"
    for j in range(spec["chain"]):
        chain.append(tagged_node(f"s{j}", [prev], [f"v{j}"], log, is_async=a))
        prev = f"v{j}"
    two = spec.get("two_names")  # None | "tick_first" | "ready_first": watchers also wait for a ONE-SHOT signal 'ready'
    waits = ("ticked",) if not two else (("ticked", "ready") if two == "tick_first" else ("ready", "ticked"))
    data = ["count"] if spec.get("watch_count") else ([prev] if spec["watch_data"] else [])
    if spec.get("watch_count") and spec["chain"]:
        data = ["count", prev]  # re-triggered by every iteration, first possible once the delayed value has arrived
    watchers = [tagged_node(f"watch{w}", data, [f"seen{w}"], log, wait_for=waits, is_async=a) for w in range(spec["n_watch"])]
    extra = [tagged_node("init", ["x"], [], log, emit=("ready",), is_async=a)] if two else []
    nodes = (watchers + extra + [tick, again] + chain) if spec["watch_first"] else (extra + [tick, again] + chain + watchers)
    return Graph(nodes), log


def ordering_violations(graph, log):
    """Generic oracle from the C17 statement on the step-stamped execution log of ANY program."""
    problems = []
    producers = {}
    for n in graph.nodes.values():
        for o in n.outputs:
            producers.setdefault(o, set()).add(n.name)
    calls = [(log.calls.steps[i], name) for i, (name, _a) in enumerate(log.calls)]
    last_run = {}
    for i, (step, name) in enumerate(calls):
        node = graph.nodes.get(name)
        for w in (getattr(node, "wait_for", ()) or ()):
            prods = producers.get(w, set()) - {name}
            if not prods:
                continue
            before = [s for s, n in calls[:i] if n in prods and s < step]
            same = [n for s, n in calls if n in prods and s == step]
            if not before:
                problems.append(f"{name} (step {step}) started before any producer of awaited name '{w}' had completed")
            if same:
                problems.append(f"{name} started in the same step ({step}) as producer {same[0]} of awaited name '{w}'")
            if name in last_run and not [s for s in before if s >= last_run[name]]:
                problems.append(f"{name} ran again at step {step} although '{w}' was not produced again since its previous run at step {last_run[name]}")
        last_run[name] = step
    return problems
