"""pyvc: verification-condition generation for one contracted function."""
from __future__ import annotations

import ast
import copy
import z3

from . import smt
from .smt import V, Heap
from .values import (ANY, STR, INT, BOOL, NONE_T, EXC, SEQ, DICT, SET, OBJ, OPT, Val, BVal, IVal, TupVal, PyVal, SeqView, BoundMethod,
                     Raised, Unsupported, strip_opt)
from .engine import St, REG, to_v, lift, truth, as_int, eq, alloc, alloc_seq, alloc_dict, alloc_set, type_facts
from .exec import Executor, Outcome, Obligation, NORMAL
from . import stmts, calls


def parse_clause(text: str) -> ast.expr:
    return ast.parse(text.strip(), mode="eval").body


class FunctionVC(Executor):
    def __init__(self, project, key: str, contract: dict, check_feasible=True):
        path, qual = key.split(":")
        module_name = "hypergraph." + path[:-3].replace("/", ".")
        super().__init__(project, module_name, qual, contract, check_feasible)
        self.key = key
        self.func_ast = project.function_ast(key)
        self.exc_info = {}
        self._loops = [n for n in ast.walk(self.func_ast) if isinstance(n, (ast.For, ast.AsyncFor, ast.While))]
        self._loops.sort(key=lambda n: (n.lineno, n.col_offset))
        self.writes = []
        self.paths = []
        self.dropped = set()
        from . import engine as _engine
        from .rewrite import HeapRewriter
        from . import rewrite as _rewrite
        _rewrite.PRIVATE.update(f"A_{a}" for a in getattr(self.model.decl, "PRIVATE_ATTRS", []))
        region = getattr(self.model.decl, "REGION_ATTRS", [])
        _engine.VIEW_NORMALIZER[0] = lambda term, st: HeapRewriter(st.pc, region, st.fresh).rw(term)

    # ------------------------------------------------------------------ hooks used by the executor
    def loop_ordinal(self, node):
        for i, n in enumerate(self._loops):
            if n is node:
                return i
        # loops inside inlined spec functions / closures
        return 10_000

    def note_write(self, s, kind, base):
        self.writes.append((kind, base, list(s.pc)))

    def describe(self, v):
        if isinstance(v, Val):
            return str(v.t)
        return repr(v)

    def eval_clause(self, text, s: St):
        """Evaluate a contract/invariant expression (pure) to a z3 Bool in state s."""
        e = parse_clause(text) if isinstance(text, str) else text
        self.pure_depth += 1
        try:
            s2 = s.fork()
            v = self.ev1(e, s2)
            # facts introduced while evaluating (views, allocations) are definitional: keep them as hypotheses
            extra = s2.pc[len(s.pc):]
            g = truth(v, s2)
            return z3.Implies(z3.And(*extra), g) if extra else g
        finally:
            self.pure_depth -= 1

    def eval_clause_assume(self, text, s: St):
        """Evaluate a clause for ASSUMING it: definitional facts are added to the state."""
        e = parse_clause(text) if isinstance(text, str) else text
        self.pure_depth += 1
        try:
            v = self.ev1(e, s)
            return truth(v, s)
        finally:
            self.pure_depth -= 1

    def eval_old(self, e, s: St):
        s0 = St(list(s.pc), {**s.env, **self.env0}, self.heap0, [], list(s.fresh))
        # `old` may mention result-independent locals only
        self.pure_depth += 1
        try:
            v = self.ev1(e, s0)
        finally:
            self.pure_depth -= 1
        s.pc[:] = s0.pc
        return v

    def exception_from_value(self, v, s):
        if isinstance(v, PyVal) and isinstance(v.obj, type) and issubclass(v.obj, BaseException):
            REG.add(v.obj)
            exc = alloc(s, "exc", EXC)
            s.assume(smt.is_exc(exc.t), smt.inst_pred(v.obj.__name__)(exc.t))
            return Raised(v.obj.__name__, exc, {"exact": True})
        if isinstance(v, Val):
            info = self.exc_info.get(v.t.get_id())
            if info is not None:
                return Raised(info["cls"], v, {"exact": True, **info})
            # re-raising a caught / received exception object
            r = self.exc_objects.get(v.t.get_id()) if hasattr(self, "exc_objects") else None
            if r is not None:
                return r
            cls = strip_opt(v.ty)[1] if strip_opt(v.ty)[0] == "obj" else "BaseException"
            return Raised(cls, v, {"exact": False})
        raise Unsupported(f"raise of {v!r}")

    def exception_value(self, r: Raised, s):
        if r.exc is None:
            exc = alloc(s, "exc", EXC)
            REG.add(calls._exc_class(r.cls))
            s.assume(smt.is_exc(exc.t), smt.inst_pred(r.cls)(exc.t))
            r.exc = exc
        if not hasattr(self, "exc_objects"):
            self.exc_objects = {}
        self.exc_objects[r.exc.t.get_id()] = r
        cls = r.cls if self.model.has_class(r.cls) else None
        return Val(r.exc.t, OBJ(cls) if cls else EXC)

    def handler_matches(self, h: ast.ExceptHandler, r: Raised, s: St):
        """yields (state, bool): does handler h catch r?"""
        if h.type is None:
            yield s, True
            return
        tv = self.ev1(h.type, s)
        classes = [x.obj for x in (tv.items if isinstance(tv, TupVal) else [tv])]
        rc = calls._exc_class(r.cls)
        for c in classes:
            REG.add(c)
        if any(issubclass(rc, c) for c in classes):
            yield s, True
            return
        if r.info.get("exact", True):
            yield s, False
            return
        # statically unknown subclass of rc: may or may not match handlers for subclasses of rc
        cands = [c for c in classes if issubclass(c, rc)]
        if not cands:
            yield s, False
            return
        if r.exc is None:
            self.exception_value(r, s)
        pred = z3.Or(*[smt.inst_pred(c.__name__)(r.exc.t) for c in cands])
        s_yes = s.fork().assume(pred)
        s_no = s.fork().assume(z3.Not(pred))
        if self.feasible(s_yes):
            yield s_yes, True
        if self.feasible(s_no):
            yield s_no, False

    # ------------------------------------------------------------------ calls into the repo
    def call_method(self, recv: Val, name, args, kwargs, s: St, as_property=False):
        cls = strip_opt(recv.ty)[1]
        # contracted method?
        for cn, file in self.model.class_prefix(cls, name):
            key = f"{file}:{cn}.{name}"
            if key in self.project.contracts:
                if self.project.contracts[key].get("call_site") == "opaque" and self.model.method_decl(cls, name) is not None:
                    # verified on its own under stated preconditions; callers keep the object model's declaration
                    self.assumptions.add(f"call-site preconditions of {key} assumed (contract not applied at call sites)")
                    break
                yield from self.call_repo_function(key, None, recv, args, kwargs, s)
                return
        decl = self.model.method_decl(cls, name)
        if decl is None:
            raise Unsupported(f"method {cls}.{name} not in the object model")
        yield from self.apply_decl(recv, name, decl, args, kwargs, s)

    def call_any_method(self, recv, name, args, kwargs, s):
        decl = getattr(self.model.decl, "ANY_METHODS", {}).get(name)
        if decl is None:
            raise Unsupported(f"method {name} on untyped value")
        yield from self.apply_decl(recv, name, decl, args, kwargs, s)

    def apply_decl(self, recv, name, decl, args, kwargs, s):
        """decl: {'returns': ty, 'pure': bool, 'raises': [...], 'custom': fn}."""
        if "custom" in decl:
            yield from decl["custom"](self, recv, args, kwargs, s)
            return
        if decl.get("pure", True):
            allargs = list(args) + [kwargs[k] for k in sorted(kwargs)]
            f = smt.meth_func(name, len(allargs))
            t = f(recv.t, *[to_v(a, s) for a in allargs])
            ty = decl.get("returns", ANY)
            self.model.used.add(f"method .{name}(): pure uninterpreted function of (self, args), returns {ty}, raises {decl.get('raises', [])}")
            for cls_name, cond in decl.get("raises_if", {}).items():
                raise Unsupported("raises_if on pure decl")
            v = Val(t, ty)
            s.assume(*type_facts(v, s))
            if ty == BOOL:
                v = BVal(t == smt.TRUE)
            elif ty == INT:
                v = IVal(smt.ival(t))
            yield s, v
            return
        if decl.get("coroutine"):
            # calling a coroutine function only creates the coroutine object: body effects and exceptions happen at `await`
            yield s, PyVal(("coro", f".{name}", decl, {"self": recv, "args": args, "kwargs": kwargs}), f"coro:{name}")
            return
        s.trace.append(("call", f".{name}", {"self": recv, "args": args, "kwargs": kwargs}))
        yield from calls.opaque_result(self, f".{name}", s, decl.get("returns", ANY), decl)

    def call_repo_function(self, key, fobj, recv, args, kwargs, s: St, constructing=None):
        contract = self.project.contracts.get(key)
        if contract is not None and contract.get("call_site") == "opaque":
            # verified on its own under its stated call-site preconditions; callers keep treating it as an uncontracted
            # callee (its preconditions are NOT discharged at the call sites: listed as an assumption)
            self.assumptions.add(f"call-site preconditions of {key} assumed (contract not applied at call sites)")
            contract = None
        if contract is None:
            name = key.split(":")[1]
            decl = self.model.opaque_decl(name)
            if decl.get("pure") and not kwargs:
                # declared PURE and total (assumed contract): an uninterpreted function of its arguments
                from .values import BVal, IVal
                f = z3.Function("F_" + name.replace(".", "_"), *([smt.V] * len(args)), smt.V)
                t = f(*[to_v(a, s) for a in args])
                rty = decl.get("returns", ANY)
                yield s, (BVal(t == smt.TRUE) if rty == BOOL else IVal(smt.ival(t)) if rty == INT else Val(t, rty))
                return
            if decl.get("pure_content") == "dict" and not kwargs:
                # declared total; returns a FRESH dict whose CONTENT is a deterministic function of the arguments
                # (assumed contract): membership / value / size are uninterpreted functions of the argument values
                kty, vty = decl.get("returns", DICT(STR, ANY))[1:3]
                r = alloc_dict(s, kty, vty)
                base = "C_" + name.replace(".", "_")
                a = [to_v(x, s) for x in args]
                sorts = [smt.V] * len(a)
                dh = z3.Function(base + "_has", *sorts, z3.ArraySort(smt.V, z3.BoolSort()))(*a)
                dv = z3.Function(base + "_val", *sorts, z3.ArraySort(smt.V, smt.V))(*a)
                dn = z3.Function(base + "_len", *sorts, z3.IntSort())(*a)
                h = s.heap
                s.heap = h.with_comp("dh", z3.Store(h.c["dh"], r.t, dh)).with_comp("dv", z3.Store(h.c["dv"], r.t, dv)).with_comp("dn", z3.Store(h.c["dn"], r.t, dn))
                s.assume(*smt.heap_wellformed_ref(s.heap, r.t, "d"))
                s.trace.append(("call", name, {"args": args, "kwargs": kwargs}))
                yield s, r
                return
            s.trace.append(("call", name, {"args": args, "kwargs": kwargs}))
            yield from calls.opaque_result(self, name, s, ANY)
            return
        yield from self.apply_contract(key, contract, recv, args, kwargs, s)

    def contract_imports(self, contract):
        import importlib
        out = {}
        for name, mod in contract.get("imports", {}).items():
            out[name] = lift(getattr(importlib.import_module(mod), name), name)
        return out

    def bind_params(self, key, contract, recv, args, kwargs):
        fa = self.project.function_ast(key)
        a = fa.args
        names = [x.arg for x in a.posonlyargs + a.args]
        bound = {}
        pos = list(args)
        if recv is not None:
            pos = [recv] + pos
        for n, v in zip(names, pos):
            bound[n] = v
        if len(pos) > len(names):
            raise Unsupported(f"too many positional args for {key}")
        for k, v in kwargs.items():
            bound[k] = v
        # defaults
        defaults = a.defaults
        dnames = names[len(names) - len(defaults):]
        mod = self.project.import_module("hypergraph." + key.split(":")[0][:-3].replace("/", "."))
        for n, d in zip(dnames, defaults):
            if n not in bound:
                bound[n] = self.const_default(d, mod)
        for ka, d in zip(a.kwonlyargs, a.kw_defaults):
            if ka.arg not in bound and d is not None:
                bound[ka.arg] = self.const_default(d, mod)
        return bound

    def const_default(self, d, mod):
        if isinstance(d, ast.Constant):
            return lift(d.value)
        if isinstance(d, ast.Name) and hasattr(mod, d.id):
            return lift(getattr(mod, d.id), d.id)
        raise Unsupported("non-constant default")

    def apply_contract(self, key, contract, recv, args, kwargs, s: St):
        """Modular call: check requires, havoc modifies, assume ensures, fork declared raises."""
        bound = self.bind_params(key, contract, recv, args, kwargs)
        for pn, pty in contract.get("params", {}).items():
            v = bound.get(pn)
            if isinstance(v, Val) and strip_opt(v.ty)[0] == "any" and pty not in (ANY, BOOL, INT):
                bound[pn] = Val(v.t, pty)  # the callee's declared parameter type (type correctness of the call is assumed)
        bound.update(self.contract_imports(contract))
        # names the callee's clauses take from the CALLEE's module globals (e.g. an enum imported there)
        try:
            cmod = self.project.import_module("hypergraph." + key.split(":")[0][:-3].replace("/", "."))
            texts = list(contract.get("requires", [])) + list(contract.get("ensures", [])) + [c for c in list(contract.get("raises", {}).values()) + list(contract.get("may_raise", {}).values()) if isinstance(c, str)]
            for text in texts:
                for n in ast.walk(parse_clause(text)):
                    if isinstance(n, ast.Name) and n.id not in bound and n.id not in self.project.spec_functions and hasattr(cmod, n.id) and not hasattr(__import__("builtins"), n.id):
                        bound[n.id] = lift(getattr(cmod, n.id), n.id)
        except (ImportError, SyntaxError):
            pass
        name = key.split(":")[1]
        call_rec = dict(bound)
        s.trace.append(("call", name, call_rec))
        cs = St(list(s.pc), dict(bound), s.heap, [], list(s.fresh))
        saved_env0, saved_heap0 = self.env0, self.heap0
        pre_heap = s.heap
        # preconditions
        for k, req in enumerate(contract.get("requires", [])):
            g = self.with_old(bound, pre_heap, lambda: self.eval_clause(req, cs))
            self.oblige(f"call:{name}.requires{k}", "callee-pre", s, g, {"clause": req, "callee": key})
            s.assume(g)
        # exceptional outcomes
        normal_conds = []
        for cls, cond in contract.get("raises", {}).items():
            c = self.with_old(bound, pre_heap, lambda: self.eval_clause_assume(cond, cs)) if cond not in (True, "True") else z3.BoolVal(True)
            s.pc[:] = cs.pc if len(cs.pc) > len(s.pc) else s.pc
            s_r = s.fork().assume(c)
            if self.feasible(s_r):
                REG.add(calls._exc_class(cls))
                s_r.trace.append(("raised-by", name, cls))
                yield s_r, Raised(cls, None, {"exact": True, "by": name})
            normal_conds.append(z3.Not(c))
        for cls, cond in contract.get("may_raise", {}).items():
            c = self.with_old(bound, pre_heap, lambda: self.eval_clause_assume(cond, cs)) if cond not in (True, "True") else z3.BoolVal(True)
            s_r = s.fork().assume(c)
            if z3.is_true(c) or self.feasible(s_r):
                REG.add(calls._exc_class(cls))
                s_r.trace.append(("raised-by", name, cls))
                yield s_r, Raised(cls, None, {"exact": cls not in ("Exception", "BaseException"), "by": name})
        s.assume(*normal_conds)
        if normal_conds and not self.feasible(s):
            return
        # frame: havoc what the callee may modify
        clock0 = smt._clock[0]
        post = St(s.pc, dict(bound), s.heap, [], s.fresh)
        for m in contract.get("modifies", []):
            mv = self.with_old(bound, pre_heap, lambda: self.ev1(parse_clause(m), cs))
            k = strip_opt(mv.ty)[0]
            if k not in ("dict", "set", "seq"):
                # an object named in `modifies` (a constructor's `self`): its fields are attribute functions / field arrays,
                # not container components; nothing to forget for a callee-constructed object
                continue
            for comp in {"dict": ("dh", "dv", "dn"), "set": ("sh", "sn"), "seq": ("sl", "sa")}.get(k, ()):
                post.heap = post.heap.havoc_ref(comp, mv.t)
            post.assume(*smt.heap_wellformed_ref(post.heap, mv.t, {"dict": "d", "set": "s", "seq": "q"}[k]))
            self.note_write(post, k, mv)
        # result
        rty = contract.get("returns", ANY)
        result = None
        ens = list(contract.get("ensures", []))
        if contract.get("pure") and recv is not None and not contract.get("modifies"):
            # a PURE method of an immutable object: the result is the object model's uninterpreted function of
            # (self, args) -- every call site and every spec mention share the term; the ensures are facts about it
            allargs = list(args) + [kwargs[k] for k in sorted(kwargs)]
            t = smt.meth_func(name.split(".")[-1], len(allargs))(recv.t, *[to_v(a, post) for a in allargs])
            result = BVal(t == smt.TRUE) if rty == BOOL else IVal(smt.ival(t)) if rty == INT else Val(t, rty)
            if not self.pure_depth:
                post.assume(*type_facts(result, post))
        elif contract.get("fresh_result"):
            result = alloc(post, "res", rty)
            post.assume(*type_facts(result, post))
        elif ens and self.is_result_eq(ens[0]) and not contract.get("modifies"):
            e = parse_clause(ens[0])
            self.env0, self.heap0 = dict(bound), pre_heap
            try:
                self.pure_depth += 1
                result = self.ev1(e.comparators[0], post)
            finally:
                self.pure_depth -= 1
                self.env0, self.heap0 = saved_env0, saved_heap0
            ens = ens[1:]
        else:
            if rty == BOOL:
                result = BVal(smt.fresh_bool("res"))
            elif rty == INT:
                result = IVal(smt.fresh_int("res"))
            elif rty == NONE_T:
                result = Val(smt.NONE, NONE_T)
            elif rty[0] == "fixtup":
                result = TupVal([self.fresh_typed(t, post) for t in rty[1]])
            else:
                result = self.fresh_typed(rty, post)
        # the havoced contents describe the heap AFTER the call: they may hold the object the callee returns, so the
        # array constants created above are (re)stamped after the result's allocation (allocation-order rule of the rewriter)
        restamp0 = smt._clock[0]
        for nm, ev in list(smt.EVENT.items()):
            if ev > clock0 and (nm.startswith("hv_") or nm.startswith("H_")):
                smt.tick(nm)
        post.assume(*smt.birth_facts_since(restamp0))
        post.env["result"] = result
        self.env0, self.heap0 = dict(bound), pre_heap
        try:
            for en in ens:
                post.assume(self.eval_clause_assume(en, post))
        finally:
            self.env0, self.heap0 = saved_env0, saved_heap0
        for fx in contract.get("fresh", []):
            # callee-allocated component of the result: when not None it is distinct from every object known so far
            fv = self.eval_pure(fx, post)
            post.assume(z3.Implies(fv != smt.NONE, z3.And(z3.Not(smt.Alloc0(fv)), smt.SkFam(fv) == 0, *[fv != o for o in post.fresh])))
        s.heap = post.heap
        s.pc = post.pc
        s.fresh = post.fresh
        s.env["_ret_" + name.split(".")[-1]] = result  # ghost: result of the most recent call of this callee
        call_rec["_result"] = result  # trace predicates may relate a later call's argument to this call's result
        yield s, result

    def eval_pure(self, text, s):
        """z3 term of a pure expression over the state's environment (no effect on the state)."""
        self.pure_depth += 1
        try:
            return to_v(self.ev1(parse_clause(text), s.fork()), s)
        finally:
            self.pure_depth -= 1

    def fresh_typed(self, ty, s):
        if ty == BOOL:
            return BVal(smt.fresh_bool("res"))
        if ty == INT:
            return IVal(smt.fresh_int("res"))
        v = Val(smt.fresh_v("res"), ty)
        s.assume(*type_facts(v, s))
        return v

    def with_old(self, env0, heap0, thunk):
        saved = (self.env0, self.heap0)
        self.env0, self.heap0 = dict(env0), heap0
        try:
            return thunk()
        finally:
            self.env0, self.heap0 = saved

    @staticmethod
    def is_result_eq(text):
        try:
            e = parse_clause(text)
        except SyntaxError:
            return False
        return (isinstance(e, ast.Compare) and len(e.ops) == 1 and isinstance(e.ops[0], ast.Eq) and isinstance(e.left, ast.Name)
                and e.left.id == "result" and not any(isinstance(n, ast.Name) and n.id == "result" for n in ast.walk(e.comparators[0])))

    def inline_spec(self, fobj, args, kwargs, s: St):
        """Spec functions (contracts/spec.py): as DEFINED functions (uninterpreted symbol + definitional axiom, keyed by the
        simplified body so that evaluations in heaps that differ only in irrelevant places share the symbol); when that is
        not possible they are inlined."""
        if not kwargs and self.define_specs:
            try:
                yield s, self.defined_spec(fobj, args, s)
                return
            except Unsupported:
                pass
        yield from self.inline_spec_body(fobj, args, kwargs, s)

    define_specs = True
    _spec_defs: dict = {}

    def defined_spec(self, fobj, args, s: St):
        from .rewrite import HeapRewriter
        name = fobj.__name__
        ph, ph_vars, guards = [], [], []
        rw0 = HeapRewriter([], getattr(self.model.decl, "REGION_ATTRS", []), s.fresh)
        for i, a in enumerate(args):
            if isinstance(a, Val) and a.ty != STR and not rw0.entry(a.t):
                raise Unsupported("spec argument is not an entry-state object: inline")
            if isinstance(a, Val):
                c = z3.Const(f"p_{name}_{i}", V)
                ph.append(Val(c, a.ty))
                ph_vars.append(c)
                if a.ty != STR:
                    guards.append(smt.Alloc0(c))  # the body was simplified assuming entry-allocated arguments
            elif isinstance(a, BVal):
                c = z3.Bool(f"p_{name}_{i}")
                ph.append(BVal(c))
                ph_vars.append(c)
            elif isinstance(a, IVal):
                c = z3.Int(f"p_{name}_{i}")
                ph.append(IVal(c))
                ph_vars.append(c)
            elif isinstance(a, PyVal):
                ph.append(a)
            else:
                raise Unsupported("spec arg kind")
        s2 = St(list(s.pc), dict(s.env), s.heap, [], list(s.fresh))
        n_pc, n_fresh = len(s2.pc), len(s2.fresh)
        depth0 = smt.BINDER_DEPTH[0]
        smt.BINDER_DEPTH[0] = 50 + 10 * self.inline_depth  # binder names inside definitions never clash with the caller's
        self.pure_depth += 1
        try:
            res = list(self.inline_spec_body(fobj, ph, {}, s2))
        finally:
            self.pure_depth -= 1
            smt.BINDER_DEPTH[0] = depth0
        if len(res) != 1:
            raise Unsupported("spec forks")
        s3, v = res[0]
        if len(s3.pc) != n_pc or len(s3.fresh) != n_fresh:
            raise Unsupported("spec body introduces facts/allocations: inline instead")
        if isinstance(v, BVal):
            body, rng, wrap = v.b, z3.BoolSort(), lambda t: BVal(t)
        elif isinstance(v, IVal):
            body, rng, wrap = v.i, z3.IntSort(), lambda t: IVal(t)
        elif isinstance(v, Val):
            body, rng, wrap = v.t, V, lambda t, ty=v.ty: Val(t, ty)
        else:
            raise Unsupported("spec result kind")
        rw = HeapRewriter([], getattr(self.model.decl, "REGION_ATTRS", []), s.fresh)
        body = rw.rw(body)
        key = (name, body.get_id(), tuple(str(x.sort()) for x in ph_vars))
        ent = FunctionVC._spec_defs.get(key)
        if ent is None:
            f = z3.Function(f"spec_{name}!{len(FunctionVC._spec_defs)}", *[x.sort() for x in ph_vars], rng)
            app = f(*ph_vars) if ph_vars else None
            if app is None:
                raise Unsupported("nullary spec")
            ax = z3.ForAll(ph_vars, z3.Implies(z3.And(*guards) if guards else z3.BoolVal(True), app == body), patterns=[app])
            ent = (f, body, ax)
            FunctionVC._spec_defs[key] = ent
        f, _, ax = ent
        if not any(ax.get_id() == a.get_id() for a in self.extra_axioms):
            self.extra_axioms.append(ax)
        actual = [to_v(a, s) if isinstance(a, Val) else (a.b if isinstance(a, BVal) else a.i) for a in args if not isinstance(a, PyVal)]
        return wrap(f(*actual))

    def inline_spec_body(self, fobj, args, kwargs, s: St):
        fa = self.project.spec_ast(fobj.__name__)
        names = [x.arg for x in fa.args.args]
        env = dict(zip(names, args))
        env.update(kwargs)
        for n, d in zip(names[len(names) - len(fa.args.defaults):], fa.args.defaults):
            if n not in env:
                env[n] = lift(ast.literal_eval(d))
        if self.inline_depth > 12:
            raise Unsupported("spec recursion too deep")
        sub = St(s.pc, env, s.heap, [], s.fresh)
        self.inline_depth += 1
        saved_mod = self.real_module
        self.real_module = self.project.spec_module
        try:
            outs = [(s2, o) for s2, o in stmts.exec_block(self, fa.body, sub)]
        finally:
            self.inline_depth -= 1
            self.real_module = saved_mod
        rets = [(s2, o.val) for s2, o in outs if o.kind == "return"]
        if len(rets) != len(outs) or not rets:
            raise Unsupported(f"spec function {fobj.__name__} has non-return paths")
        if len(rets) == 1:
            s.pc[:] = rets[0][0].pc
            s.heap = rets[0][0].heap
            yield s, rets[0][1]
            return
        # merge alternative return paths with If-chains on their extra path conditions
        base = len(s.pc)
        res = rets[-1][1]
        for s2, v in reversed(rets[:-1]):
            cond = z3.And(*s2.pc[base:]) if len(s2.pc) > base else z3.BoolVal(True)
            res = self.merge(cond, v, res, s)
        yield s, res

    def call_closure(self, fnode, args, kwargs, s):
        # an ASYNC closure that has its own contract: calling it only creates the coroutine object (the body runs when it
        # is awaited / gathered); the creation is recorded in the ghost trace
        key = f"{self.key}.{fnode.name}"
        if isinstance(fnode, ast.AsyncFunctionDef) and key in self.project.contracts:
            s.trace.append(("call", fnode.name, {"args": list(args), "kwargs": dict(kwargs), "coroutine": True}))
            yield s, Val(smt.fresh_v("coro"), ANY)
            return
        raise Unsupported("call of a local closure")

    # ------------------------------------------------------------------ top level
    def initial_state(self):
        c = self.contract
        assigned_attrs = sorted({t.attr for n in ast.walk(self.func_ast) for t in ast.walk(n) if isinstance(t, ast.Attribute) and isinstance(t.ctx, (ast.Store, ast.Del))})
        heap0 = Heap.initial("0", assigned_attrs)
        st = St([], {}, heap0, [], [])
        params = c.get("params", {})
        a = self.func_ast.args
        all_params = [x.arg for x in a.posonlyargs + a.args + a.kwonlyargs]
        # a contracted CLOSURE: its free variables are declared as extra parameters of the contract (entry objects)
        all_params += [p for p in params if p not in all_params and p not in (getattr(a.vararg, "arg", None), getattr(a.kwarg, "arg", None))]
        for p in all_params:
            ty = params.get(p, ANY)
            if ty == BOOL:
                st.env[p] = BVal(z3.Bool(f"p_{p}"))
            elif ty == INT:
                st.env[p] = IVal(z3.Int(f"p_{p}"))
            else:
                v = Val(z3.Const(f"p_{p}", V), ty)
                st.env[p] = v
                st.assume(*type_facts(v, st), smt.Alloc0(v.t))
        if a.vararg or a.kwarg:
            for extra in (a.vararg, a.kwarg):
                if extra is not None:
                    ty = params.get(extra.arg, SEQ(ANY) if extra is a.vararg else DICT(STR, ANY))
                    v = Val(z3.Const(f"p_{extra.arg}", V), ty)
                    st.env[extra.arg] = v
                    st.assume(*type_facts(v, st), smt.Alloc0(v.t))
        st.env.update(self.contract_imports(c))
        self.heap0 = heap0
        self.env0 = dict(st.env)
        if c.get("generator"):
            st.env["$yield"] = alloc_seq(st, [], "list", ANY)
        for req in c.get("requires", []):
            st.assume(self.eval_clause_assume(req, st))
        return st

    def run(self):
        """Execute the function symbolically and emit obligations.  Returns the obligations."""
        c = self.contract
        st0 = self.initial_state()
        # cover: requires must be satisfiable (vacuity guard)
        self.obligations.append(Obligation("cover.requires", "cover", st0.pc, z3.BoolVal(False), {"expect": "sat"}, aux=True))
        n_ret = n_raise = 0
        raises = c.get("raises", {})
        may = c.get("may_raise", {})
        for s, out in stmts.exec_block(self, self.func_ast.body, st0.fork()):
            if out.kind == NORMAL:
                out = Outcome("return", Val(smt.NONE, NONE_T))
            if out.kind == "return":
                n_ret += 1
                result = out.val
                if c.get("generator"):
                    result = s.env["$yield"]
                self.paths.append(("return", len(s.pc), s.trace))
                s.env["result"] = result
                for k, en in enumerate(c.get("ensures", [])):
                    self.oblige(f"ensures{k}.path{n_ret}", "post", s, self.eval_clause(en, s), {"clause": en})
                for k, fx in enumerate(c.get("fresh", [])):
                    # `fresh`: the denoted value is None or an object allocated by THIS call
                    fv = self.eval_pure(fx, s)
                    self.oblige(f"fresh{k}.path{n_ret}", "post", s, z3.Or(fv == smt.NONE, z3.Not(smt.Alloc0(fv))), {"clause": f"fresh({fx}): None or allocated during the call"})
                if c.get("mustfail"):
                    # soundness guard (DESIGN 2.4 iii): a deliberately wrong postcondition must NOT be provable on every path
                    self.oblige(f"mustfail.path{n_ret}", "mustfail", s, self.eval_clause(c["mustfail"], s), {"clause": c["mustfail"]}, aux=True)
                else:
                    # generic vacuity guard: `False` must not be provable on every return path (inconsistent path conditions)
                    self.oblige(f"mustfail.path{n_ret}", "mustfail", s, z3.BoolVal(False), {"clause": "False (vacuity guard: some return path is feasible)"}, aux=True)
                for cls, cond in raises.items():
                    if cond in (True, "True"):
                        continue
                    neg = ast.UnaryOp(op=ast.Not(), operand=parse_clause(cond))
                    g = self.with_old(self.env0, self.heap0, lambda: self.eval_clause(neg, St(list(s.pc), dict(self.env0), self.heap0, [], list(s.fresh))))
                    self.oblige(f"raises[{cls}].complete.path{n_ret}", "raise", s, g, {"clause": f"not ({cond})  [normal return only when the raise condition is false]"})
                for k, tp in enumerate(c.get("trace", [])):
                    self.oblige(f"trace{k}.path{n_ret}", "post", s, self.trace_goal(tp, s, "return", None), {"clause": tp["name"], "trace": summarize_trace(s.trace)})
            elif out.kind == "raise":
                n_raise += 1
                r: Raised = out.val
                self.paths.append(("raise:" + r.cls, len(s.pc), s.trace))
                declared = None
                for cls, cond in list(raises.items()) + list(may.items()):
                    if REG.issub(r.cls, cls) or r.cls == cls:
                        declared = (cls, cond)
                        break
                if declared is None:
                    self.oblige(f"noraise[{r.cls}].path{n_raise}", "noraise", s, z3.BoolVal(False), {"clause": f"no {r.cls} escapes", "by": r.info.get("by"), "trace": summarize_trace(s.trace)})
                else:
                    cls, cond = declared
                    if cond not in (True, "True"):
                        g = self.with_old(self.env0, self.heap0, lambda: self.eval_clause(cond, St(list(s.pc), dict(self.env0), self.heap0, [], list(s.fresh))))
                        self.oblige(f"raises[{cls}].sound.path{n_raise}", "raise", s, g, {"clause": cond})
                s.env["exc"] = self.exception_value(r, s) if True else None
                s.env["exc_info"] = PyVal(r.info, "exc_info")
                for k, en in enumerate(c.get("ensures_on_raise", [])):
                    self.oblige(f"ensures_on_raise{k}.path{n_raise}", "post", s, self.eval_clause(en, s), {"clause": en})
                for k, tp in enumerate(c.get("trace", [])):
                    self.oblige(f"trace{k}.rpath{n_raise}", "post", s, self.trace_goal(tp, s, "raise:" + r.cls, r), {"clause": tp["name"], "trace": summarize_trace(s.trace)})
            else:
                raise Unsupported(f"{out.kind} escapes function body")
        self.n_paths = (n_ret, n_raise)
        # frame obligations
        mods = c.get("modifies", None)
        if mods is not None or c.get("frame", False):
            self.frame_obligations(mods or [])
        return self.obligations

    def trace_goal(self, tp, s, outcome, raised):
        res = tp["check"](s.trace, outcome, raised, s.env, self, s)
        if z3.is_expr(res):
            return res
        return z3.BoolVal(bool(res))

    def frame_obligations(self, mods):
        s0 = St([], dict(self.env0), self.heap0, [], [])
        allowed = [self.with_old(self.env0, self.heap0, lambda m=m: self.ev1(parse_clause(m), s0)) for m in mods]
        for i, (kind, base, pc) in enumerate(self.writes):
            ok = [z3.Not(smt.Alloc0(base.t))] + [base.t == a.t for a in allowed if isinstance(a, Val)]
            self.obligations.append(Obligation(f"frame.write{i}[{kind}]", "frame", pc, z3.Or(*ok), {"clause": f"writes only to fresh objects or {mods}", "target": str(base.t)}))


def summarize_trace(trace):
    out = []
    for ev in trace:
        if ev[0] in ("call", "raised-by"):
            out.append(f"{ev[0]}:{ev[1]}" + (f":{ev[2]}" if ev[0] == "raised-by" else ""))
        else:
            out.append(":".join(str(x) for x in ev[:2]))
    return out
