"""Developer driver: verify one contracted function and print obligations."""
import sys, time, traceback
from pyvc.project import Project
from pyvc.vc import FunctionVC
from pyvc.solve import check_obligation
from pyvc.values import Unsupported

def main():
    proj = Project()
    keys = [k for k in proj.contracts if any(a in k for a in sys.argv[1:])] if len(sys.argv) > 1 else list(proj.contracts)
    for key in keys:
        c = proj.contracts[key]
        t0 = time.time()
        try:
            vc = FunctionVC(proj, key, c)
            for name, mod in c.get("imports", {}).items():
                pass
            obs = vc.run()
        except Unsupported as e:
            print(f"{key}: UNSUPPORTED {e}")
            if "-v" in sys.argv: traceback.print_exc()
            continue
        except Exception:
            print(f"{key}: CRASH"); traceback.print_exc(); continue
        print(f"{key}: {len(obs)} obligations, paths={vc.n_paths}, gen {time.time()-t0:.2f}s, feas-calls={vc.solver_calls}")
        mf = []
        for ob in obs:
            st, dt, detail = check_obligation(vc, ob, 3000 if ob.kind == "mustfail" else 10000)
            if ob.kind == "mustfail":
                mf.append(st)
                continue
            flag = "" if st == "proved" else "   <<<<<<"
            print(f"   {st:8s} {dt:6.2f}s {ob.kind:9s} {ob.name} [{ob.info.get('path','')}]{flag}")
            if st != "proved" and "-v" in sys.argv:
                print("      ", ob.info.get("clause")); print("      ", detail[:300]); print("      TRACE", ob.info.get("trace"))
        if mf:
            print("   mustfail guard:", "OK (not provable)" if any(x != "proved" for x in mf) else "ENGINE UNSOUND: wrong postcondition proved", mf)
        else:
            print("   (no mustfail guard)")

main()
