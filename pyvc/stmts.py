"""pyvc executor: statements, loops (cut by sidecar invariants), exceptions."""
from __future__ import annotations

import ast
import z3

from . import smt
from .smt import V
from .values import (ANY, STR, INT, BOOL, NONE_T, SEQ, DICT, SET, OBJ, OPT, Val, BVal, IVal, TupVal, PyVal, SeqView, BoundMethod,
                     Raised, Unsupported, strip_opt)
from .engine import (St, REG, to_v, lift, truth, as_int, eq, alloc, alloc_seq, alloc_dict, alloc_set, dict_store, dict_del,
                     seq_view, type_facts)
from .exec import Outcome, NORMAL


def exec_block(ex, stmts, st: St):
    """Execute a statement list; yields (state, Outcome)."""
    if not stmts:
        yield st, Outcome(NORMAL)
        return
    first, rest = stmts[0], stmts[1:]
    for s, out in exec_stmt(ex, first, st):
        if out.kind == NORMAL:
            yield from exec_block(ex, rest, s)
        else:
            yield s, out


def exec_stmt(ex, node: ast.stmt, st: St):
    m = globals().get("st_" + type(node).__name__)
    if m is None:
        raise Unsupported(f"statement {type(node).__name__} at line {node.lineno}")
    yield from m(ex, node, st)


def _raise_out(r: Raised):
    return Outcome("raise", r)


def st_Expr(ex, node, st):
    if isinstance(node.value, ast.Constant):  # docstring
        yield st, Outcome(NORMAL)
        return
    if isinstance(node.value, (ast.Yield, ast.YieldFrom)):
        yield from st_yield(ex, node.value, st)
        return
    for s, v in ex.ev(node.value, st):
        yield (s, _raise_out(v)) if isinstance(v, Raised) else (s, Outcome(NORMAL))


def st_yield(ex, y, st):
    """Generators are modelled by the sequence they yield (DESIGN 2.2): yield = append to $yield."""
    if "$yield" not in st.env:
        raise Unsupported("yield outside generator contract")
    if isinstance(y, ast.Yield):
        for s, v in ex.ev(y.value, st):
            if isinstance(v, Raised):
                yield s, _raise_out(v)
                continue
            from .engine import seq_append
            seq_append(s, s.env["$yield"].t, to_v(v, s))
            yield s, Outcome(NORMAL)
    else:
        for s, v in ex.ev(y.value, st):
            if isinstance(v, Raised):
                yield s, _raise_out(v)
                continue
            # yield from <seq>: concatenate
            if isinstance(v, Val) and strip_opt(v.ty)[0] == "any":
                v = Val(v.t, SEQ(ANY))  # an uncontracted generator / iterable: the sequence of what it yields (untyped)
            if not (isinstance(v, Val) and strip_opt(v.ty)[0] == "seq"):
                raise Unsupported("yield from non-sequence")
            cat = ex.seq_concat(s.env["$yield"], v, s)
            s.env["$yield"] = cat
            yield s, Outcome(NORMAL)


def st_Pass(ex, node, st):
    yield st, Outcome(NORMAL)


def st_Import(ex, node, st):
    import importlib
    for a in node.names:
        mod = importlib.import_module(a.name)
        st.env[(a.asname or a.name).split(".")[0]] = PyVal(mod if a.asname else importlib.import_module(a.name.split(".")[0]), a.name)
    yield st, Outcome(NORMAL)


def st_ImportFrom(ex, node, st):
    import importlib
    mod = importlib.import_module(node.module)
    for a in node.names:
        st.env[a.asname or a.name] = lift(getattr(mod, a.name), a.name)
    yield st, Outcome(NORMAL)


def st_Assign(ex, node, st):
    for s, v in ex.ev(node.value, st):
        if isinstance(v, Raised):
            yield s, _raise_out(v)
            continue
        states = [s]
        for tgt in node.targets:
            nxt = []
            for s1 in states:
                for s2, out in assign_to(ex, tgt, v, s1):
                    if out is not None:
                        yield s2, out
                    else:
                        nxt.append(s2)
            states = nxt
        for s1 in states:
            yield s1, Outcome(NORMAL)


def st_AnnAssign(ex, node, st):
    if node.value is None:
        yield st, Outcome(NORMAL)
        return
    fake = ast.Assign(targets=[node.target], value=node.value, lineno=node.lineno)
    ty = _annotation_type(node.annotation)
    for s, out in st_Assign(ex, fake, st):
        # the declared type of a freshly built EMPTY container literal refines its static element types (assumed, as every
        # annotation: PEP 484 annotations are not checked by CPython)
        if ty is not None and out.kind == NORMAL and isinstance(node.target, ast.Name) and _is_empty_literal(node.value):
            v = s.env.get(node.target.id)
            if isinstance(v, Val) and strip_opt(v.ty)[0] == ty[0]:
                s.env[node.target.id] = Val(v.t, ty)
        yield s, out


def _is_empty_literal(e):
    return (isinstance(e, ast.Dict) and not e.keys) or (isinstance(e, ast.List) and not e.elts) or (
        isinstance(e, ast.Call) and isinstance(e.func, ast.Name) and e.func.id in ("dict", "list", "set") and not e.args and not e.keywords)


def _annotation_type(a):
    """dict[K, V] / list[T] / set[T] / str / int / bool over these constructors -> engine type (None: not understood)."""
    if isinstance(a, ast.Constant) and isinstance(a.value, str):
        try:
            a = ast.parse(a.value, mode="eval").body
        except SyntaxError:
            return None
    if isinstance(a, ast.Name):
        return {"str": STR, "int": INT, "bool": BOOL, "Any": ANY}.get(a.id)
    if isinstance(a, ast.Subscript) and isinstance(a.value, ast.Name):
        args = a.slice.elts if isinstance(a.slice, ast.Tuple) else [a.slice]
        sub = [_annotation_type(x) or ANY for x in args]
        if a.value.id == "dict" and len(sub) == 2:
            return DICT(sub[0], sub[1])
        if a.value.id == "list" and len(sub) == 1:
            return SEQ(sub[0])
        if a.value.id == "set" and len(sub) == 1:
            return SET(sub[0])
    return None


def assign_to(ex, tgt, v, s: St):
    """yields (state, None) on success or (state, Outcome raise)."""
    if isinstance(tgt, (ast.Name, ast.Tuple, ast.List)) and not _has_complex_target(tgt):
        ex.bind_target(tgt, v, s)
        yield s, None
        return
    if isinstance(tgt, ast.Subscript):
        for s1, vals in ex.evs([tgt.value, tgt.slice], s):
            if isinstance(vals, Raised):
                yield s1, _raise_out(vals)
                continue
            base, idx = vals
            from .values import BoundMethod
            if isinstance(base, BoundMethod) and isinstance(base.self_val, Val) and strip_opt(base.self_val.ty)[0] == "any":
                # container held in an attribute of an UNTYPED object (e.g. the executor's span slot): a list owned by that object
                base = ex.read_attr(base.self_val, base.name, ANY, s1)
                base = Val(base.t, SEQ(ANY)) if isinstance(idx, IVal) else base
            if not isinstance(base, Val):
                raise Unsupported(f"subscript store on {base!r}")
            ty = strip_opt(base.ty)
            if ty[0] == "dict" or (ty[0] == "any" and not isinstance(idx, IVal)):
                dict_store(s1, base.t, to_v(idx, s1), to_v(v, s1))
                ex.note_write(s1, "dict", base)
                yield s1, None
            elif ty[0] == "seq":
                h = s1.heap
                i = as_int(idx)
                s1.heap = h.with_comp("sa", z3.Store(h.c["sa"], base.t, z3.Store(h.c["sa"][base.t], i, to_v(v, s1))))
                ex.note_write(s1, "seq", base)
                yield s1, None
            else:
                raise Unsupported(f"subscript store on type {ty}")
        return
    if isinstance(tgt, ast.Attribute):
        for s1, base in ex.ev(tgt.value, s):
            if isinstance(base, Raised):
                yield s1, _raise_out(base)
                continue
            if not isinstance(base, Val):
                raise Unsupported(f"attribute store on {base!r}")
            name = tgt.attr
            if name not in s1.heap.f:
                raise Unsupported(f"attribute store to {name} not pre-declared (engine pre-scan missed it)")
            s1.heap = s1.heap.with_field(name, z3.Store(s1.heap.f[name], base.t, to_v(v, s1)))
            ex.note_write(s1, "attr:" + name, base)
            yield s1, None
        return
    raise Unsupported(f"assignment target {type(tgt).__name__}")


def _has_complex_target(t):
    if isinstance(t, ast.Name):
        return False
    if isinstance(t, (ast.Tuple, ast.List)):
        return any(_has_complex_target(x) for x in t.elts)
    return True


def st_AugAssign(ex, node, st):
    load = ast.BinOp(left=_as_load(node.target), op=node.op, right=node.value)
    ast.copy_location(load, node)
    ast.fix_missing_locations(load)
    fake = ast.Assign(targets=[node.target], value=load, lineno=node.lineno)
    yield from st_Assign(ex, fake, st)


def _as_load(t):
    import copy
    t2 = copy.deepcopy(t)
    for n in ast.walk(t2):
        if hasattr(n, "ctx"):
            n.ctx = ast.Load()
    return t2


def st_Delete(ex, node, st):
    states = [st]
    for tgt in node.targets:
        nxt = []
        for s in states:
            if isinstance(tgt, ast.Subscript):
                for s1, vals in ex.evs([tgt.value, tgt.slice], s):
                    if isinstance(vals, Raised):
                        yield s1, _raise_out(vals)
                        continue
                    base, idx = vals
                    if not (isinstance(base, Val) and strip_opt(base.ty)[0] == "dict"):
                        raise Unsupported("del on non-dict")
                    k = to_v(idx, s1)
                    has = s1.heap.c["dh"][base.t][k]
                    s_bad = s1.fork().assume(z3.Not(has))
                    if ex.feasible(s_bad):
                        yield s_bad, _raise_out(Raised("KeyError", None, {"key": k}))
                    s_ok = s1.fork().assume(has)
                    if ex.feasible(s_ok):
                        dict_del(s_ok, base.t, k)
                        ex.note_write(s_ok, "dict", base)
                        nxt.append(s_ok)
            elif isinstance(tgt, ast.Name):
                s.env.pop(tgt.id, None)
                nxt.append(s)
            else:
                raise Unsupported("del target")
        states = nxt
    for s in states:
        yield s, Outcome(NORMAL)


def st_Return(ex, node, st):
    if node.value is None:
        yield st, Outcome("return", Val(smt.NONE, NONE_T))
        return
    for s, v in ex.ev(node.value, st):
        yield (s, _raise_out(v)) if isinstance(v, Raised) else (s, Outcome("return", v))


def st_Break(ex, node, st):
    yield st, Outcome("break")


def st_Continue(ex, node, st):
    yield st, Outcome("continue")


def st_Assert(ex, node, st):
    for s, v in ex.ev(node.test, st):
        if isinstance(v, Raised):
            yield s, _raise_out(v)
            continue
        t = truth(v, s)
        s_bad = s.fork().assume(z3.Not(t))
        if ex.feasible(s_bad):
            yield s_bad, _raise_out(Raised("AssertionError"))
        s.assume(t)
        yield s, Outcome(NORMAL)


def st_If(ex, node, st):
    for s, c in ex.ev(node.test, st):
        if isinstance(c, Raised):
            yield s, _raise_out(c)
            continue
        t = truth(c, s)
        narrowed = _narrowing(ex, node.test, s)
        s1 = s.fork().assume(t)
        s2 = s.fork().assume(z3.Not(t))
        s1.notes.append(f"L{node.lineno}+")
        s2.notes.append(f"L{node.lineno}-")
        # the same test decided earlier on this path (syntactically the same formula): no solver call
        known = _known_truth(t, s.pc)
        feas1 = ex.feasible(s1) if known is None else known
        feas2 = ex.feasible(s2) if known is None else not known
        if feas1:
            for name, ty in narrowed.get(True, {}).items():
                v = s1.env.get(name)
                if isinstance(v, Val):
                    s1.env[name] = Val(v.t, ty)
            yield from exec_block(ex, node.body, s1)
        if feas2:
            for name, ty in narrowed.get(False, {}).items():
                v = s2.env.get(name)
                if isinstance(v, Val):
                    s2.env[name] = Val(v.t, ty)
            yield from exec_block(ex, node.orelse, s2)


def _known_truth(t, pc):
    """True / False when the path condition literally contains t / Not(t); None otherwise."""
    if z3.is_true(t):
        return True
    if z3.is_false(t):
        return False
    nt = z3.Not(t)
    for f in reversed(pc):
        if f.eq(t):
            return True
        if f.eq(nt):
            return False
    return None


_ISINSTANCE_TYS = {"list": SEQ(ANY), "tuple": SEQ(ANY), "dict": DICT(ANY, ANY), "str": STR, "set": SET(ANY)}


def _narrowing(ex, test, s):
    """Static type refinement for `isinstance(name, C)` and `name is (not) None` tests."""
    out = {True: {}, False: {}}
    neg = False
    t = test
    if isinstance(t, ast.UnaryOp) and isinstance(t.op, ast.Not):
        neg, t = True, t.operand
    if isinstance(t, ast.Call) and isinstance(t.func, ast.Name) and t.func.id == "isinstance" and len(t.args) == 2 and isinstance(t.args[0], ast.Name):
        name = t.args[0].id
        cur = s.env.get(name)
        if isinstance(cur, Val):
            try:
                c = ex.lookup(t.args[1].id, s) if isinstance(t.args[1], ast.Name) else None
            except Unsupported:
                c = None
            if isinstance(c, PyVal) and isinstance(c.obj, type):
                cn = c.obj.__name__
                if cn in _ISINSTANCE_TYS:
                    nty = _ISINSTANCE_TYS[cn]
                    if strip_opt(cur.ty)[0] in ("any",):
                        out[not neg][name] = nty
                elif ex.model.has_class(cn) and strip_opt(cur.ty)[0] in ("any", "obj"):
                    if strip_opt(cur.ty)[0] == "any" or REG.issub(cn, strip_opt(cur.ty)[1]):
                        out[not neg][name] = OBJ(cn)
    if isinstance(t, ast.Compare) and len(t.ops) == 1 and isinstance(t.left, ast.Name) and isinstance(t.comparators[0], ast.Constant) and t.comparators[0].value is None:
        name = t.left.id
        cur = s.env.get(name)
        if isinstance(cur, Val) and cur.ty[0] == "opt":
            if isinstance(t.ops[0], ast.IsNot):
                out[not neg][name] = cur.ty[1]
            elif isinstance(t.ops[0], ast.Is):
                out[neg][name] = cur.ty[1]
    return out


def st_Raise(ex, node, st):
    if node.exc is None:
        cur = st.env.get("$handling")
        if cur is None:
            raise Unsupported("bare raise outside handler")
        yield st, Outcome("raise", cur)
        return
    for s, v in ex.ev(node.exc, st):
        if isinstance(v, Raised):
            yield s, _raise_out(v)
            continue
        r = ex.exception_from_value(v, s)
        if node.cause is not None:
            cs = list(ex.ev(node.cause, s))
            if len(cs) != 1 or isinstance(cs[0][1], Raised):
                raise Unsupported("raise-from cause forks")
            r.info["cause"] = cs[0][1]
            r.info["has_from"] = True
        elif "$handling" in s.env:
            r.info["context"] = s.env["$handling"]
        s.trace.append(("raise", r.cls))
        yield s, Outcome("raise", r)


def st_Try(ex, node, st):
    def run_finally(s, out):
        if not node.finalbody:
            yield s, out
            return
        for s2, out2 in exec_block(ex, node.finalbody, s):
            if out2.kind == NORMAL:
                yield s2, out
            else:
                yield s2, out2  # finally overrides

    for s, out in exec_block(ex, node.body, st):
        if out.kind == NORMAL:
            if node.orelse:
                for s2, out2 in exec_block(ex, node.orelse, s):
                    yield from run_finally(s2, out2)
            else:
                yield from run_finally(s, out)
            continue
        if out.kind != "raise":
            yield from run_finally(s, out)
            continue
        # exception: find handler
        r: Raised = out.val
        pending = [(s, r)]
        for h in node.handlers:
            nxt = []
            for s1, r1 in pending:
                for s2, verdict in ex.handler_matches(h, r1, s1):
                    if verdict:
                        s2 = s2
                        saved = s2.env.get("$handling")
                        s2.env["$handling"] = r1
                        if h.name:
                            s2.env[h.name] = ex.exception_value(r1, s2)
                        for s3, out3 in exec_block(ex, h.body, s2):
                            if saved is None:
                                s3.env.pop("$handling", None)
                            else:
                                s3.env["$handling"] = saved
                            yield from run_finally(s3, out3)
                    else:
                        nxt.append((s2, r1))
            pending = nxt
        for s1, r1 in pending:
            yield from run_finally(s1, Outcome("raise", r1))


def st_With(ex, node, st):
    if len(node.items) != 1:
        raise Unsupported("multi-item with")
    item = node.items[0]
    for s, cm in ex.ev(item.context_expr, st):
        if isinstance(cm, Raised):
            yield s, _raise_out(cm)
            continue
        s.trace.append(("enter", ast.unparse(item.context_expr)))
        if item.optional_vars is not None:
            ex.bind_target(item.optional_vars, Val(smt.fresh_v("cm"), ANY), s)
        for s2, out in exec_block(ex, node.body, s):
            s2.trace.append(("exit", ast.unparse(item.context_expr)))
            yield s2, out


st_AsyncWith = st_With


def st_FunctionDef(ex, node, st):
    st.env[node.name] = PyVal(("closure", node, None), node.name)
    yield st, Outcome(NORMAL)


st_AsyncFunctionDef = st_FunctionDef


def st_Global(ex, node, st):
    yield st, Outcome(NORMAL)


st_Nonlocal = st_Global


# ---------------------------------------------------------------------- loops
def assigned_names(stmts):
    names = set()
    for n in stmts:
        for x in ast.walk(n):
            if isinstance(x, ast.Name) and isinstance(x.ctx, (ast.Store, ast.Del)):
                names.add(x.id)
            elif isinstance(x, (ast.FunctionDef, ast.AsyncFunctionDef)):
                names.add(x.name)
    return names


_MUTATORS = {"append": "sq", "extend": "sq", "insert": "sq", "pop": None, "add": "s", "update": None, "discard": "s", "remove": None,
             "setdefault": "d", "clear": None, "move_to_end": "d", "popitem": "d", "sort": "sq"}


def mutated_exprs(stmts):
    """Expressions whose container contents the statements may mutate, syntactically."""
    out = []
    for n in stmts:
        for x in ast.walk(n):
            if isinstance(x, (ast.Assign, ast.AugAssign, ast.AnnAssign, ast.Delete)):
                tgts = x.targets if isinstance(x, (ast.Assign, ast.Delete)) else [x.target]
                for t in tgts:
                    for tt in ast.walk(t):
                        if isinstance(tt, ast.Subscript) and isinstance(tt.ctx, (ast.Store, ast.Del)):
                            out.append(("item", tt.value))
                        elif isinstance(tt, ast.Attribute) and isinstance(tt.ctx, (ast.Store, ast.Del)):
                            out.append(("attr", tt))
            elif isinstance(x, ast.Call) and isinstance(x.func, ast.Attribute) and x.func.attr in _MUTATORS:
                out.append(("call", x.func.value))
    return out


def havoc_for_loop(ex, body, st: St, extra_modifies=(), only=None):
    clock0 = smt._clock[0]
    s = _havoc_for_loop(ex, body, st, extra_modifies, only)
    s.assume(*smt.birth_facts_since(clock0))
    return s


def _havoc_for_loop(ex, body, st: St, extra_modifies=(), only=None):
    """Forget everything the loop body may change: assigned locals and mutated containers.
    `only`: the loop's DECLARED frame (list of container values): exactly these are forgotten; every write of the body is
    then checked against the declaration (loop_frame_obligations)."""
    s = st.fork()
    for name in assigned_names(body):
        if name in s.env:
            s.env[name] = fresh_like(s.env[name], s, name)
        elif not name.startswith("_"):
            # a local first assigned INSIDE the loop: after (or at the start of a later iteration of) the loop it holds an
            # unknown value (if the loop never ran, CPython raises NameError at the use: not modelled, like other NameErrors)
            s.env[name] = Val(smt.fresh_v(f"lv_{name}"), ANY)
    havoc_all = False
    refs = []
    if only == "non-entry":
        # declared frame "non-entry": the body writes only to objects allocated by this function.  All container
        # components are replaced; entry-allocated references keep their contents (quantified, and known to the rewriter)
        for kind, expr in mutated_exprs(body):
            if kind == "attr" and expr.attr in s.heap.f:
                s.heap = s.heap.with_field(expr.attr, z3.Const(smt.fresh_name(f"H_f_{expr.attr}"), smt.VV))
        old = s.heap
        new = old.havoc_all(fields=[])
        r = z3.Const("fr_r", V)
        for c in old.c:
            smt.FRAME_OF[new.c[c].decl().name()] = old.c[c]
            s.assume(z3.ForAll([r], z3.Implies(smt.Alloc0(r), new.c[c][r] == old.c[c][r]), patterns=[new.c[c][r]]))
        s.heap = new
        s.assume(*smt.heap_wellformed(new))
        return s
    if only is not None:
        for kind, expr in mutated_exprs(body):
            if kind == "attr" and expr.attr in s.heap.f:
                s.heap = s.heap.with_field(expr.attr, z3.Const(smt.fresh_name(f"H_f_{expr.attr}"), smt.VV))
        _havoc_refs(s, list(only))
        return s
    for kind, expr in mutated_exprs(body):
        if kind == "attr":
            n = expr.attr
            if n in s.heap.f:
                s.heap = s.heap.with_field(n, z3.Const(smt.fresh_name(f"H_f_{n}"), smt.VV))
            continue
        free = {x.id for x in ast.walk(expr) if isinstance(x, ast.Name)}
        if free & assigned_names(body):
            # container identity depends on the loop state: any container allocated/reached may change
            havoc_all = True
            continue
        try:
            ex.pure_depth += 1
            v = ex.ev1(expr, st.fork())
        except Unsupported:
            havoc_all = True
            continue
        finally:
            ex.pure_depth -= 1
        if isinstance(v, Val):
            refs.append(v)
        else:
            havoc_all = True
    refs = [v for v in refs if isinstance(v, Val)]
    for v in list(extra_modifies):
        refs.append(v)
    # calls to contracted callees that declare `modifies`: havoc what they may write (precisely when the target
    # expressions are loop-invariant, otherwise the whole heap)
    body_assigned = assigned_names(body)
    for n in body:
        for x in ast.walk(n):
            if not isinstance(x, ast.Call):
                continue
            cname = x.func.id if isinstance(x.func, ast.Name) else x.func.attr if isinstance(x.func, ast.Attribute) else None
            if cname is None:
                continue
            cands = [(k, c) for k, c in ex.project.contracts.items() if c.get("modifies") and c.get("call_site") != "opaque" and (k.endswith(":" + cname) or k.endswith("." + cname))]
            if not cands:
                continue
            for key, c in cands:
                qual = key.split(":")[1]
                if isinstance(x.func, ast.Attribute) and "." in qual:
                    # a method contract applies only when the receiver is an instance of that class
                    kcls = qual.split(".")[0]
                    try:
                        free = {y.id for y in ast.walk(x.func.value) if isinstance(y, ast.Name)}
                        if free & body_assigned:
                            raise Unsupported("loop-variant receiver")
                        ex.pure_depth += 1
                        try:
                            rv = ex.ev1(x.func.value, st.fork())
                        finally:
                            ex.pure_depth -= 1
                        if not (isinstance(rv, Val) and strip_opt(rv.ty)[0] == "obj" and REG.issub(strip_opt(rv.ty)[1], kcls)):
                            continue
                    except Unsupported:
                        if cname in _MUTATORS or cname in ("get", "items", "keys", "values", "copy"):
                            continue  # container method of the same name (already covered by the syntactic scan)
                        havoc_all = True
                        continue
                elif isinstance(x.func, ast.Attribute) or "." in qual:
                    continue
                try:
                    fa = ex.project.function_ast(key)
                    pnames = [a.arg for a in fa.args.posonlyargs + fa.args.args]
                    argexprs = ([x.func.value] if (isinstance(x.func, ast.Attribute) and pnames and pnames[0] == "self") else []) + list(x.args)
                    env2 = {}
                    needed = {y.id for m in c["modifies"] for y in ast.walk(ast.parse(m, mode="eval")) if isinstance(y, ast.Name)}
                    for pn, ae in zip(pnames, argexprs):
                        if pn not in needed:
                            continue
                        free = {y.id for y in ast.walk(ae) if isinstance(y, ast.Name)}
                        if free & body_assigned:
                            raise Unsupported("loop-variant argument")
                        ex.pure_depth += 1
                        try:
                            env2[pn] = ex.ev1(ae, st.fork())
                        finally:
                            ex.pure_depth -= 1
                    for kw in x.keywords:
                        if kw.arg and kw.arg in needed:
                            ex.pure_depth += 1
                            try:
                                env2[kw.arg] = ex.ev1(kw.value, st.fork())
                            finally:
                                ex.pure_depth -= 1
                    for m in c["modifies"]:
                        sub = st.fork()
                        sub.env = dict(env2)
                        ex.pure_depth += 1
                        try:
                            mv = ex.ev1(ast.parse(m, mode="eval").body, sub)
                            if isinstance(mv, Val):
                                refs.append(mv)
                            else:
                                havoc_all = True
                        finally:
                            ex.pure_depth -= 1
                except (Unsupported, KeyError):
                    havoc_all = True
    if havoc_all:
        s.heap = s.heap.havoc_all(fields=[])
        s.assume(*smt.heap_wellformed(s.heap))
        ex.assumptions.add("loop havoc: whole heap forgotten (container identity varies inside the loop)")
    else:
        _havoc_refs(s, refs)
    return s


def _havoc_refs(s, refs):
    for v in refs:
        k = strip_opt(v.ty)[0]
        comps = {"dict": ("dh", "dv", "dn", "d"), "set": ("sh", "sn", None, "s"), "seq": ("sl", "sa", None, "q")}.get(k)
        if comps is None:
            comps_list = [("dh", "dv", "dn", "d"), ("sh", "sn", None, "s"), ("sl", "sa", None, "q")]
        else:
            comps_list = [comps]
        for cs in comps_list:
            for c in cs[:3]:
                if c:
                    s.heap = s.heap.havoc_ref(c, v.t)
            s.assume(*smt.heap_wellformed_ref(s.heap, v.t, cs[3]))


def loop_frame(ex, spec, s):
    """Values of the loop's declared `modifies` expressions, evaluated at the loop head (None when nothing is declared)."""
    if "modifies" not in spec:
        return None
    if spec["modifies"] == "non-entry":
        return "non-entry"
    out = []
    for m in spec["modifies"]:
        ex.pure_depth += 1
        try:
            v = ex.ev1(ast.parse(m, mode="eval").body, s.fork())
        finally:
            ex.pure_depth -= 1
        if not isinstance(v, Val):
            raise Unsupported(f"loop modifies clause `{m}` does not denote a container")
        out.append(v)
    return out


def loop_frame_obligations(ex, lname, spec, frame, w0, pre_fresh):
    """Soundness of the declared loop frame: every write recorded while executing the body targets a declared container or
    an object allocated during the iteration (neither entry-allocated nor allocated before the loop head)."""
    from .exec import Obligation
    for n, (kind, base, pc) in enumerate(ex.writes[w0:]):
        if kind.startswith("attr:"):
            continue  # field arrays assigned in the body are forgotten wholesale at the loop head
        if frame == "non-entry":
            ex.obligations.append(Obligation(f"{lname}.frame.write{n}[{kind}]", "loop-frame", pc, z3.Not(smt.Alloc0(base.t)),
                                             {"clause": "loop writes only to objects allocated by this function", "target": str(base.t)}, aux=True))
            continue
        local = z3.And(z3.Not(smt.Alloc0(base.t)), smt.SkFam(base.t) == 0, *[base.t != o for o in pre_fresh])
        goal = z3.Or(local, *[base.t == f.t for f in frame])
        ex.obligations.append(Obligation(f"{lname}.frame.write{n}[{kind}]", "loop-frame", pc, goal,
                                         {"clause": f"loop writes only to {spec['modifies']} or to objects allocated in the iteration", "target": str(base.t)}, aux=True))


def fresh_like(v, s: St, name="x"):
    if isinstance(v, IVal):
        return IVal(smt.fresh_int(name))
    if isinstance(v, BVal):
        return BVal(smt.fresh_bool(name))
    if isinstance(v, Val):
        nv = Val(smt.fresh_v(name), v.ty if v.ty != NONE_T else ANY)
        s.assume(*type_facts(nv, s))
        return nv
    if isinstance(v, TupVal):
        return TupVal([fresh_like(x, s, name) for x in v.items])
    return v


def loop_spec(ex, node):
    """Sidecar invariants for this loop (keyed by ordinal in source order)."""
    idx = ex.loop_ordinal(node)
    specs = ex.loop_specs
    if idx < len(specs) and specs[idx] is not None:
        return idx, specs[idx]
    return idx, {}


def st_For(ex, node, st):
    idx, spec = loop_spec(ex, node)
    invs = spec.get("invariant", [])
    for s, itv in ex.ev(node.iter, st):
        if isinstance(itv, Raised):
            yield s, _raise_out(itv)
            continue
        view = ex.iter_view(itv, s)
        s.assume(*view.facts)
        # small literal tuples: unroll
        if isinstance(itv, TupVal) and len(itv.items) <= 4 and not invs:
            yield from _unroll(ex, node, itv.items, s)
            continue
        lname = f"loop{idx}"
        if spec.get("bound"):
            # the loop runs at most `bound` iterations: the iterated range has exactly that length
            b = as_int(ex.ev1(__import__("ast").parse(spec["bound"], mode="eval").body, s.fork()))
            ex.oblige(f"{lname}.bound", "post", s, z3.Implies(b >= 0, view.len == b), {"clause": f"loop {idx} iterates at most {spec['bound']} times"})
        # 1. invariant holds on entry (i = 0)
        s.env["_i"] = IVal(0)
        s.env["_seq"] = view
        s.env[f"_i{idx}"] = IVal(0)
        s.env[f"_seq{idx}"] = view
        if view.keys is not None:
            s.env["_keys"] = view.keys
            s.env[f"_keys{idx}"] = view.keys
        if spec.get("over"):
            # the specification names the sequence this loop scans: the iterated view is, position by position, that sequence
            # (so a loop re-headed onto ANOTHER sequence fails a named obligation instead of silently losing its invariants)
            ov = spec["over"]
            ovv = ex.iter_view(ex.ev1(ast.parse(ov, mode="eval").body, s.fork()), s)
            s.assume(*ovv.facts)
            oj = smt.fresh_int("oj")
            g = z3.And(view.len == ovv.len, z3.ForAll([oj], z3.Implies(z3.And(0 <= oj, oj < view.len), to_v(view.at(oj), s) == to_v(ovv.at(oj), s))))
            ex.oblige(f"{lname}.over", "inv-init", s, g, {"clause": f"loop {idx} scans `{ov}` in order"}, aux=True)
        for k, inv in enumerate(invs):
            g = ex.eval_clause(inv, s)
            ex.oblige(f"{lname}.inv{k}.init", "inv-init", s, g, {"clause": inv}, aux=True)
        # 2. arbitrary iteration
        frame = loop_frame(ex, spec, s)
        hs = havoc_for_loop(ex, node.body + node.orelse, s, (), only=frame)
        w0, pre_fresh = len(ex.writes), list(hs.fresh)
        i = smt.fresh_int(f"i{idx}")
        hs.env["_i"] = IVal(i)
        hs.env[f"_i{idx}"] = IVal(i)
        hs.env["_seq"] = view
        hs.env[f"_seq{idx}"] = view
        if view.keys is not None:
            hs.env["_keys"] = view.keys
            hs.env[f"_keys{idx}"] = view.keys
        hs.assume(0 <= i, i <= view.len)
        for inv in invs:
            hs.assume(ex.eval_clause_assume(inv, hs))
        body_s = hs.fork().assume(i < view.len)
        if ex.feasible(body_s):
            mark = len(body_s.trace)
            body_s.trace.append(("loop-iter", idx))
            ex.bind_target(node.target, view.at(i), body_s)
            tv = body_s.env.get(node.target.id) if isinstance(node.target, ast.Name) else None
            if isinstance(tv, Val):
                body_s.assume(*type_facts(tv, body_s))
            for s2, out in exec_block(ex, node.body, body_s):
                if out.kind in (NORMAL, "continue"):
                    for k, bt in enumerate(spec.get("body_trace", [])):
                        ok = bt["check"](s2.trace[mark:], "iter", None, s2.env, ex, s2)
                        ex.oblige(f"{lname}.body_trace{k}", "post", s2, ok if z3.is_expr(ok) else z3.BoolVal(bool(ok)), {"clause": bt["name"], "trace": [str(e[:2]) for e in s2.trace[mark:]][:30]})
                    s2.env["_i"] = IVal(i + 1)
                    s2.env["_seq"] = view
                    s2.env[f"_i{idx}"] = IVal(i + 1)
                    for k, inv in enumerate(invs):
                        g = ex.eval_clause(inv, s2)
                        ex.oblige(f"{lname}.inv{k}.preserved", "inv-pres", s2, g, {"clause": inv}, aux=True)
                elif out.kind == "break":
                    s2.env.pop("_i", None)
                    yield s2, Outcome(NORMAL)
                else:
                    yield s2, out
            if frame is not None:
                loop_frame_obligations(ex, lname, spec, frame, w0, pre_fresh)
        # 3. exhaustion
        end_s = hs.fork().assume(i == view.len)
        if ex.feasible(end_s):
            end_s.trace.append(("loop-exhausted", idx))
            if node.orelse:
                yield from exec_block(ex, node.orelse, end_s)
            else:
                yield end_s, Outcome(NORMAL)


def _unroll(ex, node, items, s):
    states = [s]
    for it in items:
        nxt = []
        for s1 in states:
            ex.bind_target(node.target, it, s1)
            for s2, out in exec_block(ex, node.body, s1):
                if out.kind in (NORMAL, "continue"):
                    nxt.append(s2)
                elif out.kind == "break":
                    yield s2, Outcome(NORMAL)
                else:
                    yield s2, out
        states = nxt
    for s1 in states:
        if node.orelse:
            yield from exec_block(ex, node.orelse, s1)
        else:
            yield s1, Outcome(NORMAL)


st_AsyncFor = st_For


def st_While(ex, node, st):
    idx, spec = loop_spec(ex, node)
    invs = spec.get("invariant", [])
    lname = f"loop{idx}"
    for k, inv in enumerate(invs):
        ex.oblige(f"{lname}.inv{k}.init", "inv-init", st, ex.eval_clause(inv, st), {"clause": inv}, aux=True)
    hs = havoc_for_loop(ex, node.body + node.orelse, st, ())
    for inv in invs:
        hs.assume(ex.eval_clause_assume(inv, hs))
    for s, c in ex.ev(node.test, hs):
        if isinstance(c, Raised):
            yield s, _raise_out(c)
            continue
        t = truth(c, s)
        body_s = s.fork().assume(t)
        if ex.feasible(body_s):
            for s2, out in exec_block(ex, node.body, body_s):
                if out.kind in (NORMAL, "continue"):
                    for k, inv in enumerate(invs):
                        ex.oblige(f"{lname}.inv{k}.preserved", "inv-pres", s2, ex.eval_clause(inv, s2), {"clause": inv}, aux=True)
                elif out.kind == "break":
                    yield s2, Outcome(NORMAL)
                else:
                    yield s2, out
        end_s = s.fork().assume(z3.Not(t))
        if ex.feasible(end_s):
            if node.orelse:
                yield from exec_block(ex, node.orelse, end_s)
            else:
                yield end_s, Outcome(NORMAL)
