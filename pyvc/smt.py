"""SMT layer of pyvc: the universal value sort, heap components, tags.

Everything Python-level is a term of the uninterpreted sort V; Python ints and bools known
statically are kept unboxed (z3 Int / Bool).  Containers live in a Dafny-style heap: arrays
indexed by reference.  See DESIGN.md section 2.2 for the semantics this encodes.
"""
from __future__ import annotations

import itertools
import z3

V = z3.DeclareSort("V")
VB = z3.ArraySort(V, z3.BoolSort())
VV = z3.ArraySort(V, V)
IV = z3.ArraySort(z3.IntSort(), V)

_counter = itertools.count()


def fresh_name(prefix: str) -> str:
    return f"{prefix}!{next(_counter)}"


BINDER_DEPTH = [0]


def push_binder(prefix: str) -> str:
    """Deterministic name (by nesting depth) for a variable about to be bound by a quantifier: alpha-equivalent
    clauses evaluated twice then become syntactically equal terms.  Must be paired with pop_binder()."""
    BINDER_DEPTH[0] += 1
    return f"{prefix}%{BINDER_DEPTH[0]}"


def pop_binder():
    BINDER_DEPTH[0] -= 1


CREATED: list = []  # every constant made by fresh_v / fresh_int / fresh_bool, in creation order (comprehension capture)


def fresh_v(prefix: str = "v"):
    c = z3.Const(fresh_name(prefix), V)
    CREATED.append(c)
    return c


# Event clock (allocation order, used ONLY syntactically by the heap rewriter): every allocation and every creation of
# a heap array constant (entry heap = 0, havoc of a container / of the whole heap) gets the next number.  Along one
# symbolic path events are numbered in execution order, so "allocated after the array was created" is a comparison.
EVENT: dict[str, int] = {}
_clock = [0]


EXISTING: set = set()  # names of constants that denote objects handed in by a callee (opaque results): they existed when created
NONNEG: set = set()  # names of integer binders introduced under a guard 0 <= j (comprehension / quantifier indices)


def tick(name: str) -> int:
    _clock[0] += 1
    EVENT[name] = _clock[0]
    return _clock[0]


# Birth order for the SOLVER (the rewriter uses EVENT syntactically): Birth(r) = event number of the allocation of r;
# every value held in a heap array constant created at event e (havoc) has Birth < e.  Hence a reference allocated later
# differs from everything read out of that array.
Birth = z3.Function("Birth", V, z3.IntSort())
HAVOC_CONSTS: dict[str, tuple] = {}  # name -> (array constant, component key)


def birth_facts_since(clock0: int):
    """Birth facts for the heap array constants created after event clock0 (stated once, where they are created)."""
    out = []
    r, k = z3.Const("bf_r", V), z3.Const("bf_k", V)
    i = z3.Int("bf_i")
    for name, (arr, comp) in list(HAVOC_CONSTS.items()):
        e = EVENT.get(name)
        if e is None or e <= clock0:
            continue
        if comp not in ("dv", "sa", "dh", "sh", "field") or not isinstance(arr.sort(), z3.ArraySortRef):
            continue
        dom, rng = arr.sort().domain(), arr.sort().range()
        if comp in ("dv", "sa"):
            if isinstance(rng, z3.ArraySortRef):   # outer: V -> (index -> V)
                j = k if rng.domain() == V else i
                t = arr[r][j]
                out.append(z3.ForAll([r, j], Birth(t) < e, patterns=[t]))
            else:                       # inner: index -> V
                j = k if dom == V else i
                t = arr[j]
                out.append(z3.ForAll([j], Birth(t) < e, patterns=[t]))
        elif comp in ("dh", "sh"):
            if isinstance(rng, z3.ArraySortRef):
                t = arr[r][k]
                out.append(z3.ForAll([r, k], z3.Implies(t, Birth(k) < e), patterns=[t]))
            else:
                t = arr[k]
                out.append(z3.ForAll([k], z3.Implies(t, Birth(k) < e), patterns=[t]))
        elif comp == "field":
            t = arr[r]
            out.append(z3.ForAll([r], Birth(t) < e, patterns=[t]))
    return out


# heap array constant created by a loop cut with frame "non-entry"  ->  the array it replaced (they agree on every
# entry-allocated reference: asserted as a quantified fact where the constant is created, used syntactically by the rewriter)
FRAME_OF: dict[str, "z3.ExprRef"] = {}


# family id of references created per element of a comprehension (0: an individually allocated reference)
SkFam = z3.Function("SkFam", V, z3.IntSort())
_fam_counter = [0]


def next_family():
    _fam_counter[0] += 1
    return _fam_counter[0]


def fresh_int(prefix: str = "i"):
    c = z3.Int(fresh_name(prefix))
    CREATED.append(c)
    return c


def fresh_bool(prefix: str = "b"):
    c = z3.Bool(fresh_name(prefix))
    CREATED.append(c)
    return c


# ---- distinguished constants -------------------------------------------------------------
NONE = z3.Const("py_None", V)
TRUE = z3.Const("py_True", V)
FALSE = z3.Const("py_False", V)

# tags
is_str = z3.Function("tag_str", V, z3.BoolSort())
is_int = z3.Function("tag_int", V, z3.BoolSort())
is_bool = z3.Function("tag_bool", V, z3.BoolSort())
is_list = z3.Function("tag_list", V, z3.BoolSort())
is_tuple = z3.Function("tag_tuple", V, z3.BoolSort())
is_dict = z3.Function("tag_dict", V, z3.BoolSort())
is_set = z3.Function("tag_set", V, z3.BoolSort())
is_sentinel = z3.Function("tag_sentinel", V, z3.BoolSort())  # module-level singleton objects / enum members
is_exc = z3.Function("tag_exc", V, z3.BoolSort())
truthy = z3.Function("truthy", V, z3.BoolSort())
ueq = z3.Function("ueq", V, V, z3.BoolSort())  # user-level __eq__ on opaque values
ival = z3.Function("ival", V, z3.IntSort())
_boxed: dict = {}
BOX_FACTS: list = []


_BINDER_PREFIXES = {"nx2", "stj", "lj", "zj", "zj2", "pj", "aj", "uj", "xj", "ci", "q", "a", "b", "j2", "ei", "bf_i"}
box = z3.Function("box", z3.IntSort(), V)


def mentions_binder(t) -> bool:
    """The Int term mentions a constant that stands for a variable bound (or about to be bound) by a quantifier/lambda."""
    seen, stack = set(), [t]
    while stack:
        x = stack.pop()
        if x.get_id() in seen or not z3.is_app(x):
            continue
        seen.add(x.get_id())
        if z3.is_const(x) and x.decl().kind() == z3.Z3_OP_UNINTERPRETED:
            n = x.decl().name()
            if "%" in n or ("!" in n and n.split("!")[0] in _BINDER_PREFIXES):
                return True
        stack.extend(x.children())
    return False


def mkint(i):
    """Box an Int expression: one V constant per distinct GROUND expression, tied by ival (no quantified inverse).  An
    expression that depends on a bound variable is boxed by the function `box` instead (one box per value of the variable):
    a memoised constant there would make every element of a comprehension the same object."""
    i = i if z3.is_expr(i) else z3.IntVal(int(i))
    if not z3.is_int_value(i) and mentions_binder(i):
        return box(i)
    key = i.get_id()
    if key not in _boxed:
        c = z3.Const(f"int:{i}" if z3.is_int_value(i) else fresh_name("boxed"), V)
        _boxed[key] = (c, i)
        BOX_FACTS.extend([is_int(c), ival(c) == i, Alloc0(c)])
    return _boxed[key][0]
Alloc0 = z3.Function("Alloc0", V, z3.BoolSort())  # allocated at function entry

_inst_preds: dict[str, z3.FuncDeclRef] = {}


def inst_pred(clsname: str):
    if clsname not in _inst_preds:
        _inst_preds[clsname] = z3.Function(f"inst_{clsname}", V, z3.BoolSort())
    return _inst_preds[clsname]


_attr_funcs: dict[str, z3.FuncDeclRef] = {}


def attr_func(name: str):
    if name not in _attr_funcs:
        _attr_funcs[name] = z3.Function(f"A_{name}", V, V)
    return _attr_funcs[name]


_meth_funcs: dict[tuple, z3.FuncDeclRef] = {}


def meth_func(name: str, nargs: int):
    key = (name, nargs)
    if key not in _meth_funcs:
        _meth_funcs[key] = z3.Function(f"M_{name}_{nargs}", *([V] * (nargs + 1)), V)
    return _meth_funcs[key]


_str_consts: dict[str, z3.ExprRef] = {}


def str_const(s: str):
    if s not in _str_consts:
        _str_consts[s] = z3.Const(f"str:{s}", V)
    return _str_consts[s]


_sentinels: dict[str, z3.ExprRef] = {}


def sentinel(name: str):
    if name not in _sentinels:
        _sentinels[name] = z3.Const(f"sentinel:{name}", V)
    return _sentinels[name]


def simple(t):
    """Values whose == is identity of the term (strings, None, sentinels, bools, boxed ints)."""
    return z3.Or(is_str(t), t == NONE, is_sentinel(t), is_bool(t), is_int(t))


def base_axioms():
    """Ground and quantified facts true of every Python state (re-evaluated for each query)."""
    ax = []
    v = z3.Const("ax_v", V)
    i = z3.Int("ax_i")
    consts = [NONE, TRUE, FALSE] + list(_str_consts.values()) + list(_sentinels.values())
    if len(consts) > 1:
        ax.append(z3.Distinct(*consts))
    for s in _str_consts.values():
        ax += [is_str(s), Alloc0(s)]
    for s in _sentinels.values():
        ax += [is_sentinel(s), Alloc0(s), truthy(s)]
    ax += [is_bool(TRUE), is_bool(FALSE), truthy(TRUE), z3.Not(truthy(FALSE)), z3.Not(truthy(NONE))]
    ax.append(z3.ForAll([v], z3.Implies(is_bool(v), z3.Or(v == TRUE, v == FALSE)), patterns=[is_bool(v)]))
    ax += [Alloc0(NONE), Alloc0(TRUE), Alloc0(FALSE)]
    # kinds are mutually exclusive
    kinds = [is_str, is_int, is_bool, is_list, is_tuple, is_dict, is_set, is_sentinel, is_exc]
    for a, b in itertools.combinations(kinds, 2):
        ax.append(z3.ForAll([v], z3.Not(z3.And(a(v), b(v))), patterns=[z3.MultiPattern(a(v), b(v))]))
    for k in kinds:
        ax.append(z3.Not(k(NONE)))
    # boxed ints: equal integers are the same value
    a, b = z3.Const("ax_a", V), z3.Const("ax_b", V)
    ax.append(z3.ForAll([a, b], z3.Implies(z3.And(is_int(a), is_int(b), ival(a) == ival(b)), a == b), patterns=[z3.MultiPattern(is_int(a), is_int(b))]))
    # objects that exist at function entry belong to no comprehension family
    ax.append(z3.ForAll([v], z3.Implies(Alloc0(v), SkFam(v) == 0), patterns=[SkFam(v)]))
    ax += BOX_FACTS
    n = z3.Int("ax_n")
    ax.append(z3.ForAll([n], z3.And(is_int(box(n)), ival(box(n)) == n, Alloc0(box(n))), patterns=[box(n)]))
    # class predicates: objects of repo classes are none of the builtin kinds and are truthy
    return ax


class Heap:
    """Immutable bundle of heap component arrays; functional updates return a new Heap."""

    COMPONENTS = {
        "dh": z3.ArraySort(V, VB),  # dict: key membership
        "dv": z3.ArraySort(V, VV),  # dict: values
        "dn": z3.ArraySort(V, z3.IntSort()),  # dict: number of keys
        "sl": z3.ArraySort(V, z3.IntSort()),  # list/tuple: length
        "sa": z3.ArraySort(V, IV),  # list/tuple: elements
        "sh": z3.ArraySort(V, VB),  # set: membership
        "sn": z3.ArraySort(V, z3.IntSort()),  # set: cardinality
    }

    def __init__(self, comps: dict, fields: dict | None = None):
        self.c = comps
        self.f = fields or {}  # attribute name -> Array(V,V), only for attributes assigned in the function

    @classmethod
    def initial(cls, tag: str = "0", field_names=()):
        comps = {k: z3.Const(f"H{tag}_{k}", s) for k, s in cls.COMPONENTS.items()}
        fields = {n: z3.Const(f"H{tag}_f_{n}", VV) for n in field_names}
        for a in list(comps.values()) + list(fields.values()):
            EVENT[a.decl().name()] = 0
        return cls(comps, fields)

    def with_comp(self, k, arr):
        c = dict(self.c)
        c[k] = arr
        return Heap(c, self.f)

    def with_field(self, name, arr):
        f = dict(self.f)
        f[name] = arr
        return Heap(self.c, f)

    def havoc_all(self, comps=None, fields=None):
        c = dict(self.c)
        for k in comps if comps is not None else list(c):
            c[k] = z3.Const(fresh_name(f"H_{k}"), self.COMPONENTS[k])
            tick(c[k].decl().name())
            HAVOC_CONSTS[c[k].decl().name()] = (c[k], k)
        f = dict(self.f)
        for n in fields if fields is not None else list(f):
            f[n] = z3.Const(fresh_name(f"H_f_{n}"), VV)
            tick(f[n].decl().name())
            HAVOC_CONSTS[f[n].decl().name()] = (f[n], "field")
        return Heap(c, f)

    def havoc_ref(self, k, ref):
        """Forget the contents of one container (component k) only."""
        rng = self.COMPONENTS[k].range()
        hv = z3.Const(fresh_name(f"hv_{k}"), rng)
        tick(hv.decl().name())
        HAVOC_CONSTS[hv.decl().name()] = (hv, k)
        return self.with_comp(k, z3.Store(self.c[k], ref, hv))


def heap_wellformed(h: Heap):
    """Facts about any heap: sizes are non-negative and agree with emptiness."""
    r = z3.Const("hw_r", V)
    k = z3.Const("hw_k", V)
    ax = [
        z3.ForAll([r], h.c["sl"][r] >= 0, patterns=[h.c["sl"][r]]),
        z3.ForAll([r], h.c["dn"][r] >= 0, patterns=[h.c["dn"][r]]),
        z3.ForAll([r], h.c["sn"][r] >= 0, patterns=[h.c["sn"][r]]),
        z3.ForAll([r, k], z3.Implies(h.c["dh"][r][k], h.c["dn"][r] > 0), patterns=[h.c["dh"][r][k]]),
        z3.ForAll([r, k], z3.Implies(h.c["sh"][r][k], h.c["sn"][r] > 0), patterns=[h.c["sh"][r][k]]),
    ]
    return ax


def alloc_closure(h0: Heap):
    """Everything reachable from an entry-allocated container in the ENTRY heap is entry-allocated."""
    r = z3.Const("ac_r", V)
    k = z3.Const("ac_k", V)
    i = z3.Int("ac_i")
    ax = [
        z3.ForAll([r, k], z3.Implies(z3.And(Alloc0(r), h0.c["dh"][r][k]), z3.And(Alloc0(h0.c["dv"][r][k]), Alloc0(k))), patterns=[h0.c["dv"][r][k]]),
        z3.ForAll([r, i], z3.Implies(Alloc0(r), Alloc0(h0.c["sa"][r][i])), patterns=[h0.c["sa"][r][i]]),
        z3.ForAll([r, k], z3.Implies(z3.And(Alloc0(r), h0.c["sh"][r][k]), Alloc0(k)), patterns=[h0.c["sh"][r][k]]),
    ]
    for name, f in _attr_funcs.items():
        ax.append(z3.ForAll([r], z3.Implies(Alloc0(r), Alloc0(f(r))), patterns=[f(r)]))
    for name, arr in h0.f.items():
        ax.append(z3.ForAll([r], z3.Implies(Alloc0(r), Alloc0(arr[r])), patterns=[arr[r]]))
    for (name, n), f in _meth_funcs.items():
        vs = [z3.Const(f"ac_a{j}", V) for j in range(n + 1)]
        ax.append(z3.ForAll(vs, Alloc0(f(*vs)), patterns=[f(*vs)]))
    return ax


def heap_wellformed_ref(h: Heap, ref, kind: str):
    """Size/emptiness facts for one container reference (kind: 'd' dict, 's' set, 'q' seq)."""
    k = z3.Const(fresh_name("wk"), V)
    if kind == "q":
        return [h.c["sl"][ref] >= 0]
    has, size = (h.c["dh"][ref], h.c["dn"][ref]) if kind == "d" else (h.c["sh"][ref], h.c["sn"][ref])
    k2 = z3.Const(fresh_name("wk"), V)
    return [
        size >= 0,
        z3.ForAll([k], z3.Implies(has[k], size > 0)),
        z3.Implies(size > 0, z3.Exists([k], has[k])),
        # more than one element  <=>  two different members
        z3.Implies(size > 1, z3.Exists([k, k2], z3.And(has[k], has[k2], k != k2))),
        z3.Implies(size <= 1, z3.ForAll([k, k2], z3.Implies(z3.And(has[k], has[k2]), k == k2))),
    ]


def forall(vs, body, patterns=None):
    """ForAll with explicit patterns when they are valid patterns (no ite etc.), else solver-chosen patterns."""
    if patterns:
        try:
            return z3.ForAll(vs, body, patterns=patterns)
        except z3.Z3Exception:
            pass
    return z3.ForAll(vs, body)
