"""Symbolic value wrappers and the small static type language of pyvc."""
from __future__ import annotations

try:  # the type vocabulary below is also imported by the native harness (/venv python has no z3)
    import z3

    from . import smt
except ImportError:  # pragma: no cover
    z3 = None
    smt = None

# ---- static types (guide the encoding; every V-term also has dynamic tags) -----------------
ANY = ("any",)
STR = ("str",)
INT = ("int",)
BOOL = ("bool",)
NONE_T = ("none",)
EXC = ("exc",)


def SEQ(t=ANY):
    return ("seq", t)


def DICT(k=STR, v=ANY):
    return ("dict", k, v)


def SET(t=STR):
    return ("set", t)


def OBJ(cls):
    return ("obj", cls)


def OPT(t):
    return ("opt", t)


def FIXTUP(*ts):
    return ("fixtup", tuple(ts))


class Val:
    """A V-sorted term with a static type."""

    __slots__ = ("t", "ty")

    def __init__(self, t, ty=ANY):
        self.t = t
        self.ty = ty

    def __repr__(self):
        return f"Val({self.t}:{self.ty})"


class BVal:
    __slots__ = ("b",)

    def __init__(self, b):
        self.b = b if z3.is_expr(b) else z3.BoolVal(bool(b))

    def __repr__(self):
        return f"BVal({self.b})"


class IVal:
    __slots__ = ("i",)

    def __init__(self, i):
        self.i = i if z3.is_expr(i) else z3.IntVal(int(i))

    def __repr__(self):
        return f"IVal({self.i})"


class TupVal:
    """A Python tuple of statically known length (kept unboxed)."""

    __slots__ = ("items",)

    def __init__(self, items):
        self.items = list(items)

    def __repr__(self):
        return f"TupVal({self.items})"


class PyVal:
    """A concrete Python-level object the engine knows statically (class, function, module...)."""

    __slots__ = ("obj", "name")

    def __init__(self, obj, name=""):
        self.obj = obj
        self.name = name or getattr(obj, "__name__", repr(obj))

    def __repr__(self):
        return f"PyVal({self.name})"


class SeqView:
    """Uniform (len, at) view used for iteration and quantification."""

    __slots__ = ("len", "at", "elem_ty", "facts", "keys", "index_of")

    def __init__(self, length, at, elem_ty=ANY, facts=None, keys=None, index_of=None):
        self.index_of = index_of  # enumeration views: V term -> Int index (inverse of `at`), avoids an existential
        self.keys = keys  # for dict.values()/items(): the view of the corresponding keys
        self.len = length
        self.at = at  # python callable: z3 Int -> value
        self.elem_ty = elem_ty
        self.facts = facts or []  # z3 facts defining the view (to be assumed)


class BoundMethod:
    __slots__ = ("self_val", "name")

    def __init__(self, self_val, name):
        self.self_val = self_val
        self.name = name

    def __repr__(self):
        return f"BoundMethod({self.self_val}.{self.name})"


class Raised:
    """Outcome of an evaluation that raised."""

    __slots__ = ("cls", "exc", "info")

    def __init__(self, cls: str, exc=None, info=None):
        self.cls = cls  # class name
        self.exc = exc  # Val of the exception object (may be None)
        self.info = info or {}

    def __repr__(self):
        return f"Raised({self.cls})"


class Unsupported(Exception):
    """Construct outside the engine's subset: the function falls back to BOUNDED."""


def ty_elem(ty):
    if ty[0] in ("seq", "set"):
        return ty[1]
    if ty[0] == "dict":
        return ty[1]
    return ANY


def strip_opt(ty):
    return ty[1] if ty[0] == "opt" else ty
