"""Developer tool: export one obligation as SMT-LIB2 and try several solver configurations."""
import subprocess, sys, time, z3
from pyvc.project import Project
from pyvc.vc import FunctionVC

def main():
    key_sub, ob_sub = sys.argv[1], sys.argv[2]
    nth = int(sys.argv[3]) if len(sys.argv) > 3 else 0
    proj = Project()
    key = [k for k in proj.contracts if key_sub in k][0]
    vc = FunctionVC(proj, key, proj.contracts[key])
    obs = [o for o in vc.run() if ob_sub in o.name]
    ob = obs[nth]
    print(ob.name, ob.info.get("path"))
    from pyvc.rewrite import HeapRewriter
    rw = HeapRewriter(ob.pc, proj.model.decl.REGION_ATTRS)
    s = z3.Solver()
    s.add(*vc.axioms()); s.add(*[rw.rw(f) for f in ob.pc]); s.add(z3.Not(rw.rw(ob.goal)))
    open("/tmp/ob.smt2", "w").write("(set-logic ALL)\n" + s.to_smt2())
    print("pc size", len(ob.pc))
    for cmd in (["z3", "-T:20", "smt.mbqi=false", "/tmp/ob.smt2"], ["z3-new", "-T:20", "smt.mbqi=false", "/tmp/ob.smt2"], ["z3-new", "-T:20", "/tmp/ob.smt2"], ["cvc5", "--tlimit=20000", "/tmp/ob.smt2"], ["cvc5", "--tlimit=20000", "--enum-inst", "/tmp/ob.smt2"]):
        t0 = time.time()
        try:
            out = subprocess.run(cmd, capture_output=True, text=True, timeout=40).stdout.strip()[:80]
        except Exception as e:
            out = repr(e)[:80]
        print(" ".join(cmd[:3]), "->", out, f"{time.time()-t0:.1f}s")
main()
