"""pyvc project: real sources of /repo (re-read on every run), sidecar contracts, spec functions."""
from __future__ import annotations

import ast
import hashlib
import importlib
import os
import sys

REPO = os.environ.get("VERIF_REPO", "/repo")
SRC = os.path.join(REPO, "src")
PKG = os.path.join(SRC, "hypergraph")
VERIF = os.path.dirname(os.path.dirname(os.path.abspath(__file__)))

DROPPED = [
    "docstrings", "type annotations", "TYPE_CHECKING imports", "text of f-strings / exception messages (kept as opaque non-empty str)",
    "logger.* calls (assumed effect-free, non-raising)", "comments",
]


class Project:
    def __init__(self):
        if SRC not in sys.path:
            sys.path.insert(0, SRC)
        if VERIF not in sys.path:
            sys.path.insert(0, VERIF)
        self._asts: dict[str, ast.Module] = {}
        self._funcs: dict[str, ast.AST] = {}
        self.contracts: dict[str, dict] = {}
        self.spec_module = importlib.import_module("contracts.spec")
        self.spec_functions = {n: f for n, f in vars(self.spec_module).items() if callable(f) and getattr(f, "__module__", None) == "contracts.spec"}
        self._spec_ast = ast.parse(open(self.spec_module.__file__).read())
        from .model import Model
        self.model = Model(importlib.import_module("contracts.model_decl"))
        self.load_contracts()

    # ---- sources -------------------------------------------------------------------------
    def module_ast(self, relpath: str) -> ast.Module:
        if relpath not in self._asts:
            with open(os.path.join(PKG, relpath)) as f:
                self._asts[relpath] = ast.parse(f.read(), filename=relpath)
        return self._asts[relpath]

    def function_ast(self, key: str):
        """key = 'relative/path.py:Qual.name' -> the FunctionDef node of the REAL source."""
        if key in self._funcs:
            return self._funcs[key]
        relpath, qual = key.split(":")
        node: ast.AST = self.module_ast(relpath)
        for part in qual.split("."):
            found = None
            for ch in ast.iter_child_nodes(node):
                if isinstance(ch, (ast.FunctionDef, ast.AsyncFunctionDef, ast.ClassDef)) and ch.name == part:
                    found = ch
                    break
            if found is None:
                # nested closure inside a function body
                for ch in ast.walk(node):
                    if isinstance(ch, (ast.FunctionDef, ast.AsyncFunctionDef)) and ch.name == part and ch is not node:
                        found = ch
                        break
            if found is None:
                raise KeyError(f"contract anchor not found in source: {key}")
            node = found
        self._funcs[key] = node
        return node

    def is_property(self, key: str) -> bool:
        node = self.function_ast(key)
        for d in getattr(node, "decorator_list", []):
            txt = ast.unparse(d)
            if txt in ("property", "functools.cached_property", "cached_property"):
                return True
        return False

    def function_hash(self, key: str) -> str:
        node = self.function_ast(key)
        return hashlib.sha256(ast.dump(strip_docstring(node)).encode()).hexdigest()[:16]

    def function_shape(self, key: str) -> list:
        """Loop statements of the function in source order (the sidecar loop specifications are keyed by this ordinal)."""
        loops = [n for n in ast.walk(self.function_ast(key)) if isinstance(n, (ast.For, ast.AsyncFor, ast.While))]
        loops.sort(key=lambda n: (n.lineno, n.col_offset))
        out = []
        for n in loops:
            head = ast.unparse(n.test) if isinstance(n, ast.While) else f"{ast.unparse(n.target)} in {ast.unparse(n.iter)}"
            out.append(f"{type(n).__name__} {head}")
        return out

    def spec_ast(self, name: str):
        for n in self._spec_ast.body:
            if isinstance(n, ast.FunctionDef) and n.name == name:
                return n
        raise KeyError(name)

    def import_module(self, name: str):
        return importlib.import_module(name)

    def key_for_function(self, obj):
        """Real function object -> contract key, when it lives in the repo package."""
        mod = getattr(obj, "__module__", None)
        qual = getattr(obj, "__qualname__", None)
        if not mod or not qual or not mod.startswith("hypergraph") or "<locals>" in qual:
            return None
        rel = mod[len("hypergraph."):].replace(".", "/") + ".py" if mod != "hypergraph" else "__init__.py"
        if not os.path.exists(os.path.join(PKG, rel)):
            rel2 = mod[len("hypergraph."):].replace(".", "/") + "/__init__.py"
            if os.path.exists(os.path.join(PKG, rel2)):
                rel = rel2
            else:
                return None
        return f"{rel}:{qual}"

    # ---- contracts -----------------------------------------------------------------------
    def load_contracts(self):
        cdir = os.path.join(VERIF, "contracts")
        for fn in sorted(os.listdir(cdir)):
            if fn.startswith("c_") and fn.endswith(".py"):
                m = importlib.import_module(f"contracts.{fn[:-3]}")
                for key, c in m.CONTRACTS.items():
                    if key in self.contracts:
                        raise ValueError(f"duplicate contract {key}")
                    c.setdefault("sidecar", fn)
                    self.contracts[key] = c
        importlib.import_module("contracts.tags").extend(self.contracts)


def strip_docstring(node):
    import copy
    n = copy.deepcopy(node)
    for x in ast.walk(n):
        if isinstance(x, (ast.FunctionDef, ast.AsyncFunctionDef, ast.ClassDef)) and x.body and isinstance(x.body[0], ast.Expr) and isinstance(getattr(x.body[0], "value", None), ast.Constant) and isinstance(x.body[0].value.value, str):
            x.body = x.body[1:] or [ast.Pass()]
    return n
