"""pyvc executor: expressions, statements, loops, calls.  See DESIGN.md section 2."""
from __future__ import annotations

import ast
import builtins
import importlib
import z3

from . import smt
from .smt import V, Heap
from .values import (ANY, STR, INT, BOOL, NONE_T, EXC, SEQ, DICT, SET, OBJ, OPT, FIXTUP, Val, BVal, IVal, TupVal, PyVal,
                     SeqView, BoundMethod, Raised, Unsupported, strip_opt)
from .engine import (St, REG, to_v, lift, truth, as_int, eq, identical, alloc, alloc_seq, alloc_dict, alloc_set, dict_has,
                     dict_get, dict_store, dict_del, set_add, seq_append, seq_view, contains, type_facts, seq_eq)

NORMAL = "normal"


class Outcome:
    __slots__ = ("kind", "val")

    def __init__(self, kind, val=None):
        self.kind = kind  # normal | return | raise | break | continue
        self.val = val

    def __repr__(self):
        return f"Outcome({self.kind},{self.val})"


class Obligation:
    def __init__(self, name, kind, pc, goal, info=None, aux=False):
        self.name = name
        self.kind = kind  # post | raise | noraise | callee-pre | inv-init | inv-pres | safety | cover | mustfail | lemma
        self.pc = list(pc)
        self.goal = goal
        self.info = info or {}
        self.aux = aux  # auxiliary obligations never produce a VIOLATION by themselves


def is_succ(e):
    """e is syntactically  t + 1."""
    return z3.is_app(e) and e.decl().kind() == z3.Z3_OP_ADD and e.num_args() == 2 and z3.is_int_value(e.arg(1)) and e.arg(1).as_long() == 1


def _consts_of(t):
    """Uninterpreted constants occurring in a term."""
    out, seen, stack = [], set(), [t]
    while stack:
        x = stack.pop()
        if x.get_id() in seen:
            continue
        seen.add(x.get_id())
        if z3.is_quantifier(x):
            stack.append(x.body())
        elif z3.is_app(x):
            if z3.is_const(x) and x.decl().kind() == z3.Z3_OP_UNINTERPRETED:
                out.append(x)
            stack.extend(x.children())
    return out


def ok_pattern(t, j):
    """A term usable as an E-matching pattern: uninterpreted/select applications only, mentioning the bound variable."""
    if not z3.is_app(t) or z3.is_const(t):
        return False
    seen_j = False
    stack = [t]
    while stack:
        x = stack.pop()
        if z3.is_quantifier(x) or not z3.is_app(x):
            return False
        k = x.decl().kind()
        if k not in (z3.Z3_OP_UNINTERPRETED, z3.Z3_OP_SELECT):
            return False
        if x.get_id() == j.get_id():
            seen_j = True
        stack.extend(x.children())
    return seen_j


def unify_ty(a, b):
    if a == b:
        return a
    if a == NONE_T:
        return OPT(strip_opt(b))
    if b == NONE_T:
        return OPT(strip_opt(a))
    if a[0] == "opt" or b[0] == "opt":
        u = unify_ty(strip_opt(a), strip_opt(b))
        return OPT(u) if u != ANY else ANY
    if a[0] == b[0] and a[0] in ("seq", "set"):
        return (a[0], a[1] if b[1] == ANY else b[1] if a[1] == ANY else unify_ty(a[1], b[1]))
    if a[0] == b[0] == "dict":
        return ("dict", a[1] if b[1] == ANY else b[1] if a[1] == ANY else unify_ty(a[1], b[1]), a[2] if b[2] == ANY else b[2] if a[2] == ANY else unify_ty(a[2], b[2]))
    return ANY


class Executor:
    """Symbolic executor for one function (and the contracts it touches)."""

    def __init__(self, project, module_name: str, func_qualname: str, contract: dict, check_feasible=True):
        self.project = project  # pyvc.project.Project: sources, contracts, model
        self.module_name = module_name
        self.qualname = func_qualname
        self.contract = contract
        self.model = project.model
        self.obligations: list[Obligation] = []
        self.assumptions: set[str] = set()
        self.check_feasible = check_feasible
        self.pure_depth = 0
        self.inline_depth = 0
        self.heap0: Heap | None = None
        self.env0: dict | None = None
        self.loop_counter = 0
        self.real_module = project.import_module(module_name)
        self.solver_calls = 0
        self.self_class = None
        self.loop_specs = contract.get("loops", [])
        self.extra_axioms = []

    # ------------------------------------------------------------------ solving helpers
    def axioms(self, heaps=()):
        # the axiom set depends only on the symbols registered so far: rebuilt when a new one appears
        key = (len(smt._str_consts), len(smt._sentinels), len(smt._attr_funcs), len(smt._meth_funcs), len(smt._inst_preds), len(REG.classes),
               len(self.extra_axioms), None if self.heap0 is None else id(self.heap0), len(self.model.used), len(smt.BOX_FACTS))
        cached = getattr(self, "_ax_cache", None)
        if cached is not None and cached[0] == key:
            return list(cached[1])
        ax = smt.base_axioms() + REG.axioms() + self.model.axioms(self) + list(self.extra_axioms)
        if self.heap0 is not None:
            ax += smt.heap_wellformed(self.heap0) + smt.alloc_closure(self.heap0)
        key = (len(smt._str_consts), len(smt._sentinels), len(smt._attr_funcs), len(smt._meth_funcs), len(smt._inst_preds), len(REG.classes),
               len(self.extra_axioms), None if self.heap0 is None else id(self.heap0), len(self.model.used), len(smt.BOX_FACTS))
        self._ax_cache = (key, list(ax))
        return ax

    def feasible(self, st: St, extra=None, timeout=400) -> bool:
        """False only when the path condition is certainly unsatisfiable."""
        if not self.check_feasible:
            return True
        s = z3.Solver()
        s.set("timeout", timeout)
        s.set("smt.auto_config", False)
        s.set("smt.mbqi", False)  # E-matching only: quick `unsat`, otherwise `unknown` (= keep the path)
        s.add(*self.axioms())
        s.add(*st.pc)
        if extra is not None:
            s.add(extra)
        self.solver_calls += 1
        return s.check() != z3.unsat

    def oblige(self, name, kind, st: St, goal, info=None, aux=False):
        info = dict(info or {})
        info.setdefault("path", " ".join(st.notes))
        self.obligations.append(Obligation(name, kind, st.pc, goal, info, aux))

    # ------------------------------------------------------------------ name resolution
    def lookup(self, name: str, st: St):
        if name in st.env:
            return st.env[name]
        if name == "_yield" and "$yield" in st.env:
            return st.env["$yield"]  # ghost: the sequence a generator has yielded so far (clauses only)
        if hasattr(self.real_module, name):
            return self.lift_global(getattr(self.real_module, name), name)
        spec = self.project.spec_functions.get(name)
        if spec is not None:
            return PyVal(spec, name)
        if hasattr(self.project.spec_module, name):
            return lift(getattr(self.project.spec_module, name), name)
        if hasattr(builtins, name):
            return PyVal(getattr(builtins, name), name)
        raise Unsupported(f"unresolved name {name}")

    def lift_global(self, obj, name):
        return lift(obj, name)

    # ------------------------------------------------------------------ expressions
    def ev(self, e: ast.expr, st: St):
        """Evaluate expression; yields (state, value | Raised)."""
        m = getattr(self, "ev_" + type(e).__name__, None)
        if m is None:
            raise Unsupported(f"expression {type(e).__name__} at line {getattr(e, 'lineno', '?')}")
        yield from m(e, st)

    def ev1(self, e, st: St):
        """Evaluate an expression that must not fork or raise (pure contexts)."""
        res = list(self.ev(e, st))
        res = [(s, v) for s, v in res if not isinstance(v, Raised)] if self.pure_depth else res
        if len(res) != 1:
            raise Unsupported(f"expression forks in pure context: {ast.unparse(e)}")
        s, v = res[0]
        if isinstance(v, Raised):
            raise Unsupported(f"expression raises in pure context: {ast.unparse(e)}")
        return v

    def evs(self, exprs, st: St):
        """Evaluate a list of expressions left to right; yields (state, [values] | Raised)."""
        if not exprs:
            yield st, []
            return
        for s1, v1 in self.ev(exprs[0], st):
            if isinstance(v1, Raised):
                yield s1, v1
                continue
            for s2, rest in self.evs(exprs[1:], s1):
                if isinstance(rest, Raised):
                    yield s2, rest
                else:
                    yield s2, [v1] + rest

    def ev_Constant(self, e, st):
        v = e.value
        if v is Ellipsis:
            yield st, Val(smt.sentinel("Ellipsis"), ANY)
        elif isinstance(v, bytes):
            yield st, Val(smt.sentinel(f"bytes:{v!r}"), ANY)
        else:
            yield st, lift(v)

    def ev_Name(self, e, st):
        yield st, self.lookup(e.id, st)

    def ev_JoinedStr(self, e, st):
        # message text is dropped (DESIGN 2.1): an opaque non-empty string
        yield st, Val(smt.fresh_v("fstr"), STR)

    def ev_Tuple(self, e, st):
        if any(isinstance(x, ast.Starred) for x in e.elts):
            raise Unsupported("starred tuple")
        for s, vals in self.evs(e.elts, st):
            yield s, (vals if isinstance(vals, Raised) else TupVal(vals))

    def ev_List(self, e, st):
        if any(isinstance(x, ast.Starred) for x in e.elts):
            raise Unsupported("starred list")
        for s, vals in self.evs(e.elts, st):
            if isinstance(vals, Raised):
                yield s, vals
                continue
            s = s if self.pure_depth else s
            ety = ANY
            if vals and all(isinstance(x, Val) and x.ty == vals[0].ty for x in vals):
                ety = vals[0].ty
            yield s, alloc_seq(s, [to_v(x, s) for x in vals], "list", ety)

    def ev_Set(self, e, st):
        for s, vals in self.evs(e.elts, st):
            if isinstance(vals, Raised):
                yield s, vals
                continue
            r = alloc_set(s, ANY)
            for x in vals:
                set_add(s, r.t, to_v(x, s))
            yield s, r

    def ev_Dict(self, e, st):
        d = None
        cur = [(st, None)]
        out_states = [st]
        # evaluate sequentially: {**a, k: v}
        s = st
        d = alloc_dict(s, STR, ANY)
        states = [(s, d)]
        for k, v in zip(e.keys, e.values):
            nxt = []
            for s, d in states:
                if k is None:  # **mapping
                    for s2, mv in self.ev(v, s):
                        if isinstance(mv, Raised):
                            yield s2, mv
                            continue
                        self.dict_update(s2, d, mv)
                        nxt.append((s2, d))
                else:
                    for s2, kv in self.evs([k, v], s):
                        if isinstance(kv, Raised):
                            yield s2, kv
                            continue
                        dict_store(s2, d.t, to_v(kv[0], s2), to_v(kv[1], s2))
                        nxt.append((s2, d))
            states = nxt
        for s, d in states:
            yield s, d

    def dict_update(self, st: St, d: Val, other):
        """d.update(other) for a dict-typed other: pointwise definition of the new contents."""
        if not isinstance(other, Val) or strip_opt(other.ty)[0] not in ("dict", "any"):
            raise Unsupported(f"dict.update with {other!r}")
        h = st.heap
        o = other.t
        k = z3.Const(smt.fresh_name("uk"), V)
        nh = z3.Lambda([k], z3.Or(h.c["dh"][d.t][k], h.c["dh"][o][k]))
        nv = z3.Lambda([k], z3.If(h.c["dh"][o][k], h.c["dv"][o][k], h.c["dv"][d.t][k]))
        n = smt.fresh_int("dn")
        st.assume(n >= h.c["dn"][d.t], n >= h.c["dn"][o], n <= h.c["dn"][d.t] + h.c["dn"][o])
        h2 = h.with_comp("dh", z3.Store(h.c["dh"], d.t, nh)).with_comp("dv", z3.Store(h.c["dv"], d.t, nv))
        h2 = h2.with_comp("dn", z3.Store(h.c["dn"], d.t, n))
        st.heap = h2
        st.assume(*smt.heap_wellformed_ref(h2, d.t, "d"))

    def ev_BoolOp(self, e, st):
        is_and = isinstance(e.op, ast.And)

        def rec(i, s):
            for s1, v in self.ev(e.values[i], s):
                if isinstance(v, Raised) or i == len(e.values) - 1:
                    yield s1, v
                    continue
                t = truth(v, s1)
                if self.pure_depth:
                    # no forking inside quantifiers: merge with If
                    rest = list(rec(i + 1, s1))
                    if len(rest) != 1 or isinstance(rest[0][1], Raised):
                        raise Unsupported("boolop forks in pure context")
                    yield rest[0][0], self.merge(t if not is_and else z3.Not(t), v, rest[0][1], s1)
                    continue
                # short circuit: fork
                s_short = s1.fork().assume(z3.Not(t) if is_and else t)
                s_cont = s1.fork().assume(t if is_and else z3.Not(t))
                if isinstance(v, BVal):
                    # merge boolean results without forking when the rest is pure & boolean
                    rest = None
                    try:
                        self.pure_depth += 1
                        r = list(rec(i + 1, s1.fork()))
                        if len(r) == 1 and isinstance(r[0][1], BVal) and len(r[0][0].pc) == len(s1.pc) and r[0][0].heap is s1.heap:
                            rest = r[0][1]
                    except Unsupported:
                        rest = None
                    finally:
                        self.pure_depth -= 1
                    if rest is not None:
                        yield s1, BVal(z3.And(v.b, rest.b) if is_and else z3.Or(v.b, rest.b))
                        continue
                if self.feasible(s_short):
                    yield s_short, v
                if self.feasible(s_cont):
                    yield from rec(i + 1, s_cont)

        yield from rec(0, st)

    def merge(self, cond, a, b, st):
        """If(cond, a, b) over values."""
        if isinstance(a, BVal) and isinstance(b, BVal):
            return BVal(z3.If(cond, a.b, b.b))
        if isinstance(a, (IVal, BVal)) and isinstance(b, (IVal, BVal)):
            return IVal(z3.If(cond, as_int(a), as_int(b)))
        if isinstance(a, TupVal) and isinstance(b, TupVal) and len(a.items) == len(b.items):
            return TupVal([self.merge(cond, x, y, st) for x, y in zip(a.items, b.items)])
        ta, tb = to_v(a, st), to_v(b, st)
        ty = unify_ty(a.ty, b.ty) if isinstance(a, Val) and isinstance(b, Val) else ANY
        return Val(z3.If(cond, ta, tb), ty)

    def ev_UnaryOp(self, e, st):
        for s, v in self.ev(e.operand, st):
            if isinstance(v, Raised):
                yield s, v
            elif isinstance(e.op, ast.Not):
                yield s, BVal(z3.Not(truth(v, s)))
            elif isinstance(e.op, ast.USub):
                yield s, IVal(-as_int(v))
            else:
                raise Unsupported("unary op")

    def ev_IfExp(self, e, st):
        for s, c in self.ev(e.test, st):
            if isinstance(c, Raised):
                yield s, c
                continue
            t = truth(c, s)
            if self.pure_depth:
                ts = z3.simplify(t)
                if z3.is_true(ts) or z3.is_false(ts):
                    # a test decided by the value's shape (e.g. `x is not None` for the literal None): only that arm exists
                    yield s, self.ev1(e.body if z3.is_true(ts) else e.orelse, s)
                    continue
                a = self.ev1(e.body, s)
                b = self.ev1(e.orelse, s)
                yield s, self.merge(t, a, b, s)
                continue
            s1 = s.fork().assume(t)
            s2 = s.fork().assume(z3.Not(t))
            if self.feasible(s1):
                yield from self.ev(e.body, s1)
            if self.feasible(s2):
                yield from self.ev(e.orelse, s2)

    def ev_Compare(self, e, st):
        for s, vals in self.evs([e.left] + list(e.comparators), st):
            if isinstance(vals, Raised):
                yield s, vals
                continue
            conj = []
            for op, a, b in zip(e.ops, vals, vals[1:]):
                conj.append(self.compare(op, a, b, s))
            yield s, BVal(z3.And(*conj) if len(conj) > 1 else conj[0])

    def compare(self, op, a, b, s):
        if isinstance(op, ast.Eq):
            return self.eq_dispatch(a, b, s)
        if isinstance(op, ast.NotEq):
            return z3.Not(self.eq_dispatch(a, b, s))
        if isinstance(op, ast.Is):
            return identical(a, b, s)
        if isinstance(op, ast.IsNot):
            return z3.Not(identical(a, b, s))
        if isinstance(op, ast.In):
            return contains(b, a, s)
        if isinstance(op, ast.NotIn):
            return z3.Not(contains(b, a, s))
        if isinstance(a, Val) and isinstance(b, Val) and strip_opt(a.ty)[0] == "set" and strip_opt(b.ty)[0] == "set":
            # set inclusion (<=, >=) pointwise over the membership arrays; strict inclusion is outside the subset
            if isinstance(op, (ast.LtE, ast.GtE)):
                lo, hi = (a, b) if isinstance(op, ast.LtE) else (b, a)
                k = z3.Const(smt.push_binder("ssk"), V)
                smt.pop_binder()
                h = s.heap
                return z3.ForAll([k], z3.Implies(h.c["sh"][lo.t][k], h.c["sh"][hi.t][k]))
            raise Unsupported("strict set comparison")
        x, y = as_int(a), as_int(b)
        if isinstance(op, ast.Lt):
            return x < y
        if isinstance(op, ast.LtE):
            return x <= y
        if isinstance(op, ast.Gt):
            return x > y
        if isinstance(op, ast.GtE):
            return x >= y
        raise Unsupported("compare op")

    def eq_dispatch(self, a, b, s):
        if isinstance(a, Val) and isinstance(b, Val):
            ka, kb = strip_opt(a.ty)[0], strip_opt(b.ty)[0]
            if ka == "set" and kb == "set":
                return self.set_eq(a, b, s)
            if ka == "dict" and kb == "dict":
                return self.dict_eq(a, b, s)
        return eq(a, b, s)

    def set_eq(self, a, b, s):
        k = z3.Const(smt.push_binder("sk"), V)
        smt.pop_binder()
        h = s.heap
        return z3.ForAll([k], h.c["sh"][a.t][k] == h.c["sh"][b.t][k])

    def dict_eq(self, a, b, s):
        k = z3.Const(smt.push_binder("dk"), V)
        h = s.heap
        vty = a.ty[2] if len(a.ty) > 2 else ANY
        try:
            same = eq(Val(h.c["dv"][a.t][k], vty), Val(h.c["dv"][b.t][k], vty), s)
        finally:
            smt.pop_binder()
        return z3.ForAll([k], z3.And(h.c["dh"][a.t][k] == h.c["dh"][b.t][k], z3.Implies(h.c["dh"][a.t][k], same)))

    def ev_BinOp(self, e, st):
        for s, vals in self.evs([e.left, e.right], st):
            if isinstance(vals, Raised):
                yield s, vals
                continue
            a, b = vals
            op = e.op
            if isinstance(a, TupVal) and isinstance(b, TupVal) and isinstance(op, ast.Add):
                yield s, TupVal(a.items + b.items)
                continue
            if isinstance(op, ast.Add) and (isinstance(a, TupVal) or isinstance(b, TupVal)):
                # tuple display + sequence value: materialise the display as a (fresh) tuple, then concatenate
                other = b if isinstance(a, TupVal) else a
                if isinstance(other, Val) and strip_opt(other.ty)[0] in ("seq", "any"):
                    tv = a if isinstance(a, TupVal) else b
                    mat = alloc_seq(s, [to_v(x, s) for x in tv.items], "tuple", ANY)
                    a, b = (mat, Val(b.t, SEQ(ANY)) if strip_opt(b.ty)[0] == "any" else b) if isinstance(vals[0], TupVal) else (Val(a.t, SEQ(ANY)) if strip_opt(a.ty)[0] == "any" else a, mat)
            if isinstance(a, Val) and isinstance(b, Val):
                ka, kb = strip_opt(a.ty)[0], strip_opt(b.ty)[0]
                if ka == "set" and kb == "set" and isinstance(op, (ast.BitAnd, ast.BitOr, ast.Sub)):
                    yield s, self.set_binop(op, a, b, s)
                    continue
                if ka == "seq" and kb == "seq" and isinstance(op, ast.Add):
                    yield s, self.seq_concat(a, b, s)
                    continue
                if ka == "str" or kb == "str":
                    yield s, Val(smt.fresh_v("strcat"), STR)
                    continue
            if isinstance(a, Val) and a.ty[0] == "str" or isinstance(b, Val) and b.ty[0] == "str":
                yield s, Val(smt.fresh_v("strop"), STR)
                continue
            x, y = as_int(a), as_int(b)
            if isinstance(op, ast.Add):
                yield s, IVal(x + y)
            elif isinstance(op, ast.Sub):
                yield s, IVal(x - y)
            elif isinstance(op, ast.Mult):
                if z3.is_int_value(x) or z3.is_int_value(y):
                    yield s, IVal(x * y)
                else:
                    yield s, Val(smt.fresh_v("mul"), ANY)  # durations etc.: opaque
            else:
                yield s, Val(smt.fresh_v("arith"), ANY)

    def set_binop(self, op, a, b, s):
        h = s.heap
        k = z3.Const(smt.fresh_name("bk"), V)
        from . import engine as _engine
        norm = _engine.VIEW_NORMALIZER[0] or (lambda t, st: t)
        arr_a, arr_b = norm(h.c["sh"][a.t], s), norm(h.c["sh"][b.t], s)   # the operands' membership arrays, read through the heap
        ina, inb = arr_a[k], arr_b[k]
        body = z3.And(ina, inb) if isinstance(op, ast.BitAnd) else z3.Or(ina, inb) if isinstance(op, ast.BitOr) else z3.And(ina, z3.Not(inb))
        r = alloc_set(s, a.ty[1])
        n = smt.fresh_int("sn")
        # result membership: a fresh array defined pointwise (both directions instantiate by E-matching on membership terms)
        m = z3.Const(smt.fresh_name("setop"), z3.ArraySort(V, z3.BoolSort()))
        facts = [smt.forall([k], m[k] == body, patterns=[m[k]])]
        for arr in (arr_a, arr_b):
            if z3.is_const(arr) or z3.is_select(arr):
                facts.append(smt.forall([k], z3.Implies(arr[k], m[k] == body), patterns=[arr[k]]))
        s.heap = s.heap.with_comp("sh", z3.Store(s.heap.c["sh"], r.t, m)).with_comp("sn", z3.Store(s.heap.c["sn"], r.t, n))
        s.assume(*facts, *smt.heap_wellformed_ref(s.heap, r.t, "s"))
        return r

    def seq_concat(self, a, b, s):
        h = s.heap
        i = z3.Int(smt.fresh_name("ci"))
        la, lb = h.c["sl"][a.t], h.c["sl"][b.t]
        r = alloc(s, "concat", SEQ(a.ty[1] if a.ty == b.ty else ANY))
        arr = z3.Lambda([i], z3.If(i < la, h.c["sa"][a.t][i], h.c["sa"][b.t][i - la]))
        s.heap = s.heap.with_comp("sl", z3.Store(s.heap.c["sl"], r.t, la + lb)).with_comp("sa", z3.Store(s.heap.c["sa"], r.t, arr))
        s.assume(z3.Or(smt.is_list(r.t), smt.is_tuple(r.t)))
        return r

    def ev_Attribute(self, e, st):
        for s, base in self.ev(e.value, st):
            if isinstance(base, Raised):
                yield s, base
            else:
                yield from self.getattr_val(base, e.attr, s, e)

    def getattr_val(self, base, attr, s, node=None):
        if isinstance(base, PyVal):
            obj = base.obj
            if not hasattr(obj, attr):
                raise Unsupported(f"no attribute {attr} on {base.name}")
            yield s, lift(getattr(obj, attr), f"{base.name}.{attr}")
            return
        if isinstance(base, Val):
            ty = strip_opt(base.ty)
            if ty[0] in ("dict", "seq", "set", "str", "any", "exc"):
                if ty[0] in ("any", "exc"):
                    decl = self.model.attr_any(attr)
                    if decl is not None:
                        yield s, self.read_attr(base, attr, decl, s)
                        return
                yield s, BoundMethod(base, attr)
                return
            if ty[0] == "obj":
                decl = self.model.attr(ty[1], attr)
                ckey = self.contract_key_for_method(ty[1], attr)
                if ckey is not None:
                    if self.project.is_property(ckey):
                        yield from self.call_method(base, attr, [], {}, s, as_property=True)
                    else:
                        yield s, BoundMethod(base, attr)
                    return
                if decl is None:
                    # attribute outside the declared object model: read as an untyped pure function of the object (assumption, listed)
                    self.assumptions.add(f"undeclared attribute {ty[1]}.{attr} read as a pure untyped function of the object")
                    yield s, self.read_attr(base, attr, ANY, s)
                    return
                kind = decl[0]
                if kind == "attr":
                    yield s, self.read_attr(base, attr, decl[1], s)
                    return
                if kind == "method":
                    yield s, BoundMethod(base, attr)
                    return
                if kind == "property":  # contracted or inlined property
                    yield from self.call_method(base, attr, [], {}, s, as_property=True)
                    return
        if isinstance(base, TupVal):
            yield s, BoundMethod(base, attr)
            return
        raise Unsupported(f"attribute {attr} on {base!r}")

    def contract_key_for_method(self, cls, name):
        for cn, file in self.model.class_prefix(cls, name):
            key = f"{file}:{cn}.{name}"
            if key in self.project.contracts:
                return key
        return None

    def read_attr(self, base: Val, attr: str, ty, s: St):
        if attr in s.heap.f:
            t = s.heap.f[attr][base.t]
        else:
            t = smt.attr_func(attr)(base.t)
        v = Val(t, ty)
        if not self.pure_depth:
            s.assume(*type_facts(v, s))
        if ty == BOOL:
            return BVal(t == smt.TRUE)
        return v

    def ev_Subscript(self, e, st):
        for s, base in self.ev(e.value, st):
            if isinstance(base, Raised):
                yield s, base
                continue
            if isinstance(e.slice, ast.Slice):
                yield from self.ev_slice(base, e.slice, s)
                continue
            for s2, idx in self.ev(e.slice, s):
                if isinstance(idx, Raised):
                    yield s2, idx
                    continue
                yield from self.subscript(base, idx, s2)

    def subscript(self, base, idx, s):
        if isinstance(base, TupVal):
            if isinstance(idx, IVal) and z3.is_int_value(idx.i):
                n = idx.i.as_long()
                yield s, base.items[n]
                return
            if self.pure_depth and base.items and isinstance(idx, IVal):
                # spec-level read with a symbolic index: If-chain over the (few) items; out of range is unspecified
                t = to_v(base.items[-1], s)
                for j in range(len(base.items) - 2, -1, -1):
                    t = z3.If(idx.i == j, to_v(base.items[j], s), t)
                yield s, Val(t, ANY)
                return
            raise Unsupported("symbolic index into tuple literal")
        if not isinstance(base, Val):
            raise Unsupported(f"subscript on {base!r}")
        ty = strip_opt(base.ty)
        h = s.heap
        if ty[0] == "dict":
            k = to_v(idx, s)
            has = h.c["dh"][base.t][k]
            if self.pure_depth:
                yield s, self.typed_read(h.c["dv"][base.t][k], ty[2], s)
                return
            s_ok = s.fork().assume(has)
            s_bad = s.fork().assume(z3.Not(has))
            if self.feasible(s_bad):
                yield s_bad, Raised("KeyError", None, {"key": k})
            if self.feasible(s_ok):
                yield s_ok, self.typed_read(h.c["dv"][base.t][k], ty[2], s_ok)
            return
        if ty[0] == "seq" or ty[0] == "any":
            i = as_int(idx)
            n = h.c["sl"][base.t]
            ety = ty[1] if ty[0] == "seq" else ANY
            if ty[0] == "any" and isinstance(idx, Val) and idx.ty[0] == "str":
                k = idx.t
                yield s, Val(h.c["dv"][base.t][k], ANY)
                return
            if z3.is_const(i) and i.decl().kind() == z3.Z3_OP_UNINTERPRETED and i.decl().name() in smt.NONNEG:
                ii = i  # a comprehension index (0 <= i by its guard): no negative-index normalisation, so the read is a usable trigger
            else:
                ii = z3.If(i < 0, n + i, i)
            if self.pure_depth:
                yield s, self.typed_read(h.c["sa"][base.t][ii], ety, s)
                return
            inb = z3.And(0 <= ii, ii < n)
            s_ok = s.fork().assume(inb)
            s_bad = s.fork().assume(z3.Not(inb))
            if self.feasible(s_bad):
                yield s_bad, Raised("IndexError", None, {})
            if self.feasible(s_ok):
                yield s_ok, self.typed_read(h.c["sa"][base.t][ii], ety, s_ok)
            return
        if ty[0] == "fixtup":
            i = z3.simplify(as_int(idx))
            if z3.is_int_value(i) and -len(ty[1]) <= i.as_long() < len(ty[1]):
                k = i.as_long() % len(ty[1])
                yield s, self.typed_read(h.c["sa"][base.t][k], ty[1][k], s)
                return
            raise Unsupported("symbolic index into fixed-shape tuple")
        if self.pure_depth:
            return_t = z3.Function("subscript_undef", V, V, V)(base.t, to_v(idx, s))  # spec-level: unspecified, never reached at run time
            yield s, Val(return_t, ANY)
            return
        raise Unsupported(f"subscript on type {ty}")

    def typed_read(self, t, ty, s):
        v = Val(t, ty)
        s.assume(*type_facts(v, s)) if not self.pure_depth else None
        if ty == INT:
            return IVal(smt.ival(t))
        if ty == BOOL:
            return BVal(t == smt.TRUE)
        return v

    def ev_slice(self, base, sl, s):
        if sl.step is not None:
            raise Unsupported("slice step")
        lo = self.ev1(sl.lower, s) if sl.lower is not None else IVal(0)
        if isinstance(base, TupVal):
            if sl.upper is None and isinstance(lo, IVal) and z3.is_int_value(lo.i):
                yield s, TupVal(base.items[lo.i.as_long():])
                return
            if sl.upper is not None and sl.lower is None:
                hi = self.ev1(sl.upper, s)
                if isinstance(hi, IVal) and z3.is_int_value(hi.i):
                    yield s, TupVal(base.items[: hi.i.as_long()])
                    return
            raise Unsupported("slice of tuple literal")
        if isinstance(base, SeqView):
            n = base.len
            hi = as_int(self.ev1(sl.upper, s)) if sl.upper is not None else n
            lo_i = as_int(lo)
            if z3.is_int_value(lo_i) and lo_i.as_long() == 0:
                yield s, SeqView(hi, base.at, base.elem_ty, base.facts, keys=base.keys, index_of=base.index_of)
            else:
                yield s, SeqView(hi - lo_i, lambda i, b=base, lo_i=lo_i: b.at(i + lo_i), base.elem_ty, base.facts)
            return
        if not isinstance(base, Val) or strip_opt(base.ty)[0] != "seq":
            raise Unsupported(f"slice of {base!r}")
        h = s.heap
        n = h.c["sl"][base.t]
        hi = as_int(self.ev1(sl.upper, s)) if sl.upper is not None else n
        lo_i = as_int(lo)
        hi = z3.If(hi < 0, n + hi, hi)
        hi = z3.If(hi > n, n, hi)
        lo_c = z3.If(lo_i > hi, hi, lo_i)
        ety = base.ty[1]
        arr = h.c["sa"][base.t]
        if z3.is_int_value(lo_i) and lo_i.as_long() == 0:
            yield s, SeqView(hi, lambda i: Val(arr[i], ety), ety)
        else:
            yield s, SeqView(hi - lo_c, lambda i: Val(arr[i + lo_c], ety), ety)

    # ---- comprehensions -----------------------------------------------------------------
    def comp_binder(self, gen: ast.comprehension, s: St, bound=False):
        """Bind the target of one `for` clause to a symbolic element; returns (index var, guard, env update)."""
        if gen.is_async:
            raise Unsupported("async comprehension")
        it = self.ev1(gen.iter, s)
        view = self.iter_view(it, s)
        s.assume(*view.facts)
        j = z3.Int(smt.push_binder("q") if bound else smt.fresh_name("q"))
        elem = view.at(j)
        guard = z3.And(0 <= j, j < view.len)
        smt.NONNEG.add(j.decl().name())  # every use of the binder stands under this guard (guard -> body / guard and body)
        return j, guard, elem, view

    def iter_view(self, it, s) -> SeqView:
        return seq_view(it, s)

    def bind_target(self, target, value, s: St):
        if isinstance(target, ast.Name):
            s.env[target.id] = value
            return
        if isinstance(target, (ast.Tuple, ast.List)):
            if isinstance(value, TupVal):
                if len(value.items) != len(target.elts):
                    raise Unsupported("unpack length mismatch")
                for t, v in zip(target.elts, value.items):
                    self.bind_target(t, v, s)
                return
            if isinstance(value, Val):
                ty = strip_opt(value.ty)
                h = s.heap
                for j, t in enumerate(target.elts):
                    if ty[0] == "fixtup":
                        ety = ty[1][j]
                    elif ty[0] == "seq":
                        ety = ty[1]
                    else:
                        ety = ANY
                    self.bind_target(t, self.typed_read(h.c["sa"][value.t][j], ety, s), s)
                return
        raise Unsupported(f"assignment target {ast.dump(target)[:60]}")

    def quantify(self, e, st, kind):
        """all(...)/any(...) over a generator expression -> quantifier."""
        gens = e.generators
        s = st.fork()
        self.pure_depth += 1
        pushed = 0
        last_len = None
        elem_terms = []
        try:
            binders, guards = [], []
            for g in gens:
                j, guard, elem, view = self.comp_binder(g, s, bound=True)
                last_len = view.len
                pushed += 1
                self.bind_target(g.target, elem, s)
                et = elem.t if isinstance(elem, Val) else None
                elem_terms.append(et if et is not None and ok_pattern(et, j) else None)
                binders.append(j)
                guards.append(guard)
                for c in g.ifs:
                    guards.append(truth(self.ev1(c, s), s))
            marks = self.capture_marks(s)
            body = truth(self.ev1(e.elt, s), s)
            if self.needs_capture(s, marks) and len(s.fresh) == marks[0] and s.heap is marks[3]:
                # (a body that allocates ghost containers - e.g. a clause mentioning a contracted callee whose result is a
                #  fresh dict - reads them back within the same body: handled by the heap terms themselves, as before)
                (body,) = self.skolemize_elements(s, marks, binders, z3.And(*guards), [body])
        finally:
            self.pure_depth -= 1
            for _ in range(pushed):
                smt.pop_binder()
        st.pc[:] = s.pc  # facts about views
        st.heap = s.heap
        st.fresh[:] = s.fresh
        g = z3.And(*guards)
        # prefix extended by one element (loop step): split off the last index explicitly, so that the solver need not
        # discover the case split  j < t  vs  j == t  by itself
        if len(binders) == 1 and last_len is not None and is_succ(last_len):
            t = last_len.arg(0)
            j = binders[0]
            g_rest = z3.And(*[x for x in guards[1:]]) if len(guards) > 1 else z3.BoolVal(True)
            at_t = z3.substitute(z3.And(g_rest, body) if kind == "any" else z3.Implies(g_rest, body), (j, t))
            lo = z3.And(0 <= j, j < t)
            pats0 = [elem_terms[0]] if elem_terms and elem_terms[0] is not None else None
            if kind == "all":
                q = smt.forall([j], z3.Implies(z3.And(lo, g_rest), body), patterns=pats0) if pats0 else z3.ForAll([j], z3.Implies(z3.And(lo, g_rest), body))
                return z3.And(q, z3.Implies(t >= 0, at_t))
            q = z3.Exists([j], z3.And(lo, g_rest, body))
            return z3.Or(q, z3.And(t >= 0, at_t))
        pats = []
        if len(binders) == 1 and elem_terms and elem_terms[0] is not None:
            pats = [elem_terms[0]]
        if kind == "all":
            return smt.forall(binders, z3.Implies(g, body), patterns=pats) if pats else z3.ForAll(binders, z3.Implies(g, body))
        return z3.Exists(binders, z3.And(g, body))

    def ev_ListComp(self, e, st):
        yield st, self.list_comp(e, st)

    def ev_GeneratorExp(self, e, st):
        yield st, self.list_comp(e, st)

    def list_comp(self, e, st):
        if len(e.generators) != 1:
            raise Unsupported("nested list comprehension")
        g = e.generators[0]
        s = st.fork()
        self.pure_depth += 1
        try:
            j, guard, elem, view = self.comp_binder(g, s)
            self.bind_target(g.target, elem, s)
            conds = [truth(self.ev1(c, s), s) for c in g.ifs]
            marks = self.capture_marks(s)
            out = self.ev1(e.elt, s)
            out_t = to_v(out, s)
            ety = out.ty if isinstance(out, Val) else ANY
            if self.needs_capture(s, marks):
                (out_t,) = self.skolemize_elements(s, marks, [j], z3.And(guard, *conds), [out_t])
        finally:
            self.pure_depth -= 1
        st.pc[:] = s.pc
        st.heap = s.heap
        st.fresh[:] = s.fresh
        r = alloc(st, "lc", SEQ(ety))
        st.assume(smt.is_list(r.t))
        h = st.heap
        if not conds:
            arr = z3.Lambda([j], out_t)
            st.heap = h.with_comp("sl", z3.Store(h.c["sl"], r.t, view.len)).with_comp("sa", z3.Store(h.c["sa"], r.t, arr))
            st.assume(view.len >= 0)
            return r
        # filtered: order-preserving subsequence via a strictly monotone index map
        c = z3.And(*conds)
        n = smt.fresh_int("lcn")
        idx = z3.Function(smt.fresh_name("lc_idx"), z3.IntSort(), z3.IntSort())
        inv = z3.Function(smt.fresh_name("lc_inv"), z3.IntSort(), z3.IntSort())
        a, b = z3.Int(smt.fresh_name("a")), z3.Int(smt.fresh_name("b"))
        c_at = lambda t: z3.substitute(c, (j, t))
        out_at = lambda t: z3.substitute(out_t, (j, t))
        arr = z3.Lambda([a], out_at(idx(a)))
        st.heap = h.with_comp("sl", z3.Store(h.c["sl"], r.t, n)).with_comp("sa", z3.Store(h.c["sa"], r.t, arr))
        st.assume(
            n >= 0, n <= view.len,
            smt.forall([a], z3.Implies(z3.And(0 <= a, a < n), z3.And(0 <= idx(a), idx(a) < view.len, c_at(idx(a)), inv(idx(a)) == a)), patterns=[idx(a)]),
            smt.forall([a, b], z3.Implies(z3.And(0 <= a, a < b, b < n), idx(a) < idx(b)), patterns=[z3.MultiPattern(idx(a), idx(b))]),
            smt.forall([a], z3.Implies(z3.And(0 <= a, a < view.len, c_at(a)), z3.And(0 <= inv(a), inv(a) < n, idx(inv(a)) == a)), patterns=[inv(a)]),
        )
        # the same completeness fact, triggered by the SOURCE element at an index (a goal "some source element satisfies the
        # filter" names the element, not its position in the result)
        try:
            src_at = to_v(view.at(a), st)
            if not z3.is_const(src_at) and any(v.eq(a) for v in __import__("z3.z3util", fromlist=["get_vars"]).get_vars(src_at)):
                st.assume(smt.forall([a], z3.Implies(z3.And(0 <= a, a < view.len, c_at(a)), z3.And(0 <= inv(a), inv(a) < n, idx(inv(a)) == a)), patterns=[src_at]))
        except Exception:  # noqa: BLE001 - views without a term for the element: the fact above stands alone
            pass
        return r

    def capture_marks(self, s):
        return (len(s.fresh), len(smt.CREATED), len(s.pc), s.heap)

    def needs_capture(self, s, marks):
        return len(s.fresh) > marks[0] or len(smt.CREATED) > marks[1]

    def skolemize_elements(self, s, marks, binders, guard, terms):
        """The element expression of a comprehension / quantifier body created per-element entities: objects it ALLOCATED
        (one object per index) and other fresh constants (results of impure callees, opaque values, ...).  Each of them
        becomes a Skolem function of the bound index/indices; the facts recorded about them are asserted for every index in
        range; allocated families are injective and disjoint from every other allocation.  Returns the terms with the
        constants replaced.  (Before this, all elements shared ONE constant: "all elements are the same object" was provable.)"""
        n_fresh0, n_created0, p0, heap0 = marks
        new_fresh = s.fresh[n_fresh0:]
        inits = self._family_initialisers(s, heap0, new_fresh) if s.heap is not heap0 else {}
        fresh_ids = {r.get_id() for r in new_fresh}
        others = [c for c in smt.CREATED[n_created0:] if c.get_id() not in fresh_ids]
        new_pc = s.pc[p0:]
        used = set()
        for t in list(terms) + new_pc:
            if t is not None and z3.is_expr(t):
                used |= {v.get_id() for v in _consts_of(t)}
        others = [c for c in others if c.get_id() in used]
        if not new_fresh and not others:
            return list(terms)
        dom = [b.sort() for b in binders]
        pairs, extra, pats = [], [], []
        fam_of = {}
        for r in new_fresh:
            f = z3.Function(smt.fresh_name("sk"), *dom, V)
            pairs.append((r, f(*binders)))
            pats.append(f(*binders))
            fam_of[r.get_id()] = smt.next_family()
            extra.append(smt.SkFam(f(*binders)) == fam_of[r.get_id()])
            if len(binders) == 1:
                inv = z3.Function(smt.fresh_name("skinv"), V, z3.IntSort())
                extra.append(inv(f(*binders)) == binders[0])
        for c in others:
            f = z3.Function(smt.fresh_name("skc"), *dom, c.sort())
            pairs.append((c, f(*binders)))
            if c.sort() == V:
                pats.append(f(*binders))
        zero = [smt.SkFam(r) == 0 for r in new_fresh]
        births = [smt.Birth(r) for r in new_fresh]
        facts = []
        for f in new_pc:
            if any(f.eq(z) for z in zero) or (z3.is_eq(f) and any(f.arg(0).eq(bt) for bt in births)):
                continue
            facts.append(z3.substitute(f, *pairs))
        facts += extra
        del s.pc[p0:]
        del s.fresh[n_fresh0:]
        if inits:
            # containers allocated per element with an element-independent initial content (empty list / dict / set): every
            # member of the family gets that content (family members are recognised by their family id)
            x = z3.Const("fam_x", V)
            h = heap0
            for comp, layers in inits.items():
                arr = heap0.c[comp]
                for r, val in layers:
                    arr = z3.Lambda([x], z3.If(smt.SkFam(x) == fam_of[r.get_id()], val, arr[x]))
                h = h.with_comp(comp, arr)
            s.heap = h
        if facts:
            body = z3.Implies(guard, z3.And(*facts))
            s.assume(z3.ForAll(list(binders), body, patterns=pats) if pats else z3.ForAll(list(binders), body))
        return [z3.substitute(t, *pairs) if (t is not None and z3.is_expr(t)) else t for t in terms]

    def _family_initialisers(self, s, heap0, new_fresh):
        """The heap changed while the element expression was evaluated: accept exactly stores AT the newly allocated
        references whose stored content does not depend on anything created in the element (initial contents of new
        containers); returns {component: [(ref, content), ...]} in store order.  Anything else is outside the subset."""
        if s.heap.f is not heap0.f and any(s.heap.f[k] is not heap0.f.get(k) for k in s.heap.f):
            raise Unsupported("comprehension element writes a field")
        ids = {r.get_id(): r for r in new_fresh}
        created = {c.get_id() for c in smt.CREATED}
        out = {}
        for comp, cur in s.heap.c.items():
            base = heap0.c[comp]
            layers = []
            while cur.get_id() != base.get_id():
                if not (z3.is_store(cur) and cur.arg(1).get_id() in ids):
                    raise Unsupported("comprehension element writes to a container that existed before")
                val = cur.arg(2)
                if any(v.get_id() in ids for v in _consts_of(val)) or smt.mentions_binder(val):
                    raise Unsupported("comprehension element initialises a new container with element-dependent content")
                layers.append((ids[cur.arg(1).get_id()], val))
                cur = cur.arg(0)
            if layers:
                # keep only the LAST store per reference (the final initial content)
                seen, final = set(), []
                for r, val in layers:  # outermost first
                    if r.get_id() not in seen:
                        seen.add(r.get_id())
                        final.append((r, val))
                out[comp] = list(reversed(final))
        return out

    def ev_SetComp(self, e, st):
        if len(e.generators) > 2:
            raise Unsupported("set comprehension with >2 generators")
        s = st.fork()
        self.pure_depth += 1
        try:
            js, guards = [], []
            n_fresh_in = len(s.fresh)
            for g in e.generators:
                j, guard, elem, view = self.comp_binder(g, s)
                self.bind_target(g.target, elem, s)
                js.append(j)
                guards.append(guard)
                guards += [truth(self.ev1(c, s), s) for c in g.ifs]
            marks = self.capture_marks(s)
            out = self.ev1(e.elt, s)
            out_t = to_v(out, s)
            ety = out.ty if isinstance(out, Val) else ANY
            if len(s.fresh) > n_fresh_in:
                raise Unsupported("set comprehension allocating objects per element")
            if self.needs_capture(s, marks):
                (out_t,) = self.skolemize_elements(s, marks, js, z3.And(*guards), [out_t])
        finally:
            self.pure_depth -= 1
        st.pc[:] = s.pc
        st.heap = s.heap
        st.fresh[:] = s.fresh
        r = alloc_set(st, ety)
        k = z3.Const(smt.fresh_name("sck"), V)
        member = z3.Lambda([k], z3.Exists(js, z3.And(*guards, out_t == k)))
        n = smt.fresh_int("scn")
        st.heap = st.heap.with_comp("sh", z3.Store(st.heap.c["sh"], r.t, member)).with_comp("sn", z3.Store(st.heap.c["sn"], r.t, n))
        st.assume(*smt.heap_wellformed_ref(st.heap, r.t, "s"))
        yield st, r

    def ev_DictComp(self, e, st):
        if len(e.generators) != 1:
            raise Unsupported("nested dict comprehension")
        g = e.generators[0]
        s = st.fork()
        self.pure_depth += 1
        try:
            j, guard, elem, view = self.comp_binder(g, s)
            self.bind_target(g.target, elem, s)
            guards = [guard] + [truth(self.ev1(c, s), s) for c in g.ifs]
            n_fresh_in = len(s.fresh)
            marks = self.capture_marks(s)
            kv = self.ev1(e.key, s)
            vv = self.ev1(e.value, s)
            k_t, v_t = to_v(kv, s), to_v(vv, s)
            if self.needs_capture(s, marks):
                k_t, v_t = self.skolemize_elements(s, marks, [j], z3.And(*guards), [k_t, v_t])
            kty = kv.ty if isinstance(kv, Val) else ANY
            vty = vv.ty if isinstance(vv, Val) else (INT if isinstance(vv, IVal) else BOOL if isinstance(vv, BVal) else ANY)
        finally:
            self.pure_depth -= 1
        st.pc[:] = s.pc
        st.heap = s.heap
        st.fresh[:] = s.fresh
        r = alloc_dict(st, kty, vty)
        k = z3.Const(smt.fresh_name("dck"), V)
        gd = z3.And(*guards)
        member = z3.Lambda([k], z3.Exists([j], z3.And(gd, k_t == k)))
        wit = z3.Function(smt.fresh_name("dc_wit"), V, z3.IntSort())
        valarr = z3.Const(smt.fresh_name("dc_val"), smt.VV)
        n = smt.fresh_int("dcn")
        st.heap = (st.heap.with_comp("dh", z3.Store(st.heap.c["dh"], r.t, member))
                   .with_comp("dv", z3.Store(st.heap.c["dv"], r.t, valarr))
                   .with_comp("dn", z3.Store(st.heap.c["dn"], r.t, n)))
        # value of key k is the value computed at SOME generating index (last-wins not modelled: under-specified)
        w = wit(k)
        sub = lambda x: z3.substitute(x, (j, w))
        st.assume(smt.forall([k], z3.Implies(member[k], z3.And(sub(gd), sub(k_t) == k, valarr[k] == sub(v_t))), patterns=[valarr[k]]))
        # when keys are injective in the index the witness is the unique generator
        st.assume(smt.forall([j], z3.Implies(gd, z3.And(member[k_t], z3.Implies(self.key_injective(k_t, j, gd), valarr[k_t] == v_t))), patterns=[k_t] if not z3.is_const(k_t) else None) if True else None)
        st.assume(*smt.heap_wellformed_ref(st.heap, r.t, "d"))
        self.assumptions.add("dict comprehension: value of a key generated twice is under-specified (any generating index)")
        yield st, r

    def key_injective(self, k_t, j, gd):
        j2 = z3.Int(smt.fresh_name("j2"))
        return z3.ForAll([j2], z3.Implies(z3.And(z3.substitute(gd, (j, j2)), z3.substitute(k_t, (j, j2)) == k_t), j2 == j))

    def ev_Lambda(self, e, st):
        yield st, PyVal(("lambda", e, dict(st.env)), "lambda")

    def ev_Await(self, e, st):
        from .calls import opaque_result
        for s, v in self.ev(e.value, st):
            if isinstance(v, Raised):
                yield s, v
                continue
            s.trace.append(("await",))
            self.havoc_closure_mutated(s)
            if isinstance(v, PyVal) and isinstance(v.obj, tuple) and v.obj and v.obj[0] == "coro":
                _, name, decl, info = v.obj
                s.trace.append(("call", name, info))
                yield from opaque_result(self, name, s, decl.get("returns", ANY), decl)
                continue
            yield s, v

    def havoc_closure_mutated(self, s):
        """A suspension point: tasks created from the function's own nested coroutines may run here.  Containers that a nested
        `def` of this function mutates through a captured name (results_list.append(...) in a worker closure) hold unknown
        contents afterwards (sound over-approximation of asyncio's cooperative scheduling: such writes happen only at awaits)."""
        from .stmts import mutated_exprs, assigned_names, _havoc_refs
        names = getattr(self, "_closure_mutated", None)
        if names is None:
            names = set()
            fa = getattr(self, "func_ast", None)
            for n in (ast.walk(fa) if fa is not None else ()):
                if n is fa or not isinstance(n, (ast.FunctionDef, ast.AsyncFunctionDef)):
                    continue
                local = assigned_names(n.body) | {a.arg for a in n.args.args + n.args.kwonlyargs}
                for kind, expr in mutated_exprs(n.body):
                    if kind != "attr" and isinstance(expr, ast.Name) and expr.id not in local:
                        names.add(expr.id)
            self._closure_mutated = names
        refs = [s.env[n] for n in sorted(names) if isinstance(s.env.get(n), Val) and strip_opt(s.env[n].ty)[0] in ("seq", "dict", "set")]
        if refs:
            _havoc_refs(s, refs)
            self.assumptions.add("containers mutated by the function's own nested coroutines are havocked at every await (writes from tasks happen only at suspension points)")

    def ev_Starred(self, e, st):
        raise Unsupported("starred expression")

    def ev_NamedExpr(self, e, st):
        for s, v in self.ev(e.value, st):
            if not isinstance(v, Raised):
                s.env[e.target.id] = v
            yield s, v

    def ev_Call(self, e, st):
        from .calls import eval_call
        yield from eval_call(self, e, st)
