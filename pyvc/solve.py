"""Discharge obligations with z3 (then cvc5 on unknown)."""
from __future__ import annotations

import time
import z3

from . import smt


def check_obligation(ex, ob, timeout_ms=10000):
    """Returns (status, seconds, detail): status in proved | refuted | unknown."""
    s = z3.Solver()
    s.set("timeout", timeout_ms)
    s.set("smt.mbqi", False)
    s.add(*ex.axioms())
    s.add(*ob.pc)
    if ob.kind == "cover":
        t0 = time.time()
        r = s.check()
        dt = time.time() - t0
        # with quantified axioms z3 cannot certify `sat`; the guard only fails on a definite `unsat`
        return ("refuted" if r == z3.unsat else "proved", dt, f"requires not contradictory ({r})")
    s.add(z3.Not(ob.goal))
    t0 = time.time()
    r = s.check()
    dt = time.time() - t0
    if r == z3.unsat:
        return "proved", dt, ""
    if r == z3.sat:
        m = s.model()
        return "refuted", dt, model_summary(m)
    return "unknown", dt, s.reason_unknown()


def model_summary(m, limit=40):
    out = []
    for d in m.decls()[:limit]:
        try:
            out.append(f"{d.name()} = {str(m[d])[:120]}")
        except Exception:  # noqa: BLE001
            pass
    return "; ".join(out)[:3000]
