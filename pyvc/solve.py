"""Discharge obligations with z3 (then cvc5 on unknown)."""
from __future__ import annotations

import time
import z3

from . import smt


def check_obligation(ex, ob, timeout_ms=10000, mode="all"):
    """Returns (status, seconds, detail): status in proved | refuted | unknown.
    mode: "all" (stage 1 then fresh-process stages), "fast" (stage 1 only), "external" (fresh-process stages only)."""
    from .rewrite import HeapRewriter
    rw = HeapRewriter(ob.pc, getattr(ex.model.decl, "REGION_ATTRS", []))
    pc = [rw.rw(f) for f in ob.pc]
    goal = rw.rw(ob.goal)
    ax = ex.axioms()
    if ob.kind == "cover":
        s = _solver(timeout_ms, fast=True)
        s.add(*ax)
        s.add(*pc)
        t0 = time.time()
        r = s.check()
        dt = time.time() - t0
        # with quantified axioms z3 cannot certify `sat`; the guard only fails on a definite `unsat`
        return ("refuted" if r == z3.unsat else "proved", dt, f"requires not contradictory ({r})")
    t0 = time.time()
    # stage 1: in-process, fixed configuration, short budget (decides the large majority of obligations)
    # ("external" repeats a very short in-process run: besides being cheap it makes the solver preprocess its assertions,
    #  and the exported text of the PREPROCESSED query is what the fresh processes decide reliably)
    s = _solver(2000 if mode != "external" else 100, True)
    s.add(*ax)
    s.add(*pc)
    s.add(z3.Not(goal))
    r = s.check()
    if r == z3.unsat:
        return "proved", time.time() - t0, "z3 e-matching (fast cfg)"
    if r == z3.sat:
        return "refuted", time.time() - t0, model_summary(s.model())
    if z3.is_false(goal) or mode == "fast":
        # goal `False` = "this path must be infeasible": the quick stage decides
        return "unknown", time.time() - t0, s.reason_unknown() if mode != "external" else "not tried"
    # stage 2: the same query (SMT-LIB export) in FRESH solver processes, as a small parallel portfolio: z3 5.1 with four
    # random seeds and z3 4.8.12.  The in-process context carries the term history of every earlier query of the function
    # and E-matching verdicts flip with the argument order of commutative operators; any member answering `unsat` proves.
    res, label = run_portfolio(s, timeout_ms)
    if res == "unsat":
        return "proved", time.time() - t0, f"{label} (fresh process)"
    if res == "sat":
        return "refuted", time.time() - t0, f"{label}: sat"
    return "unknown", time.time() - t0, f"portfolio: {label}"


def run_portfolio(solver, timeout_ms):
    import os
    import shutil
    import subprocess
    import tempfile
    sec = max(1, timeout_ms // 1000)
    z3new, z3old = shutil.which("z3-new"), shutil.which("/usr/bin/z3")
    cmds = []
    if z3new:
        cmds += [([z3new, f"-T:{sec}", "smt.mbqi=false", f"smt.random_seed={k}"], f"z3 5.1 cli seed {k}") for k in (0, 1, 2, 3)]
    if z3old:
        cmds.append(([z3old, f"-T:{min(sec, 5)}", "smt.mbqi=false"], "z3 4.8.12 cli"))
    if not cmds:
        return "unknown", "no external solver"
    fd, path = tempfile.mkstemp(suffix=".smt2", prefix="pyvc_")
    procs = []
    try:
        # export from a FRESH z3 context: term numbering (hence the argument order of commutative operators in the printed
        # query) then depends only on the query itself, not on the queries this process handled before
        try:
            text = solver.translate(z3.Context()).to_smt2()
        except Exception:  # noqa: BLE001
            text = solver.to_smt2()
        with os.fdopen(fd, "w") as f:
            f.write("(set-logic ALL)\n" + text)
        for cmd, label in cmds:
            procs.append((subprocess.Popen(cmd + [path], stdout=subprocess.PIPE, stderr=subprocess.DEVNULL, text=True), label))
        deadline = time.time() + sec + 5
        answers = {}
        while len(answers) < len(procs) and time.time() < deadline:
            for p, label in procs:
                if label not in answers and p.poll() is not None:
                    out = (p.stdout.read() or "").strip().splitlines()
                    answers[label] = out[0].strip() if out else "unknown"
                    if answers[label] == "unsat":
                        return "unsat", label
            time.sleep(0.02)
        sat = [l for l, a in answers.items() if a == "sat"]
        if sat:
            return "sat", sat[0]
        return "unknown", ", ".join(f"{l}: {a}" for l, a in answers.items()) or "timeout"
    except Exception as e:  # noqa: BLE001
        return "unknown", f"portfolio error {type(e).__name__}"
    finally:
        for p, _ in procs:
            if p.poll() is None:
                p.kill()
            try:
                p.wait(timeout=2)
            except Exception:  # noqa: BLE001
                pass
        try:
            os.unlink(path)
        except OSError:
            pass


def _solver(timeout_ms, fast):
    s = z3.Solver()
    s.set("timeout", timeout_ms)
    s.set("smt.mbqi", False)
    if fast:
        s.set("smt.auto_config", False)
    return s


def model_summary(m, limit=40):
    out = []
    for d in m.decls()[:limit]:
        try:
            out.append(f"{d.name()} = {str(m[d])[:120]}")
        except Exception:  # noqa: BLE001
            pass
    return "; ".join(out)[:3000]
