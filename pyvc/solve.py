"""Discharge obligations with z3 (then cvc5 on unknown)."""
from __future__ import annotations

import time
import z3

from . import smt


def check_obligation(ex, ob, timeout_ms=10000, mode="all"):
    """Returns (status, seconds, detail): status in proved | refuted | unknown.
    mode: "all" (stage 1 then fresh-process stages), "fast" (stage 1 only), "external" (fresh-process stages only)."""
    from .rewrite import HeapRewriter
    rw = HeapRewriter(ob.pc, getattr(ex.model.decl, "REGION_ATTRS", []))
    pc = [rw.rw(f) for f in ob.pc]
    goal = rw.rw(ob.goal)
    ax = ex.axioms()
    if ob.kind == "cover":
        s = _solver(timeout_ms, fast=True)
        s.add(*ax)
        s.add(*pc)
        t0 = time.time()
        r = s.check()
        dt = time.time() - t0
        # with quantified axioms z3 cannot certify `sat`; the guard only fails on a definite `unsat`
        return ("refuted" if r == z3.unsat else "proved", dt, f"requires not contradictory ({r})")
    t0 = time.time()
    # stage 1: in-process, fixed configuration, short budget (decides the large majority of obligations)
    s = _solver(2000 if mode != "external" else 1, True)
    s.add(*ax)
    s.add(*pc)
    s.add(z3.Not(goal))
    r = s.check() if mode != "external" else z3.unknown
    if r == z3.unsat:
        return "proved", time.time() - t0, "z3 e-matching (fast cfg)"
    if r == z3.sat:
        return "refuted", time.time() - t0, model_summary(s.model())
    if z3.is_false(goal) or mode == "fast":
        # goal `False` = "this path must be infeasible": the quick stage decides
        return "unknown", time.time() - t0, s.reason_unknown() if mode != "external" else "not tried"
    # stages 2, 3: the same query in FRESH solver processes (the in-process context carries the term/symbol history of every
    # earlier query of this function, which makes E-matching verdicts flip between runs; a fresh process does not)
    detail = s.reason_unknown() if mode != "external" else ""
    for cmd, label in external_solvers(timeout_ms):
        res = run_external(s, cmd, timeout_ms)
        if res == "unsat":
            return "proved", time.time() - t0, f"{label} (fresh process)"
        if res == "sat":
            return "refuted", time.time() - t0, f"{label}: sat"
        detail = f"{label}: {res}"
    return "unknown", time.time() - t0, detail


def external_solvers(timeout_ms):
    import shutil
    sec = max(1, timeout_ms // 1000)
    out = []
    for exe, label, t in (("z3-new", "z3 5.1 cli", sec), ("/usr/bin/z3", "z3 4.8.12 cli", min(sec, 5))):
        path = shutil.which(exe)
        if path:
            out.append(([path, f"-T:{t}", "smt.mbqi=false"], label))
    return out


def run_external(solver, cmd, timeout_ms):
    import os
    import subprocess
    import tempfile
    fd, path = tempfile.mkstemp(suffix=".smt2", prefix="pyvc_")
    try:
        with os.fdopen(fd, "w") as f:
            f.write("(set-logic ALL)\n" + solver.to_smt2())
        out = subprocess.run(cmd + [path], capture_output=True, text=True, timeout=timeout_ms / 1000 + 10).stdout.strip().splitlines()
        return out[0].strip() if out else "unknown"
    except Exception:  # noqa: BLE001
        return "unknown"
    finally:
        try:
            os.unlink(path)
        except OSError:
            pass


def _solver(timeout_ms, fast):
    s = z3.Solver()
    s.set("timeout", timeout_ms)
    s.set("smt.mbqi", False)
    if fast:
        s.set("smt.auto_config", False)
    return s


def model_summary(m, limit=40):
    out = []
    for d in m.decls()[:limit]:
        try:
            out.append(f"{d.name()} = {str(m[d])[:120]}")
        except Exception:  # noqa: BLE001
            pass
    return "; ".join(out)[:3000]
