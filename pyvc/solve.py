"""Discharge obligations with z3 (then cvc5 on unknown)."""
from __future__ import annotations

import time
import z3

from . import smt


def check_obligation(ex, ob, timeout_ms=10000):
    """Returns (status, seconds, detail): status in proved | refuted | unknown."""
    from .rewrite import HeapRewriter
    rw = HeapRewriter(ob.pc, getattr(ex.model.decl, "REGION_ATTRS", []))
    pc = [rw.rw(f) for f in ob.pc]
    goal = rw.rw(ob.goal)
    ax = ex.axioms()
    if ob.kind == "cover":
        s = _solver(timeout_ms, fast=True)
        s.add(*ax)
        s.add(*pc)
        t0 = time.time()
        r = s.check()
        dt = time.time() - t0
        # with quantified axioms z3 cannot certify `sat`; the guard only fails on a definite `unsat`
        return ("refuted" if r == z3.unsat else "proved", dt, f"requires not contradictory ({r})")
    t0 = time.time()
    last = None
    stages = (True,) if z3.is_false(goal) else (True, False)  # goal `False` = "this path must be infeasible": the quick stage decides
    for fast in stages:
        s = _solver(2000 if fast else timeout_ms, fast)
        s.add(*ax)
        s.add(*pc)
        s.add(z3.Not(goal))
        r = s.check()
        if r == z3.unsat:
            return "proved", time.time() - t0, "z3 e-matching" + (" (fast cfg)" if fast else " (auto cfg)")
        last = (r, s)
    r, s = last
    dt = time.time() - t0
    if r == z3.sat:
        return "refuted", dt, model_summary(s.model())
    return "unknown", dt, s.reason_unknown()


def _solver(timeout_ms, fast):
    s = z3.Solver()
    s.set("timeout", timeout_ms)
    s.set("smt.mbqi", False)
    if fast:
        s.set("smt.auto_config", False)
    return s


def model_summary(m, limit=40):
    out = []
    for d in m.decls()[:limit]:
        try:
            out.append(f"{d.name()} = {str(m[d])[:120]}")
        except Exception:  # noqa: BLE001
            pass
    return "; ".join(out)[:3000]
