"""Verify one contracted function in a worker process: run the executor, discharge obligations, return plain data."""
from __future__ import annotations

import os
import time
import traceback


def verify_function(key: str, budget_ms: int = 8000) -> dict:
    from .project import Project
    from .vc import FunctionVC
    from .solve import check_obligation
    from .values import Unsupported

    t0 = time.time()
    out = {"key": key, "status": "ok", "obligations": [], "assumptions": [], "paths": None, "gen_s": 0.0, "solve_s": 0.0}
    try:
        proj = _project()
        c = proj.contracts[key]
        out["ast_hash"] = proj.function_hash(key)
        out["shape"] = proj.function_shape(key)
        out["props"] = c.get("props", [])
        vc = FunctionVC(proj, key, c)
        obs = vc.run()
        out["gen_s"] = round(time.time() - t0, 3)
        out["paths"] = list(vc.n_paths)
        mustfail = []
        spent = 0.0
        # pass 1: the quick in-process stage on every obligation; pass 2: fresh-process stages on what is left, contract
        # clauses before auxiliary (invariant) obligations, within the per-function budget
        first = {}
        for i, ob in enumerate(obs):
            first[i] = check_obligation(vc, ob, 3000 if ob.kind == "mustfail" else budget_ms, mode="fast" if ob.kind not in ("mustfail", "cover") else "all")
        order = sorted((i for i in first if first[i][0] == "unknown" and obs[i].kind not in ("mustfail", "cover") and not _is_false_goal(obs[i])), key=lambda i: (bool(obs[i].aux), i))
        for i in order:
            if spent > 150 * budget_ms / 8000:
                first[i] = ("unknown", first[i][1], "skipped: per-function solver budget (150 s) exhausted")
                continue
            st, dt, detail = check_obligation(vc, obs[i], budget_ms, mode="external")
            if st != "proved":
                spent += dt
            first[i] = (st, first[i][1] + dt, detail)
        for i, ob in enumerate(obs):
            st, dt, detail = first[i]
            rec = {"name": ob.name, "kind": ob.kind, "status": st, "secs": round(dt, 3), "clause": str(ob.info.get("clause", ""))[:400],
                   "aux": bool(ob.aux), "path": ob.info.get("path", ""), "backend": detail if st == "proved" else "", "detail": "" if st == "proved" else str(detail)[:1500]}
            if "trace" in ob.info:
                rec["trace"] = ob.info["trace"][:40]
            if ob.kind == "mustfail":
                mustfail.append(st)
                rec["status"] = "guard-ok" if st != "proved" else "proved"
            out["obligations"].append(rec)
        if mustfail:
            out["mustfail_guard"] = "ok" if any(x != "proved" for x in mustfail) else "ENGINE-UNSOUND"
        out["assumptions"] = sorted(vc.assumptions | proj.model.used)
        out["solve_s"] = round(time.time() - t0 - out["gen_s"], 3)
    except Unsupported as e:
        out["status"] = "unsupported"
        out["detail"] = str(e)
    except KeyError as e:
        out["status"] = "anchor-missing"
        out["detail"] = str(e)
    except Exception:  # noqa: BLE001
        out["status"] = "crash"
        out["detail"] = traceback.format_exc()[-3000:]
    out["wall_s"] = round(time.time() - t0, 3)
    return out


def _is_false_goal(ob):
    import z3
    return z3.is_false(ob.goal)


_PROJ = None


def _project():
    global _PROJ
    if _PROJ is None:
        from .project import Project
        _PROJ = Project()
    return _PROJ


def verify_many(keys, procs=16, per_function_timeout=240, budget_ms=8000):
    """One process per function with a hard kill (z3's soft timeouts are not always honoured)."""
    import multiprocessing as mp
    ctx = mp.get_context("fork")
    results = {}
    pending = list(keys)
    running = {}
    while pending or running:
        while pending and len(running) < procs:
            k = pending.pop(0)
            parent, child = ctx.Pipe(duplex=False)
            p = ctx.Process(target=_worker, args=(k, child, budget_ms))
            p.start()
            child.close()
            running[k] = (p, parent, time.time())
        time.sleep(0.05)
        for k, (p, conn, t0) in list(running.items()):
            if conn.poll():
                try:
                    results[k] = conn.recv()
                except EOFError:
                    results[k] = {"key": k, "status": "crash", "detail": "worker died", "obligations": []}
                p.join(1)
                del running[k]
            elif not p.is_alive():
                results[k] = {"key": k, "status": "crash", "detail": f"worker exited {p.exitcode}", "obligations": []}
                del running[k]
            elif time.time() - t0 > per_function_timeout:
                p.kill()
                results[k] = {"key": k, "status": "timeout", "detail": f"hard kill after {per_function_timeout}s", "obligations": []}
                del running[k]
    return [results[k] for k in keys]


def _worker(key, conn, budget_ms=8000):
    try:
        conn.send(verify_function(key, budget_ms))
    finally:
        conn.close()
