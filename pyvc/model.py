"""Object model: which attributes/methods of repo classes are pure functions of the object, their types,
and assumed contracts of library calls.  Every declaration here is an ASSUMPTION (A3/A4 in DESIGN 7.2)
unless a contract proves it; the evidence lists the ones a run used."""
from __future__ import annotations

import importlib
import z3

from . import smt
from .smt import V
from .values import ANY, STR, INT, BOOL, NONE_T, EXC, SEQ, DICT, SET, OBJ, OPT, Val, BVal, IVal, TupVal, PyVal, Unsupported, strip_opt
from .engine import REG, to_v, type_facts, alloc


class Model:
    def __init__(self, decl_module):
        self.decl = decl_module
        self.classes = decl_module.CLASSES
        self.used: set[str] = set()
        for name, c in self.classes.items():
            try:
                mod = importlib.import_module(c["module"])
                REG.add(getattr(mod, name))
            except Exception:  # noqa: BLE001 - class may be a protocol-only name
                pass

    def has_class(self, name):
        return name in self.classes

    def _mro_names(self, cls):
        real = REG.get(cls)
        if real is None:
            return [cls]
        return [c.__name__ for c in real.__mro__]

    def attr(self, cls, attr):
        for cn in self._mro_names(cls):
            c = self.classes.get(cn)
            if c is None:
                continue
            if attr in c.get("attrs", {}):
                self.used.add(f"attr {cn}.{attr}: pure function of the object, type {c['attrs'][attr]}")
                return ("attr", c["attrs"][attr])
            if attr in c.get("methods", {}):
                return ("method", c["methods"][attr])
            if attr in c.get("properties", {}):
                return ("property", c["properties"][attr])
        return None

    def attr_any(self, attr):
        return getattr(self.decl, "ANY_ATTRS", {}).get(attr)

    def attr_optional(self, cls, attr):
        for cn in self._mro_names(cls):
            c = self.classes.get(cn)
            if c and attr in c.get("optional_attrs", ()):
                return True
        return False

    def method_decl(self, cls, name):
        d = self.attr(cls, name)
        if d is not None and d[0] in ("method", "property"):
            return d[1]
        return None

    def class_prefix(self, cls, name):
        """Contract key of the most specific class in the MRO that has a contract for method `name`."""
        return [(cn, self.classes[cn].get("file")) for cn in self._mro_names(cls) if cn in self.classes and self.classes[cn].get("file")]

    def axioms(self, ex):
        f = getattr(self.decl, "axioms", None)
        return f(ex) if f else []

    def library_call(self, obj):
        name = f"{getattr(obj, '__module__', '')}.{getattr(obj, '__qualname__', getattr(obj, '__name__', ''))}"
        return getattr(self.decl, "LIBRARY", {}).get(name)

    def opaque_decl(self, name):
        d = getattr(self.decl, "OPAQUE", {}).get(name)
        if d is None:
            self.used.add(f"uncontracted callee `{name}`: fresh result, may raise Exception, assumed to modify nothing visible")
            return {}
        self.used.add(f"declared callee `{name}`: {d}")
        return d

    def callable_param(self, ex, fv):
        d = ex.contract.get("callables", {})
        name = ex.describe(fv)
        # a callback PARAMETER is the constant `p_<name>`; the contract names it as the code does
        return d.get(name) or d.get(name[2:] if name.startswith("p_") else name, {})

    def ctor_fields(self, clsname, args, kwargs):
        d = getattr(self.decl, "CTOR_FIELDS", {}).get(clsname)
        if not d:
            return {}
        out = {}
        for i, attr in enumerate(d.get("positional", [])):
            if i < len(args) and attr:
                out[attr] = args[i]
        for k, attr in d.get("keywords", {}).items():
            if k in kwargs:
                out[attr] = kwargs[k]
        return out

    def ctor(self, clsname):
        return getattr(self.decl, "CTORS", {}).get(clsname)

    def any_is_dict(self, recv):
        return True
