"""pyvc executor: calls — builtins, container methods, contracted callees, opaque callees."""
from __future__ import annotations

import ast
import z3

from . import smt
from .smt import V
from .values import (ANY, STR, INT, BOOL, NONE_T, EXC, SEQ, DICT, SET, OBJ, OPT, Val, BVal, IVal, TupVal, PyVal, SeqView,
                     BoundMethod, Raised, Unsupported, strip_opt)
from .engine import (St, REG, to_v, lift, truth, as_int, eq, identical, alloc, alloc_seq, alloc_dict, alloc_set, dict_store,
                     dict_del, set_add, seq_append, seq_view, contains, type_facts)


def eval_call(ex, e: ast.Call, st: St):
    # quantifier builtins over generator expressions are handled before argument evaluation
    if isinstance(e.func, ast.Name) and e.func.id in ("all", "any") and len(e.args) == 1 and isinstance(e.args[0], (ast.GeneratorExp, ast.ListComp)) and e.func.id not in st.env:
        yield st, BVal(ex.quantify(e.args[0], st, e.func.id))
        return
    if isinstance(e.func, ast.Name) and e.func.id == "old" and e.func.id not in st.env:
        yield st, ex.eval_old(e.args[0], st)
        return
    if isinstance(e.func, ast.Name) and e.func.id == "next" and len(e.args) == 2 and isinstance(e.args[0], ast.GeneratorExp):
        yield from ex_next_gen(ex, e, st)
        return
    if any(isinstance(a, ast.Starred) for a in e.args) or any(k.arg is None for k in e.keywords):
        yield from opaque_star_call(ex, e, st)
        return
    for s, fv in ex.ev(e.func, st):
        if isinstance(fv, Raised):
            yield s, fv
            continue
        kw_names = [k.arg for k in e.keywords]
        for s2, vals in ex.evs(list(e.args) + [k.value for k in e.keywords], s):
            if isinstance(vals, Raised):
                yield s2, vals
                continue
            args = vals[: len(e.args)]
            kwargs = dict(zip(kw_names, vals[len(e.args):]))
            yield from apply(ex, fv, args, kwargs, s2, e)


def opaque_star_call(ex, e, st):
    name = ast.unparse(e.func)
    # evaluate the argument expressions (they may raise / have effects), then treat the call itself as opaque
    exprs = [a.value if isinstance(a, ast.Starred) else a for a in e.args] + [k.value for k in e.keywords]
    for s, vals in ex.evs([e.func] + exprs if not isinstance(e.func, ast.Name) else exprs, st):
        if isinstance(vals, Raised):
            yield s, vals
            continue
        s.trace.append(("call", name, {"star": True}))
        ex.assumptions.add(f"call with *args/**kwargs `{name}` treated as opaque")
        yield from opaque_result(ex, name, s, ANY)


def ex_next_gen(ex, e, st):
    """next((k for k, v in d.items() if c), default): some element satisfying c, else default."""
    gen = e.args[0]
    exists = ex.quantify(ast.GeneratorExp(elt=ast.Constant(True), generators=gen.generators), st, "any")
    for s, dflt in ex.ev(e.args[1], st):
        if isinstance(dflt, Raised):
            yield s, dflt
            continue
        s1 = s.fork().assume(z3.Not(exists))
        if ex.feasible(s1):
            yield s1, dflt
        s2 = s.fork().assume(exists)
        if ex.feasible(s2):
            # pick the FIRST satisfying index of the underlying view
            g = gen.generators[0]
            it = ex.ev1(g.iter, s2)
            view = ex.iter_view(it, s2)
            s2.assume(*view.facts)
            j = smt.fresh_int("nx")
            s2.assume(0 <= j, j < view.len)
            sb = s2.fork()
            ex.pure_depth += 1
            try:
                ex.bind_target(g.target, view.at(j), sb)
                conds = [truth(ex.ev1(c, sb), sb) for c in g.ifs]
                out = ex.ev1(gen.elt, sb)
                j2 = z3.Int(smt.fresh_name("nx2"))
                sc = s2.fork()
                ex.bind_target(g.target, view.at(j2), sc)
                conds2 = [truth(ex.ev1(c, sc), sc) for c in g.ifs]
            finally:
                ex.pure_depth -= 1
            s2.assume(*conds)
            s2.assume(z3.ForAll([j2], z3.Implies(z3.And(0 <= j2, j2 < j), z3.Not(z3.And(*conds2) if conds2 else z3.BoolVal(True)))))
            yield s2, out


def apply(ex, fv, args, kwargs, s: St, node=None):
    if isinstance(fv, BoundMethod):
        yield from call_method_val(ex, fv.self_val, fv.name, args, kwargs, s)
        return
    if isinstance(fv, PyVal):
        obj = fv.obj
        if isinstance(obj, tuple) and obj and obj[0] == "lambda":
            lam, env = obj[1], obj[2]
            s2 = s.fork()
            saved = dict(s2.env)
            s2.env.update(env)
            for p, a in zip(lam.args.args, args):
                s2.env[p.arg] = a
            for s3, v in ex.ev(lam.body, s2):
                s3.env = saved if True else s3.env
                yield s3, v
            return
        if isinstance(obj, tuple) and obj and obj[0] == "closure":
            yield from ex.call_closure(obj[1], args, kwargs, s)
            return
        b = BUILTINS.get(getattr(obj, "__name__", None)) if _is_builtin(obj) else None
        if b is not None:
            yield from b(ex, args, kwargs, s)
            return
        if isinstance(obj, type):
            yield from construct(ex, obj, args, kwargs, s)
            return
        name = fv.name
        spec = ex.project.spec_functions.get(getattr(obj, "__name__", name))
        if spec is not None and spec is obj:
            yield from ex.inline_spec(obj, args, kwargs, s)
            return
        # repo function?
        key = ex.project.key_for_function(obj)
        if key is not None:
            yield from ex.call_repo_function(key, obj, None, args, kwargs, s)
            return
        lib = ex.model.library_call(obj)
        if lib is not None:
            yield from lib(ex, args, kwargs, s)
            return
        s.trace.append(("call", name, {}))
        yield from opaque_result(ex, name, s, ANY)
        return
    if isinstance(fv, Val):
        # calling a first-class value (callback parameter): opaque, may raise
        name = ex.describe(fv)
        s.trace.append(("call", name, {"args": args, "kwargs": kwargs}))
        decl = ex.model.callable_param(ex, fv)
        yield from opaque_result(ex, name, s, ANY, decl)
        return
    raise Unsupported(f"call of {fv!r}")


def _is_builtin(obj):
    import builtins
    n = getattr(obj, "__name__", None)
    return n is not None and getattr(builtins, n, None) is obj


def opaque_result(ex, name, s: St, ty=ANY, decl=None):
    """Result of a callee without contract: fresh value; may raise any Exception unless declared noraise."""
    decl = decl or ex.model.opaque_decl(name)
    may_raise = decl.get("raises", ["Exception"])
    for cls in may_raise:
        s_r = s.fork()
        exc = Val(smt.fresh_v("exc"), EXC)
        REG.add(_exc_class(cls))
        s_r.assume(smt.is_exc(exc.t), smt.inst_pred(cls)(exc.t), smt.Alloc0(exc.t) == False)
        s_r.trace.append(("raised-by", name, cls))
        yield s_r, Raised(cls, exc, {"exact": False, "by": name})
    rty = decl.get("returns", ty)
    v = Val(smt.fresh_v("ret"), rty)
    # whatever an uncontracted callee returns exists when it returns: objects this function allocates LATER differ from it
    ev = smt.tick(v.t.decl().name())
    smt.EXISTING.add(v.t.decl().name())
    s.assume(smt.Birth(v.t) <= ev)
    s.assume(*type_facts(v, s))
    s.env["_ret_" + "".join(c if c.isalnum() else "_" for c in name).strip("_")] = v  # ghost: result of the opaque call
    if rty == BOOL:
        v = BVal(v.t == smt.TRUE)
    elif rty == INT:
        v = IVal(smt.ival(v.t))
    yield s, v


def _exc_class(name):
    import builtins
    c = getattr(builtins, name, None)
    if c is None:
        c = REG.get(name)
    if c is None:
        import asyncio
        import copy
        import pickle
        for mod in (pickle, copy, asyncio):
            c = getattr(mod, name, None)
            if isinstance(c, type) and issubclass(c, BaseException):
                REG.add(c)
                break
            c = None
    if c is None:
        import importlib
        import sys
        for modname in ("hypergraph.exceptions", "hypergraph.graph.validation", "hypergraph.runners._shared.types"):
            try:
                importlib.import_module(modname)
            except Exception:  # noqa: BLE001
                pass
        for modname in sorted(m for m in sys.modules if m.startswith("hypergraph")):
            c = getattr(sys.modules[modname], name, None)
            if isinstance(c, type) and issubclass(c, BaseException):
                REG.add(c)
                break
            c = None
    if c is None:
        raise Unsupported(f"unknown exception class {name}")
    return c


def construct(ex, cls: type, args, kwargs, s: St):
    REG.add(cls)
    if issubclass(cls, BaseException):
        exc = alloc(s, "exc", EXC)
        s.assume(smt.is_exc(exc.t), smt.inst_pred(cls.__name__)(exc.t))
        v = Val(exc.t, OBJ(cls.__name__) if ex.model.has_class(cls.__name__) else EXC)
        ex.exc_info[exc.t.get_id()] = {"cls": cls.__name__, "args": args, "kwargs": kwargs, "_ref": exc.t}
        s.trace.append(("new-exc", cls.__name__))
        # declared attribute wiring of exception constructors (e.g. ExecutionError.partial_state)
        for attr, src in ex.model.ctor_fields(cls.__name__, args, kwargs).items():
            s.assume(smt.attr_func(attr)(exc.t) == to_v(src, s))
        yield s, v
        return
    if cls in (dict,):
        d = alloc_dict(s, ANY, ANY)
        if args:
            a = args[0]
            if isinstance(a, Val) and strip_opt(a.ty)[0] == "dict":
                d = alloc_dict(s, a.ty[1], a.ty[2])
                copy_container(s, "d", a.t, d.t)
            else:
                yield from BUILTINS["dict"](ex, args, kwargs, s)
                return
        for k, v in kwargs.items():
            dict_store(s, d.t, smt.str_const(k), to_v(v, s))
        yield s, d
        return
    decl = ex.model.ctor(cls.__name__)
    if decl is not None:
        yield from decl(ex, cls, args, kwargs, s)
        return
    import dataclasses
    if dataclasses.is_dataclass(cls) and ex.model.has_class(cls.__name__):
        # generic dataclass constructor: fresh object whose fields are the arguments / declared defaults
        obj = alloc(s, cls.__name__, OBJ(cls.__name__))
        s.assume(*type_facts(obj, s))
        flds = [f for f in dataclasses.fields(cls) if f.init]
        given = dict(zip([f.name for f in flds], args))
        given.update(kwargs)
        for f in flds:
            decl_a = ex.model.attr(cls.__name__, f.name)
            fty = decl_a[1] if decl_a and decl_a[0] == "attr" else ANY
            if f.name in given:
                v = to_v(given[f.name], s)
            elif f.default_factory is not dataclasses.MISSING:
                fac = f.default_factory
                if fac is dict:
                    v = alloc_dict(s, fty[1] if fty[0] == "dict" else ANY, fty[2] if fty[0] == "dict" else ANY).t
                elif fac is list:
                    v = alloc_seq(s, [], "list").t
                elif fac is set:
                    v = alloc_set(s, ANY).t
                else:
                    v = smt.fresh_v(f"fld_{f.name}")
            elif f.default is not dataclasses.MISSING:
                v = to_v(lift(f.default), s)
            else:
                s_bad = s.fork()
                yield s_bad, Raised("TypeError", None, {"by": f"{cls.__name__}() missing {f.name}"})
                return
            if f.name in s.heap.f:
                s.heap = s.heap.with_field(f.name, z3.Store(s.heap.f[f.name], obj.t, v))
            else:
                s.assume(smt.attr_func(f.name)(obj.t) == v)
        s.trace.append(("new", cls.__name__, {k: str(getattr(v, "t", v)) for k, v in given.items()}, {"fields": dict(given), "obj": obj}))
        yield s, obj
        return
    key = ex.project.key_for_function(getattr(cls, "__init__", None))
    if key is not None and ex.project.contracts.get(key):
        # contracted constructor: allocate the instance, apply __init__'s contract with it as receiver, hand out the instance
        obj = alloc(s, cls.__name__, OBJ(cls.__name__) if ex.model.has_class(cls.__name__) else ANY)
        s.assume(*type_facts(obj, s))
        if ex.model.has_class(cls.__name__):
            s.assume(smt.inst_pred(cls.__name__)(obj.t))
        for s2, r in ex.call_repo_function(key, cls.__init__, obj, args, kwargs, s, constructing=cls):
            yield s2, (r if isinstance(r, Raised) else obj)
        return
    s.trace.append(("call", cls.__name__, {"args": args, "kwargs": kwargs}))
    v = alloc(s, cls.__name__, OBJ(cls.__name__) if ex.model.has_class(cls.__name__) else ANY)
    s.assume(*type_facts(v, s))
    yield s, v


def copy_container(s: St, kind, src, dst):
    h = s.heap
    if kind == "d":
        h = h.with_comp("dh", z3.Store(h.c["dh"], dst, h.c["dh"][src])).with_comp("dv", z3.Store(h.c["dv"], dst, h.c["dv"][src])).with_comp("dn", z3.Store(h.c["dn"], dst, h.c["dn"][src]))
    elif kind == "s":
        h = h.with_comp("sh", z3.Store(h.c["sh"], dst, h.c["sh"][src])).with_comp("sn", z3.Store(h.c["sn"], dst, h.c["sn"][src]))
    else:
        h = h.with_comp("sl", z3.Store(h.c["sl"], dst, h.c["sl"][src])).with_comp("sa", z3.Store(h.c["sa"], dst, h.c["sa"][src]))
    s.heap = h


# ------------------------------------------------------------------------- builtins
def b_len(ex, args, kwargs, s):
    (a,) = args
    if isinstance(a, TupVal):
        yield s, IVal(len(a.items))
        return
    if isinstance(a, SeqView):
        yield s, IVal(a.len)
        return
    ty = strip_opt(a.ty)
    h = s.heap
    if ty[0] == "seq":
        yield s, IVal(h.c["sl"][a.t])
    elif ty[0] == "dict":
        yield s, IVal(h.c["dn"][a.t])
    elif ty[0] == "set":
        yield s, IVal(h.c["sn"][a.t])
    elif ty[0] == "any":
        yield s, IVal(h.c["sl"][a.t])
        ex.assumptions.add("len()/iteration of an untyped value: modelled as a list/tuple, assumed not to raise")
    elif ty[0] == "str":
        n = smt.fresh_int("slen")
        s.assume(n >= 0)
        yield s, IVal(n)
    elif ex.pure_depth:
        yield s, IVal(z3.Function("len_undef", V, z3.IntSort())(a.t))  # len() of a non-container inside a spec: unspecified
    else:
        s_bad = s.fork()
        yield s_bad, Raised("TypeError", None, {"by": "len"})


def b_bool(ex, args, kwargs, s):
    yield s, BVal(truth(args[0], s)) if args else BVal(False)


def b_isinstance(ex, args, kwargs, s):
    v, c = args
    yield s, BVal(isinstance_pred(ex, v, c, s))


def isinstance_pred(ex, v, c, s):
    if isinstance(c, TupVal):
        return z3.Or(*[isinstance_pred(ex, v, x, s) for x in c.items])
    if not isinstance(c, PyVal) or not isinstance(c.obj, type):
        raise Unsupported(f"isinstance with {c!r}")
    cls = c.obj
    if isinstance(v, BVal):
        return z3.BoolVal(cls in (bool, int, object))
    if isinstance(v, IVal):
        return z3.BoolVal(cls in (int, object))
    if isinstance(v, TupVal):
        return z3.BoolVal(cls in (tuple, object))
    if isinstance(v, PyVal):
        return z3.BoolVal(isinstance(v.obj, cls))
    t = v.t
    ty = strip_opt(v.ty)
    builtin = {str: smt.is_str, list: smt.is_list, tuple: smt.is_tuple, dict: smt.is_dict, set: smt.is_set, frozenset: smt.is_set, bool: smt.is_bool}
    if cls in builtin:
        base = builtin[cls](t)
    elif cls is int:
        base = z3.Or(smt.is_int(t), smt.is_bool(t))
    elif cls is object:
        return z3.BoolVal(True)
    else:
        REG.add(cls)
        if ty[0] == "obj" and REG.get(ty[1]) is not None and issubclass(REG.get(ty[1]), cls):
            base = z3.BoolVal(True)
        else:
            base = smt.inst_pred(cls.__name__)(t)
    if v.ty[0] == "opt":
        return z3.And(t != smt.NONE, base)
    return base


def b_getattr(ex, args, kwargs, s):
    obj, name = args[0], args[1]
    if not (isinstance(name, Val) and z3.is_const(name.t) and str(name.t).startswith("str:")):
        raise Unsupported("getattr with non-literal name")
    attr = str(name.t)[4:]
    if len(args) == 3:
        # attribute may be absent on some classes: has_attr is an uninterpreted predicate of the object
        if isinstance(obj, Val) and strip_opt(obj.ty)[0] == "obj":
            decl = ex.model.attr(strip_opt(obj.ty)[1], attr)
            if decl is not None and decl[0] == "attr" and not ex.model.attr_optional(strip_opt(obj.ty)[1], attr):
                yield from ex.getattr_val(obj, attr, s)
                return
            has = z3.Function(f"hasattr_{attr}", V, z3.BoolSort())(obj.t)
            ty = decl[1] if decl is not None and decl[0] == "attr" else ANY
            got = ex.read_attr(obj, attr, ty, s)
            yield s, ex.merge(has, got, args[2], s)
            return
        if isinstance(obj, Val):
            has = z3.Function(f"hasattr_{attr}", V, z3.BoolSort())(obj.t)
            got = Val(smt.attr_func(attr)(obj.t), ANY)
            yield s, ex.merge(has, got, args[2], s)
            return
        raise Unsupported("3-arg getattr on non-object")
    yield from ex.getattr_val(obj, attr, s)


def b_hasattr(ex, args, kwargs, s):
    obj, name = args
    attr = str(name.t)[4:]
    if isinstance(obj, Val):
        yield s, BVal(z3.Function(f"hasattr_{attr}", V, z3.BoolSort())(obj.t))
    else:
        yield s, BVal(hasattr(obj.obj, attr))


def b_set(ex, args, kwargs, s):
    if not args:
        yield s, alloc_set(s, STR)
        return
    (a,) = args
    if isinstance(a, Val) and strip_opt(a.ty)[0] == "set":
        r = alloc_set(s, a.ty[1])
        copy_container(s, "s", a.t, r.t)
        yield s, r
        return
    view = ex.iter_view(a, s)
    s.assume(*view.facts)
    r = alloc_set(s, view.elem_ty)
    k = z3.Const(smt.fresh_name("stk"), V)
    j = z3.Int(smt.fresh_name("stj"))
    # membership as a fresh array DEFINED by two quantified facts with a witness function (E-matching instantiates them on
    # demand; a lambda with an inner existential left the solver without usable triggers)
    member = z3.Const(smt.fresh_name("set_of"), z3.ArraySort(V, z3.BoolSort()))
    wit = z3.Function(smt.fresh_name("set_wit"), V, z3.IntSort())
    elem = to_v(view.at(j), s)
    n = smt.fresh_int("stn")
    s.heap = s.heap.with_comp("sh", z3.Store(s.heap.c["sh"], r.t, member)).with_comp("sn", z3.Store(s.heap.c["sn"], r.t, n))
    s.assume(smt.forall([j], z3.Implies(z3.And(0 <= j, j < view.len), member[elem]), patterns=[elem] if not z3.is_const(elem) else None),
             smt.forall([k], z3.Implies(member[k], z3.And(0 <= wit(k), wit(k) < view.len, z3.substitute(elem, (j, wit(k))) == k)), patterns=[member[k]]),
             *smt.heap_wellformed_ref(s.heap, r.t, "s"), n <= view.len)
    yield s, r


def b_list(ex, args, kwargs, s, kind="list"):
    if not args:
        yield s, alloc_seq(s, [], kind)
        return
    (a,) = args
    if isinstance(a, TupVal):
        yield s, alloc_seq(s, [to_v(x, s) for x in a.items], kind)
        return
    view = ex.iter_view(a, s)
    s.assume(*view.facts)
    r = alloc(s, kind, SEQ(view.elem_ty))
    s.assume(smt.is_list(r.t) if kind == "list" else smt.is_tuple(r.t))
    j = z3.Int(smt.fresh_name("lj"))
    arr = z3.Lambda([j], to_v(view.at(j), s))
    s.heap = s.heap.with_comp("sl", z3.Store(s.heap.c["sl"], r.t, view.len)).with_comp("sa", z3.Store(s.heap.c["sa"], r.t, arr))
    s.assume(view.len >= 0)
    yield s, r


def b_tuple(ex, args, kwargs, s):
    if args and isinstance(args[0], TupVal):
        yield s, args[0]
        return
    yield from b_list(ex, args, kwargs, s, kind="tuple")


def b_dict(ex, args, kwargs, s):
    if not args:
        d = alloc_dict(s, STR, ANY)
        for k, v in kwargs.items():
            dict_store(s, d.t, smt.str_const(k), to_v(v, s))
        yield s, d
        return
    (a,) = args
    if isinstance(a, Val) and strip_opt(a.ty)[0] == "dict":
        aty = strip_opt(a.ty)
        d = alloc_dict(s, aty[1], aty[2])
        copy_container(s, "d", a.t, d.t)
        for k, v in kwargs.items():
            dict_store(s, d.t, smt.str_const(k), to_v(v, s))
        yield s, d
        return
    if isinstance(a, SeqView) and getattr(a, "pairs", None):
        raise Unsupported("dict(pairs)")
    if isinstance(a, ZipView):
        # dict(zip(keys, values)): keys[j] -> values[j]
        d = alloc_dict(s, a.views[0].elem_ty, a.views[1].elem_ty)
        k = z3.Const(smt.fresh_name("zk"), V)
        j = z3.Int(smt.fresh_name("zj"))
        kv, vv = a.views
        member = z3.Lambda([k], z3.Exists([j], z3.And(0 <= j, j < a.len, to_v(kv.at(j), s) == k)))
        valarr = z3.Const(smt.fresh_name("zval"), smt.VV)
        n = smt.fresh_int("zn")
        s.heap = (s.heap.with_comp("dh", z3.Store(s.heap.c["dh"], d.t, member)).with_comp("dv", z3.Store(s.heap.c["dv"], d.t, valarr))
                  .with_comp("dn", z3.Store(s.heap.c["dn"], d.t, n)))
        # last occurrence wins; with distinct keys the generating index is unique
        j2 = z3.Int(smt.fresh_name("zj2"))
        s.assume(z3.ForAll([j], z3.Implies(z3.And(0 <= j, j < a.len, z3.ForAll([j2], z3.Implies(z3.And(j < j2, j2 < a.len), to_v(kv.at(j2), s) != to_v(kv.at(j), s)))),
                                           valarr[to_v(kv.at(j), s)] == to_v(vv.at(j), s))))
        s.assume(*smt.heap_wellformed_ref(s.heap, d.t, "d"), n <= a.len)
        yield s, d
        return
    if isinstance(a, Val) and strip_opt(a.ty)[0] == "any":
        # dict(x) of an untyped value: modelled as a copy of a mapping (assumption, listed)
        ex.assumptions.add("dict(x) of an untyped value: x modelled as a mapping")
        d = alloc_dict(s, ANY, ANY)
        copy_container(s, "d", a.t, d.t)
        yield s, d
        return
    raise Unsupported(f"dict({a!r})")


class ZipView:
    def __init__(self, views, length, strict):
        self.views = views
        self.len = length
        self.strict = strict


def b_zip(ex, args, kwargs, s):
    views = [ex.iter_view(a, s) for a in args]
    for v in views:
        s.assume(*v.facts)
    n = views[0].len
    for v in views[1:]:
        n = z3.If(v.len < n, v.len, n)
    strict = kwargs.get("strict")
    if strict is not None and z3.is_true(z3.simplify(truth(strict, s))):
        same = z3.And(*[v.len == views[0].len for v in views[1:]]) if len(views) > 1 else z3.BoolVal(True)
        s_bad = s.fork().assume(z3.Not(same))
        if ex.feasible(s_bad):
            yield s_bad, Raised("ValueError", None, {"by": "zip strict"})
        s.assume(same)
    zv = ZipView(views, n, strict)
    yield s, zv


def b_enumerate(ex, args, kwargs, s):
    view = ex.iter_view(args[0], s)
    yield s, SeqView(view.len, lambda i: TupVal([IVal(i), view.at(i)]), ANY, view.facts)


def b_range(ex, args, kwargs, s):
    if len(args) == 1:
        n = as_int(args[0])
        yield s, SeqView(z3.If(n < 0, 0, n), lambda i: IVal(i), INT)
    elif len(args) == 2:
        lo, hi = as_int(args[0]), as_int(args[1])
        yield s, SeqView(z3.If(hi < lo, 0, hi - lo), lambda i: IVal(i + lo), INT)
    else:
        raise Unsupported("range with step")


def b_reversed(ex, args, kwargs, s):
    view = ex.iter_view(args[0], s)
    yield s, SeqView(view.len, lambda i: view.at(view.len - 1 - i), view.elem_ty, view.facts)


def b_sorted(ex, args, kwargs, s):
    """sorted(x): a permutation of x (order unspecified unless contracts assume more)."""
    if isinstance(args[0], ZipView):
        # sorted(zip(a, b, ...)): a fresh list of as many (untyped) tuples; their order and content are not modelled
        zv = args[0]
        r = alloc(s, "sortedzip", SEQ(ANY))
        s.assume(smt.is_list(r.t))
        s.heap = s.heap.with_comp("sl", z3.Store(s.heap.c["sl"], r.t, zv.len)).with_comp("sa", z3.Store(s.heap.c["sa"], r.t, z3.Const(smt.fresh_name("sz_arr"), smt.IV)))
        ex.assumptions.add("sorted(zip(...)): length kept, order and content of the pairs not modelled")
        yield s, r
        return
    view = ex.iter_view(args[0], s)
    s.assume(*view.facts)
    r = alloc(s, "sorted", SEQ(view.elem_ty))
    s.assume(smt.is_list(r.t))
    perm = z3.Function(smt.fresh_name("perm"), z3.IntSort(), z3.IntSort())
    inv = z3.Function(smt.fresh_name("perm_inv"), z3.IntSort(), z3.IntSort())
    j = z3.Int(smt.fresh_name("pj"))
    arr = z3.Lambda([j], to_v(view.at(perm(j)), s))
    s.heap = s.heap.with_comp("sl", z3.Store(s.heap.c["sl"], r.t, view.len)).with_comp("sa", z3.Store(s.heap.c["sa"], r.t, arr))
    s.assume(smt.forall([j], z3.Implies(z3.And(0 <= j, j < view.len), z3.And(0 <= perm(j), perm(j) < view.len, inv(perm(j)) == j)), patterns=[perm(j)]),
             smt.forall([j], z3.Implies(z3.And(0 <= j, j < view.len), z3.And(0 <= inv(j), inv(j) < view.len, perm(inv(j)) == j)), patterns=[inv(j)]))
    yield s, r


def b_all_any(kind):
    def f(ex, args, kwargs, s):
        view = ex.iter_view(args[0], s)
        s.assume(*view.facts)
        j = z3.Int(smt.fresh_name("aj"))
        body = truth(view.at(j), s)
        g = z3.And(0 <= j, j < view.len)
        yield s, BVal(z3.ForAll([j], z3.Implies(g, body)) if kind == "all" else z3.Exists([j], z3.And(g, body)))
    return f


def b_opaque(name, ty=ANY, raises=()):
    def f(ex, args, kwargs, s):
        v = Val(smt.fresh_v(name), ty)
        s.assume(*type_facts(v, s))
        yield s, v
    return f


def b_type(ex, args, kwargs, s):
    f = z3.Function("type_of", V, V)
    yield s, Val(f(to_v(args[0], s)), ANY)


def b_id(ex, args, kwargs, s):
    yield s, Val(to_v(args[0], s), ANY)


def b_print(ex, args, kwargs, s):
    yield s, Val(smt.NONE, NONE_T)


def b_int(ex, args, kwargs, s):
    yield s, IVal(as_int(args[0]))


def b_iter(ex, args, kwargs, s):
    yield s, args[0]


def b_next(ex, args, kwargs, s):
    view = ex.iter_view(args[0], s)
    s.assume(*view.facts)
    empty = s.fork().assume(view.len == 0)
    if ex.feasible(empty):
        if len(args) > 1:
            yield empty, args[1]
        else:
            yield empty, Raised("StopIteration")
    s.assume(view.len > 0)
    yield s, view.at(z3.IntVal(0))


BUILTINS = {
    "len": b_len, "bool": b_bool, "isinstance": b_isinstance, "getattr": b_getattr, "hasattr": b_hasattr, "set": b_set, "frozenset": b_set,
    "list": b_list, "tuple": b_tuple, "dict": b_dict, "zip": b_zip, "enumerate": b_enumerate, "range": b_range, "reversed": b_reversed,
    "sorted": b_sorted, "all": b_all_any("all"), "any": b_all_any("any"), "repr": b_opaque("repr", STR), "str": b_opaque("str", STR),
    "type": b_type, "id": b_id, "print": b_print, "int": b_int, "iter": b_iter, "next": b_next,
}


# ------------------------------------------------------------------------- container methods
def call_method_val(ex, recv, name, args, kwargs, s: St):
    if isinstance(recv, TupVal):
        raise Unsupported(f"method {name} on tuple literal")
    ty = strip_opt(recv.ty)
    k = ty[0]
    if k == "dict" or (k == "any" and name in ("get", "items", "keys", "values", "setdefault", "pop") and ex.model.any_is_dict(recv)):
        yield from dict_method(ex, recv, name, args, kwargs, s)
        return
    if k == "set":
        yield from set_method(ex, recv, name, args, kwargs, s)
        return
    if k == "seq":
        yield from seq_method(ex, recv, name, args, kwargs, s)
        return
    if k == "str":
        yield from str_method(ex, recv, name, args, kwargs, s)
        return
    if k == "obj":
        yield from ex.call_method(recv, name, args, kwargs, s)
        return
    if k == "any" and name in ("append", "extend"):
        # list mutation on an untyped value (e.g. the list stored in a locally built dict): modelled as a list
        yield from seq_method(ex, Val(recv.t, SEQ(ANY)), name, args, kwargs, s)
        return
    if k in ("any", "exc"):
        # dynamic dispatch on an untyped value: opaque method (pure by default) per the model
        yield from ex.call_any_method(recv, name, args, kwargs, s)
        return
    raise Unsupported(f"method {name} on {ty}")


def dict_method(ex, d: Val, name, args, kwargs, s: St):
    h = s.heap
    ty = strip_opt(d.ty)
    kty, vty = (ty[1], ty[2]) if ty[0] == "dict" else (ANY, ANY)
    if name == "get":
        k = to_v(args[0], s)
        dflt = args[1] if len(args) > 1 else kwargs.get("default", Val(smt.NONE, NONE_T))
        has = h.c["dh"][d.t][k]
        got = ex.typed_read(h.c["dv"][d.t][k], vty, s)
        res = ex.merge(has, got, dflt, s)
        if isinstance(res, Val) and isinstance(dflt, Val) and dflt.ty == NONE_T and vty != ANY:
            res = Val(res.t, OPT(vty))
        yield s, res
    elif name in ("keys", "__iter__"):
        yield s, Val(d.t, ("dict", kty, vty))
    elif name == "values":
        kv = seq_view(d, s)
        yield s, SeqView(kv.len, lambda i: ex.typed_read(h.c["dv"][d.t][to_v(kv.at(i), s)], vty, s), vty, kv.facts, keys=kv)
    elif name == "items":
        kv = seq_view(d, s)
        yield s, SeqView(kv.len, lambda i: TupVal([kv.at(i), ex.typed_read(h.c["dv"][d.t][to_v(kv.at(i), s)], vty, s)]), ANY, kv.facts, keys=kv)
    elif name == "setdefault":
        k = to_v(args[0], s)
        has = h.c["dh"][d.t][k]
        dflt = args[1] if len(args) > 1 else Val(smt.NONE, NONE_T)
        s_has = s.fork().assume(has)
        s_new = s.fork().assume(z3.Not(has))
        if ex.feasible(s_has):
            yield s_has, ex.typed_read(h.c["dv"][d.t][k], vty, s_has)
        if ex.feasible(s_new):
            dict_store(s_new, d.t, k, to_v(dflt, s_new))
            ex.note_write(s_new, "dict", d)
            yield s_new, dflt
    elif name == "pop":
        k = to_v(args[0], s)
        has = h.c["dh"][d.t][k]
        s_has = s.fork().assume(has)
        s_no = s.fork().assume(z3.Not(has))
        if ex.feasible(s_has):
            v = ex.typed_read(h.c["dv"][d.t][k], vty, s_has)
            dict_del(s_has, d.t, k)
            ex.note_write(s_has, "dict", d)
            yield s_has, v
        if ex.feasible(s_no):
            if len(args) > 1:
                yield s_no, args[1]
            else:
                yield s_no, Raised("KeyError", None, {"key": k})
    elif name == "update":
        for a in args:
            ex.dict_update(s, d, a)
        for k, v in kwargs.items():
            dict_store(s, d.t, smt.str_const(k), to_v(v, s))
        ex.note_write(s, "dict", d)
        yield s, Val(smt.NONE, NONE_T)
    elif name == "copy":
        r = alloc_dict(s, kty, vty)
        copy_container(s, "d", d.t, r.t)
        yield s, r
    elif name == "move_to_end":
        yield s, Val(smt.NONE, NONE_T)  # order component not modelled for plain dicts
    elif name == "popitem":
        # insertion order is not modelled: SOME present key is removed (an over-approximation of both ends); empty -> KeyError
        n = h.c["dn"][d.t]
        s_empty = s.fork().assume(n == 0)
        s_some = s.fork().assume(n > 0)
        if ex.feasible(s_empty):
            yield s_empty, Raised("KeyError", None, {"by": "popitem"})
        if ex.feasible(s_some):
            k = smt.fresh_v("popped")
            s_some.assume(h.c["dh"][d.t][k])
            kv_ = Val(k, kty)
            s_some.assume(*type_facts(kv_, s_some))
            v = ex.typed_read(h.c["dv"][d.t][k], vty, s_some)
            dict_del(s_some, d.t, k)
            ex.note_write(s_some, "dict", d)
            yield s_some, TupVal([kv_, v])
    else:
        raise Unsupported(f"dict.{name}")


def set_method(ex, r: Val, name, args, kwargs, s: St):
    h = s.heap
    if name == "add":
        set_add(s, r.t, to_v(args[0], s))
        ex.note_write(s, "set", r)
        yield s, Val(smt.NONE, NONE_T)
    elif name == "discard":
        k = to_v(args[0], s)
        had = h.c["sh"][r.t][k]
        n = h.c["sn"][r.t]
        s.heap = h.with_comp("sh", z3.Store(h.c["sh"], r.t, z3.Store(h.c["sh"][r.t], k, z3.BoolVal(False)))).with_comp("sn", z3.Store(h.c["sn"], r.t, z3.If(had, n - 1, n)))
        ex.note_write(s, "set", r)
        yield s, Val(smt.NONE, NONE_T)
    elif name == "update":
        for a in args:
            view = ex.iter_view(a, s)
            s.assume(*view.facts)
            k = z3.Const(smt.fresh_name("uk"), V)
            j = z3.Int(smt.fresh_name("uj"))
            hh = s.heap
            member = z3.Lambda([k], z3.Or(hh.c["sh"][r.t][k], z3.Exists([j], z3.And(0 <= j, j < view.len, to_v(view.at(j), s) == k))))
            n = smt.fresh_int("un")
            s.heap = hh.with_comp("sh", z3.Store(hh.c["sh"], r.t, member)).with_comp("sn", z3.Store(hh.c["sn"], r.t, n))
            s.assume(*smt.heap_wellformed_ref(s.heap, r.t, "s"))
        ex.note_write(s, "set", r)
        yield s, Val(smt.NONE, NONE_T)
    elif name == "issubset":
        o = args[0]
        k = z3.Const(smt.fresh_name("ik"), V)
        yield s, BVal(z3.ForAll([k], z3.Implies(h.c["sh"][r.t][k], contains(o, Val(k, r.ty[1]), s))))
    elif name == "copy":
        c = alloc_set(s, r.ty[1])
        copy_container(s, "s", r.t, c.t)
        yield s, c
    else:
        raise Unsupported(f"set.{name}")


def seq_method(ex, r: Val, name, args, kwargs, s: St):
    h = s.heap
    if name == "append":
        seq_append(s, r.t, to_v(args[0], s))
        ex.note_write(s, "seq", r)
        yield s, Val(smt.NONE, NONE_T)
    elif name == "extend":
        view = ex.iter_view(args[0], s)
        s.assume(*view.facts)
        n = h.c["sl"][r.t]
        j = z3.Int(smt.fresh_name("xj"))
        arr = z3.Lambda([j], z3.If(j < n, h.c["sa"][r.t][j], to_v(view.at(j - n), s)))
        s.heap = h.with_comp("sl", z3.Store(h.c["sl"], r.t, n + view.len)).with_comp("sa", z3.Store(h.c["sa"], r.t, arr))
        ex.note_write(s, "seq", r)
        yield s, Val(smt.NONE, NONE_T)
    elif name == "pop" and not args:
        n = h.c["sl"][r.t]
        s_bad = s.fork().assume(n == 0)
        if ex.feasible(s_bad):
            yield s_bad, Raised("IndexError")
        s.assume(n > 0)
        v = ex.typed_read(h.c["sa"][r.t][n - 1], r.ty[1], s)
        s.heap = h.with_comp("sl", z3.Store(h.c["sl"], r.t, n - 1))
        ex.note_write(s, "seq", r)
        yield s, v
    elif name == "index":
        raise Unsupported("list.index")
    elif name == "copy":
        c = alloc(s, "lcopy", r.ty)
        copy_container(s, "q", r.t, c.t)
        yield s, c
    else:
        raise Unsupported(f"seq.{name}")


def str_method(ex, r: Val, name, args, kwargs, s: St):
    if name in ("join", "format", "lower", "upper", "strip", "replace"):
        yield s, Val(smt.fresh_v("str"), STR)
    elif name == "encode":
        yield s, Val(smt.meth_func("encode", 0)(r.t), ANY)
    elif name == "startswith":
        f = z3.Function("str_startswith", V, V, z3.BoolSort())
        yield s, BVal(f(r.t, to_v(args[0], s)))
    elif name == "isidentifier":
        yield s, BVal(z3.Function("str_isidentifier", V, z3.BoolSort())(r.t))
    elif name == "split":
        f = smt.meth_func("split", 1)
        v = Val(f(r.t, to_v(args[0], s)), SEQ(STR))
        s.assume(*type_facts(v, s), s.heap.c["sl"][v.t] >= 1)
        yield s, v
    else:
        raise Unsupported(f"str.{name}")
