"""pyvc symbolic executor: forward symbolic execution of real function ASTs with path enumeration.

Part 1: state, lifting of real Python objects, primitive operations on symbolic values.
The executor proper (expressions, statements, loops, calls) is in exec.py.
"""
from __future__ import annotations

import enum
import itertools
import z3

from . import smt
from .smt import V, Heap
from .values import (ANY, STR, INT, BOOL, NONE_T, EXC, SEQ, DICT, SET, OBJ, OPT, FIXTUP, Val, BVal, IVal, TupVal, PyVal,
                     SeqView, BoundMethod, Raised, Unsupported, strip_opt)


class St:
    """One symbolic path: path condition, locals, heap, ghost trace."""

    __slots__ = ("pc", "env", "heap", "trace", "fresh", "notes")

    def __init__(self, pc=None, env=None, heap=None, trace=None, fresh=None, notes=None):
        self.pc = pc if pc is not None else []
        self.env = env if env is not None else {}
        self.heap = heap
        self.trace = trace if trace is not None else []
        self.fresh = fresh if fresh is not None else []
        self.notes = notes if notes is not None else []

    def fork(self):
        return St(list(self.pc), dict(self.env), self.heap, list(self.trace), list(self.fresh), list(self.notes))

    def assume(self, *facts):
        for f in facts:
            if f is None:
                continue
            if isinstance(f, bool):
                f = z3.BoolVal(f)
            if z3.is_true(f):
                continue
            self.pc.append(f)
        return self


class Registry:
    """Real classes seen so far (for isinstance / except matching) — read from the imported repo."""

    def __init__(self):
        self.classes: dict[str, type] = {}

    def add(self, cls: type):
        if isinstance(cls, type):
            self.classes.setdefault(cls.__name__, cls)
        return cls

    def get(self, name):
        return self.classes.get(name)

    def issub(self, a: str, b: str) -> bool:
        import builtins
        ca = self.classes.get(a) or getattr(builtins, a, None)
        cb = self.classes.get(b) or getattr(builtins, b, None)
        if ca is None or cb is None:
            return a == b
        return issubclass(ca, cb)

    def axioms(self):
        """MRO implications and exclusions between the class predicates in use."""
        ax = []
        v = z3.Const("cls_v", V)
        names = [n for n in self.classes if n in smt._inst_preds]
        kinds = [smt.is_str, smt.is_int, smt.is_bool, smt.is_list, smt.is_tuple, smt.is_dict, smt.is_set, smt.is_sentinel]
        for n in names:
            p = smt.inst_pred(n)
            c = self.classes[n]
            body = [v != smt.NONE]
            if not issubclass(c, BaseException):
                body += [z3.Not(k(v)) for k in kinds]
            if not (hasattr(c, "__bool__") or hasattr(c, "__len__")):
                body.append(smt.truthy(v))
            ax.append(smt.forall([v], z3.Implies(p(v), z3.And(*body)), patterns=[p(v)]))
        for a, b in itertools.permutations(names, 2):
            ca, cb = self.classes[a], self.classes[b]
            if issubclass(ca, cb):
                ax.append(smt.forall([v], z3.Implies(smt.inst_pred(a)(v), smt.inst_pred(b)(v)), patterns=[smt.inst_pred(a)(v)]))
        for a, b in itertools.combinations(names, 2):
            ca, cb = self.classes[a], self.classes[b]
            if issubclass(ca, cb) or issubclass(cb, ca):
                continue
            # disjoint unless some known class derives from both
            if any(issubclass(c, ca) and issubclass(c, cb) for c in self.classes.values()):
                continue
            pa, pb = smt.inst_pred(a), smt.inst_pred(b)
            ax.append(smt.forall([v], z3.Not(z3.And(pa(v), pb(v))), patterns=[z3.MultiPattern(pa(v), pb(v))]))
        return ax


REG = Registry()


# ---- primitive operations -----------------------------------------------------------------

def to_v(val, st: St | None = None):
    """Box any value into a V term."""
    if isinstance(val, Val):
        return val.t
    if isinstance(val, IVal):
        return smt.mkint(val.i)
    if isinstance(val, BVal):
        return z3.If(val.b, smt.TRUE, smt.FALSE)
    if isinstance(val, PyVal):
        return lift_sentinel(val.obj, val.name)
    if isinstance(val, TupVal):
        if st is None:
            raise Unsupported("tuple boxing without state")
        return alloc_seq(st, [to_v(x, st) for x in val.items], kind="tuple").t
    if isinstance(val, BoundMethod):
        raise Unsupported("bound method used as a value")
    raise Unsupported(f"cannot box {val!r}")


def lift_sentinel(obj, name=""):
    if isinstance(obj, type):
        REG.add(obj)
        return smt.sentinel(f"class:{obj.__module__}.{obj.__qualname__}")
    if isinstance(obj, enum.Enum):
        return smt.sentinel(f"enum:{type(obj).__name__}.{obj.name}")
    return smt.sentinel(f"obj:{name}")


def lift(obj, name=""):
    """Turn a real Python object (module global, literal) into a symbolic value."""
    if obj is None:
        return Val(smt.NONE, NONE_T)
    if isinstance(obj, bool):
        return BVal(obj)
    if isinstance(obj, int):
        return IVal(obj)
    if isinstance(obj, str):
        return Val(smt.str_const(obj), STR)
    if isinstance(obj, tuple) and all(isinstance(x, (str, int, bool, type(None))) or isinstance(x, type) for x in obj):
        return TupVal([lift(x) for x in obj])
    if isinstance(obj, float):
        return Val(smt.sentinel(f"float:{obj}"), ANY)
    if isinstance(obj, enum.Enum):
        return Val(lift_sentinel(obj), ANY)
    if isinstance(obj, type) or callable(obj) or type(obj).__name__ == "module":
        if isinstance(obj, type):
            REG.add(obj)
        return PyVal(obj, name)
    # module-level singleton (object() sentinels etc.)
    return Val(smt.sentinel(f"obj:{name}"), ANY)


def truth(val, st: St):
    """Python truthiness as a z3 Bool."""
    if isinstance(val, BVal):
        return val.b
    if isinstance(val, IVal):
        return val.i != 0
    if isinstance(val, TupVal):
        return z3.BoolVal(len(val.items) > 0)
    if isinstance(val, PyVal):
        return z3.BoolVal(True)
    if isinstance(val, Val):
        ty = val.ty
        k = ty[0]
        if k == "none":
            return z3.BoolVal(False)
        if k == "opt":
            return z3.And(val.t != smt.NONE, truth(Val(val.t, ty[1]), st))
        if k == "bool":
            return val.t == smt.TRUE
        if k == "int":
            return smt.ival(val.t) != 0
        if k == "seq":
            return st.heap.c["sl"][val.t] > 0
        if k == "dict":
            return st.heap.c["dn"][val.t] > 0
        if k == "set":
            return st.heap.c["sn"][val.t] > 0
        if k in ("obj", "exc"):
            return z3.BoolVal(True)
        if k == "str":
            return smt.truthy(val.t)
        t = val.t
        return z3.If(smt.is_list(t), st.heap.c["sl"][t] > 0,
                     z3.If(smt.is_tuple(t), st.heap.c["sl"][t] > 0,
                           z3.If(smt.is_dict(t), st.heap.c["dn"][t] > 0,
                                 z3.If(smt.is_set(t), st.heap.c["sn"][t] > 0,
                                       z3.If(smt.is_int(t), smt.ival(t) != 0, smt.truthy(t))))))
    raise Unsupported(f"truth of {val!r}")


def as_int(val):
    if isinstance(val, IVal):
        return val.i
    if isinstance(val, BVal):
        return z3.If(val.b, 1, 0)
    if isinstance(val, Val):
        return smt.ival(val.t)
    raise Unsupported(f"as_int {val!r}")


_SIMPLE_TYS = {"str", "none", "bool", "int"}


def eq(a, b, st: St):
    """Python == as z3 Bool."""
    if isinstance(a, IVal) or isinstance(b, IVal):
        if isinstance(a, (IVal, BVal)) and isinstance(b, (IVal, BVal)):
            return as_int(a) == as_int(b)
        other = b if isinstance(a, IVal) else a
        me = a if isinstance(a, IVal) else b
        if isinstance(other, Val):
            if other.ty[0] == "int":
                return smt.ival(other.t) == me.i
            return z3.And(smt.is_int(other.t), smt.ival(other.t) == me.i)
        return z3.BoolVal(False)
    if isinstance(a, BVal) and isinstance(b, BVal):
        return a.b == b.b
    if isinstance(a, TupVal) and isinstance(b, TupVal):
        if len(a.items) != len(b.items):
            return z3.BoolVal(False)
        return z3.And(*[eq(x, y, st) for x, y in zip(a.items, b.items)]) if a.items else z3.BoolVal(True)
    if isinstance(a, TupVal) or isinstance(b, TupVal):
        tv, other = (a, b) if isinstance(a, TupVal) else (b, a)
        if isinstance(other, Val):
            o = other.t
            conj = [st.heap.c["sl"][o] == len(tv.items)]
            if other.ty[0] != "seq":
                conj.append(z3.Or(smt.is_tuple(o), smt.is_list(o)))
            for j, it in enumerate(tv.items):
                conj.append(eq(it, Val(st.heap.c["sa"][o][j], ANY), st))
            return z3.And(*conj)
        return z3.BoolVal(False)
    ta, tb = to_v(a, st), to_v(b, st)
    ka = a.ty[0] if isinstance(a, Val) else "sentinel"
    kb = b.ty[0] if isinstance(b, Val) else "sentinel"
    if isinstance(a, BVal):
        ka = "bool"
    if isinstance(b, BVal):
        kb = "bool"
    if ka in _SIMPLE_TYS or kb in _SIMPLE_TYS or ka == "sentinel" or kb == "sentinel":
        return ta == tb
    if ka == "obj" and kb == "obj":
        return ta == tb  # repo domain objects compare by identity (no __eq__ on nodes/graphs assumed)
    if ka == "seq" and kb == "seq":
        return seq_eq(a, b, st)
    return z3.If(z3.Or(smt.simple(ta), smt.simple(tb)), ta == tb, z3.Or(ta == tb, smt.ueq(ta, tb)))


def seq_eq(a: Val, b: Val, st: St):
    h = st.heap
    j = z3.Int(smt.push_binder("sq"))
    try:
        ea = Val(h.c["sa"][a.t][j], a.ty[1])
        eb = Val(h.c["sa"][b.t][j], b.ty[1])
        return z3.And(h.c["sl"][a.t] == h.c["sl"][b.t],
                      z3.ForAll([j], z3.Implies(z3.And(0 <= j, j < h.c["sl"][a.t]), eq(ea, eb, st))))
    finally:
        smt.pop_binder()


def identical(a, b, st: St):
    if isinstance(a, (IVal, BVal)) and isinstance(b, (IVal, BVal)):
        return eq(a, b, st)
    if isinstance(a, TupVal) or isinstance(b, TupVal):
        if a is b:
            return z3.BoolVal(True)
        t, o = (a, b) if isinstance(a, TupVal) else (b, a)
        if t.items and isinstance(o, (Val, IVal, BVal)):
            # a non-empty tuple display evaluated in this function is a new object: identical to no value that was
            # obtained otherwise (CPython shares only the empty tuple)
            return z3.BoolVal(False)
        raise Unsupported("`is` on tuple literal")
    return to_v(a, st) == to_v(b, st)


def alloc(st: St, prefix: str, ty):
    """Allocate a fresh reference, distinct from everything allocated before."""
    r = smt.fresh_v(prefix)
    ev = smt.tick(r.decl().name())
    st.assume(z3.Not(smt.Alloc0(r)), r != smt.NONE, smt.SkFam(r) == 0, smt.Birth(r) == ev)
    for o in st.fresh:
        st.assume(r != o)
    st.fresh.append(r)
    return Val(r, ty)


def alloc_seq(st: St, items, kind="list", elem_ty=ANY):
    v = alloc(st, kind, SEQ(elem_ty))
    arr = z3.Const(smt.fresh_name("seq0"), smt.IV)
    for j, t in enumerate(items):
        arr = z3.Store(arr, j, t)
    h = st.heap
    h = h.with_comp("sl", z3.Store(h.c["sl"], v.t, z3.IntVal(len(items))))
    h = h.with_comp("sa", z3.Store(h.c["sa"], v.t, arr))
    st.heap = h
    st.assume(smt.is_list(v.t) if kind == "list" else smt.is_tuple(v.t))
    return v


def alloc_dict(st: St, kty=STR, vty=ANY):
    v = alloc(st, "dict", DICT(kty, vty))
    h = st.heap
    h = h.with_comp("dh", z3.Store(h.c["dh"], v.t, z3.K(V, z3.BoolVal(False))))
    h = h.with_comp("dn", z3.Store(h.c["dn"], v.t, z3.IntVal(0)))
    st.heap = h
    st.assume(smt.is_dict(v.t))
    return v


def alloc_set(st: St, ety=STR):
    v = alloc(st, "set", SET(ety))
    h = st.heap
    h = h.with_comp("sh", z3.Store(h.c["sh"], v.t, z3.K(V, z3.BoolVal(False))))
    h = h.with_comp("sn", z3.Store(h.c["sn"], v.t, z3.IntVal(0)))
    st.heap = h
    st.assume(smt.is_set(v.t))
    return v


def dict_has(st: St, d, k):
    return st.heap.c["dh"][d][k]


def dict_get(st: St, d, k):
    return st.heap.c["dv"][d][k]


def dict_store(st: St, d, k, v):
    h = st.heap
    had = h.c["dh"][d][k]
    n = h.c["dn"][d]
    h2 = h.with_comp("dh", z3.Store(h.c["dh"], d, z3.Store(h.c["dh"][d], k, z3.BoolVal(True))))
    h2 = h2.with_comp("dv", z3.Store(h.c["dv"], d, z3.Store(h.c["dv"][d], k, v)))
    h2 = h2.with_comp("dn", z3.Store(h.c["dn"], d, z3.If(had, n, n + 1)))
    st.heap = h2


def dict_del(st: St, d, k):
    h = st.heap
    n = h.c["dn"][d]
    h2 = h.with_comp("dh", z3.Store(h.c["dh"], d, z3.Store(h.c["dh"][d], k, z3.BoolVal(False))))
    h2 = h2.with_comp("dn", z3.Store(h.c["dn"], d, n - 1))
    st.heap = h2


def set_add(st: St, s, k):
    h = st.heap
    had = h.c["sh"][s][k]
    n = h.c["sn"][s]
    h2 = h.with_comp("sh", z3.Store(h.c["sh"], s, z3.Store(h.c["sh"][s], k, z3.BoolVal(True))))
    h2 = h2.with_comp("sn", z3.Store(h.c["sn"], s, z3.If(had, n, n + 1)))
    st.heap = h2


def seq_append(st: St, s, v):
    h = st.heap
    n = h.c["sl"][s]
    h2 = h.with_comp("sa", z3.Store(h.c["sa"], s, z3.Store(h.c["sa"][s], n, v)))
    h2 = h2.with_comp("sl", z3.Store(h.c["sl"], s, n + 1))
    st.heap = h2


def wrap_elem(t, ty):
    """Wrap a V term read from a container according to the element type."""
    return Val(t, ty)


_VIEW_CACHE: dict = {}
NOTES: set = set()


VIEW_NORMALIZER = [None]  # set by the VC generator: (term, state) -> heap-read-normalised term


def seq_view(val, st: St) -> SeqView:
    """(len, at) view of an iterable value; facts must be assumed by the caller."""
    h = st.heap
    if isinstance(val, TupVal):
        items = val.items

        def at(i, items=items):
            # only used with concrete small tuples: build an If chain over boxed values
            t = to_v(items[-1], st) if items else smt.NONE
            for j in range(len(items) - 2, -1, -1):
                t = z3.If(i == j, to_v(items[j], st), t)
            return Val(t, ANY)

        return SeqView(z3.IntVal(len(items)), at, ANY)
    if isinstance(val, SeqView):
        return val
    if not isinstance(val, Val):
        raise Unsupported(f"iteration over {val!r}")
    ty = strip_opt(val.ty)
    k = ty[0]
    r = val.t
    if k == "seq":
        return SeqView(h.c["sl"][r], lambda i: Val(h.c["sa"][r][i], ty[1]), ty[1])
    if k == "any":
        # an untyped value that the code iterates / zips / takes len() of: modelled as a sequence (assumption, listed)
        NOTES.add("iteration over an untyped value: modelled as a list/tuple")
        return SeqView(h.c["sl"][r], lambda i: Val(h.c["sa"][r][i], ANY), ANY)
    if k in ("dict", "set"):
        # some enumeration of the keys/elements without repetition (any order: proved for all orders)
        comp = "dh" if k == "dict" else "sh"
        size = h.c["dn"][r] if k == "dict" else h.c["sn"][r]
        ety = ty[1]
        # one enumeration per (membership, size) of the container AS READ THROUGH the heap: stores / havocs of other,
        # provably distinct references do not start a new enumeration (reads normalised by the heap rewriter)
        mem_n, size_n = h.c[comp][r], size
        if VIEW_NORMALIZER[0] is not None:
            mem_n, size_n = VIEW_NORMALIZER[0](mem_n, st), VIEW_NORMALIZER[0](size_n, st)
        ckey = (r.get_id(), mem_n.get_id(), size_n.get_id())
        if ckey not in _VIEW_CACHE:
            _VIEW_CACHE[ckey] = (z3.Function(smt.fresh_name("enum"), z3.IntSort(), V), z3.Function(smt.fresh_name("enum_idx"), V, z3.IntSort()), r, mem_n, size_n)
        enum_f, idx_f = _VIEW_CACHE[ckey][:2]
        i = z3.Int("ei")
        kx = z3.Const("ek", V)
        facts = [
            # enum is injective on ALL integers (consistent: V is infinite); unconditional inverse closes E-matching chains
            smt.forall([i], idx_f(enum_f(i)) == i, patterns=[enum_f(i)]),
            smt.forall([i], z3.Implies(z3.And(0 <= i, i < size), h.c[comp][r][enum_f(i)]), patterns=[enum_f(i)]),
            smt.forall([kx], z3.Implies(h.c[comp][r][kx], z3.And(0 <= idx_f(kx), idx_f(kx) < size, enum_f(idx_f(kx)) == kx)), patterns=[h.c[comp][r][kx]]),
            size >= 0,
        ]
        return SeqView(size, lambda i: Val(enum_f(i), ety), ety, facts, index_of=idx_f)
    raise Unsupported(f"iteration over value of type {ty}")


def contains(container, item, st: St):
    """`item in container` as z3 Bool."""
    h = st.heap
    if isinstance(container, TupVal):
        if not container.items:
            return z3.BoolVal(False)
        return z3.Or(*[eq(x, item, st) for x in container.items])
    if isinstance(container, SeqView) and container.index_of is not None:
        t = to_v(item, st)
        ix = container.index_of(t)
        return z3.And(0 <= ix, ix < container.len, to_v(container.at(ix), st) == t)
    if isinstance(container, SeqView):
        j = z3.Int(smt.push_binder("cj"))
        try:
            return z3.Exists([j], z3.And(0 <= j, j < container.len, eq(container.at(j), item, st)))
        finally:
            smt.pop_binder()
    if not isinstance(container, Val):
        raise Unsupported(f"`in` on {container!r}")
    ty = strip_opt(container.ty)
    k = ty[0]
    r = container.t
    if k == "dict":
        return h.c["dh"][r][to_v(item, st)]
    if k == "set":
        return h.c["sh"][r][to_v(item, st)]
    if k == "seq":
        j = z3.Int(smt.push_binder("cj"))
        try:
            return z3.Exists([j], z3.And(0 <= j, j < h.c["sl"][r], eq(Val(h.c["sa"][r][j], ty[1]), item, st)))
        finally:
            smt.pop_binder()
    if k == "str":
        # substring test: uninterpreted (string structure is not modelled)
        return z3.Function("str_contains", V, V, z3.BoolSort())(r, to_v(item, st))
    if k == "any":
        it = to_v(item, st)
        j = z3.Int(smt.push_binder("cj"))
        try:
            in_seq = z3.Exists([j], z3.And(0 <= j, j < h.c["sl"][r], eq(Val(h.c["sa"][r][j], ANY), item, st)))
        finally:
            smt.pop_binder()
        return z3.If(smt.is_dict(r), h.c["dh"][r][it], z3.If(smt.is_set(r), h.c["sh"][r][it], in_seq))
    raise Unsupported(f"`in` on type {ty}")


KEY_TYPE_FACTS = [True]


def type_facts(val, st: St | None = None):
    """Dynamic tag facts implied by the static type of a Val (assumed for parameters / typed reads)."""
    if not isinstance(val, Val):
        return []
    k = val.ty[0]
    t = val.t
    if k == "str":
        return [smt.is_str(t)]
    if k == "int":
        return [smt.is_int(t)]
    if k == "bool":
        return [smt.is_bool(t)]
    if k == "none":
        return [t == smt.NONE]
    if k == "seq":
        return [z3.Or(smt.is_list(t), smt.is_tuple(t))]
    if k == "dict":
        if st is not None and val.ty[1] == STR and KEY_TYPE_FACTS[0]:
            # static key type str: the keys present in the current heap are strings (type invariant of the declaration)
            kk = z3.Const("tk", V)
            mem = st.heap.c["dh"][t][kk]
            return [smt.is_dict(t), smt.forall([kk], z3.Implies(mem, smt.is_str(kk)), patterns=[mem])]
        if st is not None and val.ty[1] == INT and KEY_TYPE_FACTS[0]:
            kk = z3.Const("tk", V)
            mem = st.heap.c["dh"][t][kk]
            return [smt.is_dict(t), smt.forall([kk], z3.Implies(mem, smt.is_int(kk)), patterns=[mem])]
        return [smt.is_dict(t)]
    if k == "set":
        return [smt.is_set(t)]
    if k == "obj":
        cls = REG.get(val.ty[1])
        if cls is not None:
            return [smt.inst_pred(val.ty[1])(t)]
        return [t != smt.NONE]
    if k == "exc":
        return [smt.is_exc(t)]
    return []
