"""/verif/check <ID> [--tier quick|thorough] : decide one property on the current /repo working tree.

exit 0 held (KNOWN-FINDING lines for listed findings) | 1 VIOLATION | 2 undecided | 3 checker crash / engine guard failed
"""
from __future__ import annotations

import argparse
import hashlib
import json
import os
import subprocess
import sys
import time

VERIF = os.path.dirname(os.path.dirname(os.path.abspath(__file__)))
REPO = os.environ.get("VERIF_REPO", "/repo")
OUT = os.environ.get("VERIF_OUT", VERIF)  # where evidence/ and work/ are written (the self-test matrix uses a scratch dir)
PROOF_KINDS = {"post", "raise", "noraise", "callee-pre", "frame", "inv-init", "inv-pres", "loop-frame", "lemma"}
AUX_KINDS = {"inv-init", "inv-pres", "loop-frame"}
CLAUSE_KINDS = {"post", "raise", "noraise", "callee-pre", "frame", "lemma"}


def load_json(path, default):
    try:
        with open(path) as f:
            return json.load(f)
    except FileNotFoundError:
        return default


def clause_status(fn_result):
    """clause text -> 'proved' iff every obligation generated for it is proved (clause obligations only)."""
    out = {}
    for ob in fn_result.get("obligations", []):
        if ob["kind"] not in CLAUSE_KINDS:
            continue
        key = f"{ob['kind']}::{ob['clause']}"
        ok = ob["status"] == "proved"
        out[key] = out.get(key, True) and ok
    return {k: ("proved" if v else "unproved") for k, v in out.items()}


def backend_counts(results):
    """discharged obligations per solver back end (stage 1 = z3 5.1 in process; later stages = fresh solver processes)."""
    out = {}
    for r in results:
        for o in r.get("obligations", []):
            if o["kind"] in PROOF_KINDS and o["status"] == "proved":
                b = o.get("backend") or "z3"
                b = "z3 5.1 in-process (fast cfg)" if "fast cfg" in b else "z3 5.1 cli (fresh process, seed portfolio)" if "z3 5.1 cli" in b else "z3 4.8.12 cli (fresh process)" if "4.8.12" in b else b
                out[b] = out.get(b, 0) + 1
    return out


def aux_status(fn_result):
    """auxiliary obligations (loop invariants: established / preserved, loop frames): clause text -> proved iff all its obligations are."""
    out = {}
    for ob in fn_result.get("obligations", []):
        if ob["kind"] not in AUX_KINDS:
            continue
        key = f"{ob['kind']}::{ob['clause']}"
        out[key] = out.get(key, True) and ob["status"] == "proved"
    return {k: ("proved" if v else "unproved") for k, v in out.items()}


def _loops_aligned(base_shape, cur_shape, specs=()):
    """Every loop of the current code is, by ordinal, the loop (same kind, same head) the sidecar specification was written for.
    A `for` loop whose specification NAMES the sequence it scans (`over`) stays aligned when only its iterable expression
    changed (same target): the obligation `loopK.over` then decides whether the new iterable is still that sequence."""
    def same(k, c, b):
        if c == b:
            return True
        sp = specs[k] if k < len(specs) and specs[k] else {}
        return bool(sp.get("over")) and c.startswith("For ") and b.startswith("For ") and c.split(" in ", 1)[0] == b.split(" in ", 1)[0]
    return len(cur_shape) <= len(base_shape) and all(same(k, c, b) for k, (c, b) in enumerate(zip(cur_shape, base_shape)))


def main(argv=None):
    ap = argparse.ArgumentParser()
    ap.add_argument("property")
    ap.add_argument("--tier", default=os.environ.get("VERIF_TIER", "quick"))
    ap.add_argument("--update-baseline", action="store_true", help="developer only: record which clauses prove on this tree")
    ap.add_argument("--no-bounded", action="store_true")
    ap.add_argument("--procs", type=int, default=16)
    args = ap.parse_args(argv)
    pid = args.property
    tier = args.tier if args.tier in ("quick", "thorough") else "quick"
    seed = int(os.environ.get("VERIF_SEED", "0") or 0)
    t0 = time.time()
    os.makedirs(os.path.join(OUT, "evidence"), exist_ok=True)
    os.makedirs(os.path.join(OUT, "work", "replay"), exist_ok=True)

    sys.path.insert(0, VERIF)
    sys.path.insert(0, os.path.join(REPO, "src"))
    from pyvc.project import Project, DROPPED
    from pyvc.verify import verify_many

    try:
        proj = Project()
    except Exception as e:  # noqa: BLE001
        print(f"checker crash: cannot load project: {e!r}")
        return 3
    keys = [k for k, c in proj.contracts.items() if pid in c.get("props", [])]
    # thorough tier: the same obligations with 2.5x the per-obligation solver budget and a longer hard limit per function
    results = verify_many(keys, procs=args.procs, per_function_timeout=600 if tier == "thorough" else 240, budget_ms=20000 if tier == "thorough" else 8000)
    static = run_static(proj, pid)

    baseline_path = os.path.join(VERIF, "baseline.json")
    baseline = load_json(baseline_path, {})
    findings = [e for e in load_json(os.path.join(VERIF, "known_findings.json"), {"entries": []})["entries"] if e.get("property") == pid]

    crashes = [r for r in results if r["status"] == "crash"]
    unsound = [r for r in results if r.get("mustfail_guard") == "ENGINE-UNSOUND"]
    n_obl = n_dis = 0
    degraded, suspicious, per_fn = [], [], []
    solver_time = 0.0
    assumptions = set()
    for r in results:
        key = r["key"]
        base = baseline.get(key, {})
        cl = clause_status(r)
        fn = {"function": key, "status": r["status"], "paths": r.get("paths"), "ast_hash": r.get("ast_hash"), "gen_s": r.get("gen_s"), "solve_s": r.get("solve_s"),
              "obligations": len([o for o in r.get("obligations", []) if o["kind"] in PROOF_KINDS]),
              "discharged": len([o for o in r.get("obligations", []) if o["kind"] in PROOF_KINDS and o["status"] == "proved"]),
              "mustfail_guard": r.get("mustfail_guard", "none"), "detail": r.get("detail", "")[:300]}
        per_fn.append(fn)
        n_obl += fn["obligations"]
        n_dis += fn["discharged"]
        solver_time += r.get("solve_s", 0) or 0
        assumptions.update(r.get("assumptions", []))
        if r["status"] in ("timeout", "unsupported"):
            # undecided, never a violation by itself: a construct outside the engine's subset / a hard timeout falls back to the bounded stand-in
            degraded.append({"function": key, "reason": f"{r['status']}: {r.get('detail', '')[:200]} - bounded stand-in only"})
            continue
        if base.get("shape") is not None and r.get("shape") is not None and not _loops_aligned(base["shape"], r["shape"], proj.contracts.get(key, {}).get("loops", ())):
            # the loop statements of the function are not the ones the sidecar loop specifications (keyed by loop ordinal)
            # were written for - a comprehension became a loop, a loop was split, merged or re-headed.  The contract's loop
            # anchors no longer match the code, so whatever fails to prove now is UNDECIDED, not refuted: the bounded stand-in
            # decides.  (Loops that only DISAPPEARED from the end of the list - turned into comprehensions, which the generator
            # encodes exactly - leave every remaining loop with its own specification: the ordinary rules apply.)
            open_now = [k for k, st in list(cl.items()) + list(aux_status(r).items()) if st != "proved"]
            if open_now:
                degraded.append({"function": key, "reason": f"restructured: loop statements {r['shape']} differ from the baseline's {base['shape']}; "
                                 f"the sidecar loop specifications do not apply - bounded stand-in only", "open": open_now[:20]})
            continue
        if r["status"] in ("anchor-missing",):
            was_ok = any(v == "proved" for v in base.get("clauses", {}).values())
            entry = {"function": key, "reason": f"{r['status']}: {r.get('detail', '')[:200]}", "was_proved": was_ok, "code_changed": base.get("ast_hash") not in (None, r.get("ast_hash"))}
            (suspicious if was_ok else degraded).append(entry)
            continue
        for ckey, st in cl.items():
            if st == "proved":
                continue
            # a clause with no obligation at baseline (e.g. "no X escapes" when no path raised X) held vacuously there
            bst = base.get("clauses", {}).get(ckey, "proved" if key in baseline else None)
            obs = [o for o in r["obligations"] if f"{o['kind']}::{o['clause']}" == ckey and o["status"] != "proved"]
            entry = {"function": key, "clause": ckey, "obligations": [o["name"] for o in obs], "solver": [f"{o['status']}: {o['detail'][:200]}" for o in obs][:3],
                     "was_proved": bst == "proved", "code_changed": base.get("ast_hash") not in (None, r.get("ast_hash")),
                     "counterexample_path": next((o.get("trace") for o in obs if o.get("trace")), None), "branch": obs[0].get("path") if obs else None}
            (suspicious if bst == "proved" else degraded).append(entry)
        # auxiliary obligations (loop invariants / loop frames).  The postconditions are proved RELATIVE to them, so an
        # auxiliary obligation that was discharged at baseline and fails now, in a function whose code changed, is the same
        # event as a failed clause: the proof that stood no longer stands ("an obligation that passed on the unchanged tree
        # and now fails").  One never discharged at baseline, or failing in an unchanged function, only degrades.
        for akey, st in aux_status(r).items():
            if st == "proved":
                continue
            obs = [o for o in r["obligations"] if f"{o['kind']}::{o['clause']}" == akey and o["status"] != "proved"]
            was = base.get("aux", {}).get(akey) == "proved"
            changed = base.get("ast_hash") not in (None, r.get("ast_hash"))
            entry = {"function": key, "clause": akey, "obligations": [o["name"] for o in obs], "solver": [f"{o['status']}: {o['detail'][:200]}" for o in obs][:3], "aux": True,
                     "was_proved": was, "code_changed": changed, "branch": obs[0].get("path") if obs else None}
            (suspicious if was and changed else degraded).append(entry)

    if args.update_baseline:
        for r in results:
            if r["status"] == "ok":
                baseline[r["key"]] = {"ast_hash": r.get("ast_hash"), "shape": r.get("shape"), "clauses": clause_status(r), "aux": aux_status(r)}
        with open(baseline_path, "w") as f:
            json.dump(baseline, f, indent=1, sort_keys=True)
        print(f"baseline updated for {len(results)} functions")

    # ---- bounded stand-ins (native, labelled bounded, never counted as proved)
    bounded = {"ran": False}
    if not args.no_bounded:
        bounded = run_bounded(pid, tier, seed, [d["function"] for d in degraded + suspicious])

    violations, known_hits = [], []
    for fail in bounded.get("failures", []):
        kf = match_known(fail, findings)
        if kf is not None:
            known_hits.append((kf, fail))
        else:
            violations.append(("input", fail))
    for sfail in static.get("failures", []):
        kf = match_known(sfail, findings)
        if kf is not None:
            known_hits.append((kf, sfail))
        else:
            violations.append(("static", sfail))
    bounded_fns_failed = {f.get("function") for f in bounded.get("failures", [])}
    confirmed_natively = []
    for s in suspicious:
        if s["function"] in bounded_fns_failed:
            confirmed_natively.append(s)  # the same function's contract already fired with a failing input: reported there
            continue
        if s.get("code_changed"):
            violations.append(("obligation", s))
        else:
            degraded.append(dict(s, note="proved at baseline, not proved now although the function is unchanged: solver instability, treated as bounded-only"))

    # ---- report
    lines = []
    rc = 0
    for i, (kind, v) in enumerate(violations):
        path = os.path.join(OUT, "work", "replay", f"{pid}.{i}.json")
        rec = {"property": pid, "kind": kind, "tree": git_describe(), "cmd": f"/venv/bin/python /verif/replay.py {path}"}
        rec.update(v if isinstance(v, dict) else {"what": str(v)})
        with open(path, "w") as f:
            json.dump(rec, f, indent=1, default=str)
        suffix = "" if kind in ("input", "static") else " no-failing-input-found"
        lines.append(f"VIOLATION property={pid} replay={path}{suffix}")
        rc = 1
    seen_kf = set()
    for kf, fail in known_hits:
        if id(kf) in seen_kf:
            continue
        seen_kf.add(id(kf))
        lines.append(f"KNOWN-FINDING: property={pid} {kf.get('what', '')} [{kf.get('witness', '')}]")
    if crashes or unsound:
        for r in crashes:
            print(f"checker crash in {r['key']}: {r.get('detail', '')[-800:]}")
        for r in unsound:
            print(f"engine guard failed (wrong postcondition proved) for {r['key']}")
        rc = max(rc, 3) if rc != 1 else 1
    if bounded.get("crash"):
        print("bounded harness crash:", bounded["crash"][-1500:])
        rc = 3 if rc == 0 else rc
    if n_obl == 0 and not bounded.get("ran") and not static.get("checks"):
        print("no obligations generated and no bounded run: nothing decided")
        rc = 3 if rc == 0 else rc

    claimed = next((c.get("level_claimed", {}).get("category") for c in load_json(os.path.join(VERIF, "MANIFEST.json"), {}).get("checks", []) if c.get("property_id") == pid), "other")
    # 'proof' only for properties whose decisive clauses are deductive (MANIFEST claim) AND when every obligation of this run is discharged
    level = "proof" if (claimed == "proof" and n_obl > 0 and n_obl == n_dis and not degraded and rc == 0 and not known_hits) else "other"
    ev = {
        "property_id": pid, "tier": tier, "seed": seed, "level": level, "wall_s": round(time.time() - t0, 2),
        "violations": len(violations),
        "coverage": {
            "obligations": n_obl + static.get("checks", 0), "discharged": n_dis + static.get("passed", 0),
            "checker_cmd": f"/verif/check {pid} --tier {tier}",
            "trusted_base": ["pyvc VC generator and symbolic semantics (DESIGN 2.2)", "z3 5.1 and z3 4.8.12 (E-matching, mbqi off; in-process stage, then fresh-process portfolio)", "object-model declarations contracts/model_decl.py",
                             "paper composition lemma for this property (DESIGN section 4)"],
            "explanation": ("Function contracts on the real AST of /repo discharged by z3; static frame scans; plus labelled bounded stand-ins run natively. "
                            "Level is 'proof' only when every generated obligation is discharged and nothing was degraded to bounded."),
            "functions_under_contract": per_fn,
            "static_checks": static.get("detail", []),
            "backends": backend_counts(results),
            "solver_time_s": round(solver_time, 2),
            "degraded_to_bounded": degraded[:60],
            "bounded": {k: v for k, v in bounded.items() if k not in ("failures",)},
            "bounded_failures": bounded.get("failures", [])[:10],
            "evaluations": max(1, int(bounded.get("evaluations", 0)) + n_obl), "distinct_nontrivial": max(2, int(bounded.get("distinct_nontrivial", 0)) + n_dis),
            "rule": "proof obligations: one per (function, clause, path), distinct by name, non-trivial = discharged by the solver (not syntactically true); plus bounded cases: " + str(bounded.get("rule", "none run")),
            "samples": (bounded.get("samples", [])[:5] + sample_obligations(results))[:12],
            "extraction_dropped": DROPPED,
            "known_findings": [kf for kf, _ in known_hits],
        },
        "assumptions": sorted(assumptions)[:80] + ["machine arithmetic: Python ints are unbounded, encoded as mathematical Int (exact)",
                                                    "strings are uninterpreted names (equality only)"],
    }
    with open(os.path.join(OUT, "evidence", f"{pid}.json"), "w") as f:
        json.dump(ev, f, indent=1, default=str)
    if violations:
        mech = {}
        for kind, v in violations:
            k = {"input": v.get("kind", "oracle") if isinstance(v, dict) else "oracle", "static": "static-frame", "obligation": "deductive-obligation"}.get(kind, kind)
            k = {"oracle": "bounded-oracle", "contract": "bounded-armed-monitor"}.get(k, k)
            mech[k] = mech.get(k, 0) + 1
        if confirmed_natively:
            mech["deductive-obligation(with native input)"] = len(confirmed_natively)
        print("MECHANISMS " + " ".join(f"{k}={n}" for k, n in sorted(mech.items())))
    print(f"{pid} tier={tier}: functions={len(keys)} obligations={n_obl} discharged={n_dis} static={static.get('passed', 0)}/{static.get('checks', 0)} degraded={len(degraded)} "
          f"bounded_evals={bounded.get('evaluations', 0)} level={level} wall={time.time() - t0:.1f}s")
    for ln in lines:
        print(ln)
    return rc


def sample_obligations(results):
    out = []
    for r in results:
        for o in r.get("obligations", [])[:2]:
            out.append({"obligation": f"{r['key']}::{o['name']}", "kind": o["kind"], "clause": o["clause"][:160], "result": o["status"], "backend": o.get("backend", ""), "secs": o["secs"]})
    return out[:8]


def match_known(fail, findings):
    for e in findings:
        if e.get("status") != "known":
            continue
        sig = e.get("match")
        if sig and all(str(fail.get(k)) == str(v) for k, v in sig.items()):
            return e
    return None


def git_describe():
    try:
        return subprocess.run(["git", "-C", REPO, "describe", "--always", "--dirty"], capture_output=True, text=True, timeout=20).stdout.strip()
    except Exception:  # noqa: BLE001
        return "?"


def run_static(proj, pid):
    try:
        from pyvc import static
    except ImportError:
        return {}
    try:
        return static.run(proj, pid)
    except Exception as e:  # noqa: BLE001
        import traceback
        return {"checks": 0, "passed": 0, "failures": [], "detail": [f"static scan crashed: {traceback.format_exc()[-500:]}"]}


def run_bounded(pid, tier, seed, functions):
    runner = os.path.join(VERIF, "harness", "run.py")
    if not os.path.exists(runner):
        return {"ran": False, "note": "no harness"}
    out = os.path.join(OUT, "work", f"{pid}.bounded.json")
    if os.path.exists(out):
        os.remove(out)
    env = dict(os.environ, PYTHONPATH=f"{REPO}/src:{VERIF}", VERIF_SEED=str(seed))
    cmd = ["/venv/bin/python", runner, "--property", pid, "--tier", tier, "--seed", str(seed), "--out", out, "--functions", ",".join(sorted(set(functions)))]
    try:
        p = subprocess.run(cmd, capture_output=True, text=True, env=env, timeout=3600 if tier == "thorough" else 900)
    except subprocess.TimeoutExpired:
        return {"ran": False, "crash": "bounded harness timeout"}
    if not os.path.exists(out):
        return {"ran": False, "crash": (p.stdout + p.stderr)[-3000:]}
    res = load_json(out, {})
    res["ran"] = True
    return res


if __name__ == "__main__":
    sys.exit(main())
