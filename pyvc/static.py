"""Class-wide FRAME obligations decided on the real AST (all paths, no solver): who may write what.

Each check returns definite failures (a write to a protected location of the receiver) and warnings (suspicious
structure: reported in the evidence, decided by the bounded stand-in).  DESIGN.md 2.4 (FRAME), 4 (C07, C13, C15, C18).
"""
from __future__ import annotations

import ast

MUTATORS = {"append", "extend", "insert", "pop", "add", "update", "discard", "remove", "setdefault", "clear", "popitem", "sort", "add_node", "add_edge",
            "add_nodes_from", "add_edges_from", "remove_node", "remove_edge", "move_to_end", "__setitem__", "__delitem__"}


def _methods(project, relpath, clsname):
    mod = project.module_ast(relpath)
    for n in mod.body:
        if isinstance(n, ast.ClassDef) and n.name == clsname:
            return [m for m in n.body if isinstance(m, (ast.FunctionDef, ast.AsyncFunctionDef))]
    return None


def _root_name(e):
    while isinstance(e, (ast.Attribute, ast.Subscript, ast.Call)):
        e = e.value if not isinstance(e, ast.Call) else e.func
    return e.id if isinstance(e, ast.Name) else None


def receiver_writes(fn, allowed_attrs=(), protect_prefix="self"):
    """(lineno, description) of every store / in-place mutation whose target is rooted at `self`."""
    out = []
    for x in ast.walk(fn):
        targets = []
        if isinstance(x, (ast.Assign, ast.Delete)):
            targets = x.targets
        elif isinstance(x, (ast.AugAssign, ast.AnnAssign)):
            targets = [x.target]
        for t in targets:
            for y in ast.walk(t):
                if isinstance(y, ast.Attribute) and isinstance(y.ctx, (ast.Store, ast.Del)) and _root_name(y) == protect_prefix:
                    if not (isinstance(y.value, ast.Name) and y.attr in allowed_attrs):
                        out.append((x.lineno, f"store to {ast.unparse(y)}"))
                if isinstance(y, ast.Subscript) and isinstance(y.ctx, (ast.Store, ast.Del)) and _root_name(y) == protect_prefix:
                    out.append((x.lineno, f"item store into {ast.unparse(y.value)}"))
        if isinstance(x, ast.Call) and isinstance(x.func, ast.Attribute) and x.func.attr in MUTATORS and _root_name(x.func.value) == protect_prefix:
            # self.method(...) is a call of an own method, not a container mutation
            if not isinstance(x.func.value, ast.Name):
                out.append((x.lineno, f"in-place {x.func.attr}() on {ast.unparse(x.func.value)}"))
    return out


def check_graph_immutability(project):
    fails, warns, n = [], [], 0
    ms = _methods(project, "graph/core.py", "Graph")
    if ms is None:
        return 0, 0, [{"function": "graph/core.py:Graph", "what": "class Graph not found"}], []
    memo = {"_controlled_by", "_cached_hash"}  # write-once caches of immutable structure
    # ... and every attribute written ONLY under the write-once idiom `if self._x is None: self._x = <value>` (a memo of
    # immutable structure; whether it is observable is decided by the twin oracle of the bounded stand-in)
    for m in ms:
        for x in ast.walk(m):
            if isinstance(x, ast.If) and isinstance(x.test, ast.Compare) and len(x.test.ops) == 1 and isinstance(x.test.ops[0], ast.Is) \
                    and isinstance(x.test.left, ast.Attribute) and isinstance(x.test.left.value, ast.Name) and x.test.left.value.id == "self" \
                    and x.test.left.attr.startswith("_") and isinstance(x.test.comparators[0], ast.Constant) and x.test.comparators[0].value is None:
                a = x.test.left.attr
                if any(isinstance(y, ast.Assign) and any(isinstance(t, ast.Attribute) and isinstance(t.value, ast.Name) and t.value.id == "self" and t.attr == a for t in y.targets) for y in x.body):
                    memo.add(a)
    init_mutable = []
    for m in ms:
        n += 1
        if m.name == "__init__":
            for x in ast.walk(m):
                if isinstance(x, (ast.Assign, ast.AnnAssign)):
                    tg = x.targets if isinstance(x, ast.Assign) else [x.target]
                    val = x.value
                    for t in tg:
                        if isinstance(t, ast.Attribute) and _root_name(t) == "self" and val is not None:
                            if isinstance(val, (ast.Dict, ast.List, ast.Set)) or (isinstance(val, ast.Call) and isinstance(val.func, ast.Name) and val.func.id in ("dict", "list", "set")):
                                init_mutable.append((t.attr, x.lineno))
            continue
        for ln, what in receiver_writes(m, allowed_attrs=memo):
            fails.append({"function": f"graph/core.py:Graph.{m.name}", "line": ln, "what": f"Graph.{m.name} writes to the receiver: {what} (derivations and queries must leave the receiver untouched)"})
    # mutable containers created in __init__ are shared by copy.copy() unless _shallow_copy re-creates them
    sc = next((m for m in ms if m.name == "_shallow_copy"), None)
    recreated = set()
    if sc is not None:
        for x in ast.walk(sc):
            if isinstance(x, ast.Assign):
                for t in x.targets:
                    if isinstance(t, ast.Attribute):
                        recreated.add(t.attr)
        txt = ast.unparse(sc)
        n += 2
        if "_bound" not in recreated:
            fails.append({"function": "graph/core.py:Graph._shallow_copy", "what": "_shallow_copy does not give the copy its own _bound dict"})
        if ".pop('inputs'" not in txt and '.pop("inputs"' not in txt:
            fails.append({"function": "graph/core.py:Graph._shallow_copy", "what": "_shallow_copy does not drop the memoised `inputs` of the copy"})
    for attr, ln in init_mutable:
        if attr not in recreated and attr not in ("_bound",):
            warns.append(f"Graph.__init__ line {ln}: mutable container self.{attr} is shared between a graph and every graph derived from it (copy.copy) and is not re-created by _shallow_copy")
    return n, n - len({f["function"] for f in fails}), fails, warns


def check_node_immutability(project):
    fails, warns, n = [], [], 0
    for rel, cls in (("nodes/base.py", "HyperNode"), ("nodes/graph_node.py", "GraphNode"), ("nodes/function.py", "FunctionNode"), ("nodes/gate.py", "RouteNode"), ("nodes/gate.py", "IfElseNode")):
        ms = _methods(project, rel, cls)
        if ms is None:
            continue
        for m in ms:
            if m.name in ("__init__",) or m.name.startswith("__"):
                continue
            n += 1
            for ln, what in receiver_writes(m):
                # cached_property invalidation on a fresh clone is written as clone.__dict__...; anything rooted at self is a write to the receiver
                fails.append({"function": f"{rel}:{cls}.{m.name}", "line": ln, "what": f"{cls}.{m.name} writes to the receiver: {what}"})
        cp = next((m for m in ms if m.name == "_copy"), None)
        if cp is not None:
            txt = ast.unparse(cp)
            if "_rename_history" not in txt:
                warns.append(f"{cls}._copy does not mention _rename_history: the clone may share the receiver's history list")
    return n, n - len({f["function"] for f in fails}), fails, warns


def check_runner_frames(project):
    """C18: runner / executor instances hold no per-run state: attribute stores on self only in __init__."""
    fails, n = [], 0
    targets = [("runners/sync/runner.py", "SyncRunner"), ("runners/async_/runner.py", "AsyncRunner"), ("runners/_shared/template_sync.py", "SyncRunnerTemplate"),
               ("runners/_shared/template_async.py", "AsyncRunnerTemplate"), ("runners/sync/executors/function_node.py", "SyncFunctionNodeExecutor"),
               ("runners/async_/executors/function_node.py", "AsyncFunctionNodeExecutor"), ("runners/sync/executors/graph_node.py", "SyncGraphNodeExecutor"),
               ("runners/async_/executors/graph_node.py", "AsyncGraphNodeExecutor"), ("runners/async_/executors/interrupt_node.py", "AsyncInterruptNodeExecutor")]
    for rel, cls in targets:
        ms = _methods(project, rel, cls)
        if ms is None:
            continue
        for m in ms:
            if m.name == "__init__":
                continue
            n += 1
            for ln, what in receiver_writes(m):
                fails.append({"function": f"{rel}:{cls}.{m.name}", "line": ln, "what": f"{cls}.{m.name} keeps state on the runner/executor instance across runs: {what}"})
    return n, n - len({f["function"] for f in fails}), fails, []


def check_processor_call_sites(project):
    """C13: event processors are invoked only through EventDispatcher (no direct on_event*/shutdown* calls in runners/)."""
    import os
    from .project import PKG
    fails, n = [], 0
    for root, _d, files in os.walk(os.path.join(PKG, "runners")):
        for fn in files:
            if not fn.endswith(".py"):
                continue
            rel = os.path.relpath(os.path.join(root, fn), PKG)
            n += 1
            for x in ast.walk(project.module_ast(rel)):
                if isinstance(x, ast.Call) and isinstance(x.func, ast.Attribute) and x.func.attr in ("on_event", "on_event_async"):
                    fails.append({"function": rel, "line": x.lineno, "what": f"{rel}:{x.lineno} calls {ast.unparse(x.func)} directly; processors must only be reached through EventDispatcher.emit*"})
    return n, n - len({f["function"] for f in fails}), fails, []


def check_limiter_sites(project):
    """C15: the shared limiter is acquired only around the leaf function execution (AsyncFunctionNodeExecutor.__call__);
    no other code in runners/ enters it (no hold-and-wait across nested runs or supersteps)."""
    import os
    from .project import PKG
    fails, n = [], 0
    allowed = ("runners/async_/executors/function_node.py",)
    for root, _d, files in os.walk(os.path.join(PKG, "runners")):
        for fn in files:
            if not fn.endswith(".py"):
                continue
            rel = os.path.relpath(os.path.join(root, fn), PKG)
            n += 1
            tree = project.module_ast(rel)
            for x in ast.walk(tree):
                if isinstance(x, (ast.AsyncWith, ast.With)):
                    for it in x.items:
                        txt = ast.unparse(it.context_expr)
                        if ("limiter" in txt or "semaphore" in txt.lower()) and rel not in allowed:
                            fails.append({"function": rel, "line": x.lineno, "what": f"{rel}:{x.lineno} holds the concurrency limiter ({txt}) outside the leaf function executor"})
                if isinstance(x, ast.Call) and isinstance(x.func, ast.Attribute) and x.func.attr == "acquire" and rel not in allowed:
                    fails.append({"function": rel, "line": x.lineno, "what": f"{rel}:{x.lineno} acquires {ast.unparse(x.func.value)} outside the leaf function executor"})
    return n, n - len({f["function"] for f in fails}), fails, []


def check_map_worker_atomic(project):
    """C10/C15: in the bounded async map worker the result and its index are recorded together, after the item finished,
    with no suspension point between the two appends (so results can be put back in input order)."""
    fails = []
    tree = project.module_ast("runners/_shared/template_async.py")
    worker = next((x for x in ast.walk(tree) if isinstance(x, ast.AsyncFunctionDef) and x.name == "_worker"), None)
    if worker is None:
        return 1, 0, [{"function": "runners/_shared/template_async.py:_worker", "what": "bounded-map worker not found (contract anchor missing)"}], []
    seq = []
    for x in ast.walk(worker):
        if isinstance(x, ast.Await):
            seq.append((x.lineno, x.col_offset, "await"))
        if isinstance(x, ast.Call) and isinstance(x.func, ast.Attribute) and x.func.attr == "append":
            seq.append((x.lineno, x.col_offset, "append:" + ast.unparse(x.func.value)))
    seq.sort()
    kinds = [k for _l, _c, k in seq]
    appends = [i for i, k in enumerate(kinds) if k.startswith("append:")]
    awaits = [i for i, k in enumerate(kinds) if k == "await"]
    ok = len(appends) == 2 and appends[1] == appends[0] + 1 and awaits and max(awaits) < appends[0]
    if not ok:
        fails.append({"function": "runners/_shared/template_async.py:AsyncRunnerTemplate.map._worker",
                      "what": f"bounded map worker: result/index bookkeeping is not one atomic step after the item completed (order of effects: {kinds})"})
    return 1, 1 - len(fails), fails, []


def check_map_limiter(project):
    """C15: AsyncRunnerTemplate.map installs the shared limiter itself (before any item task is created) and resets it in
    a finally block - otherwise every item's run would create a private limiter and the bound would hold per item only."""
    ms = _methods(project, "runners/_shared/template_async.py", "AsyncRunnerTemplate")
    m = next((x for x in (ms or []) if x.name == "map"), None)
    if m is None:
        return 1, 0, [{"function": "runners/_shared/template_async.py:AsyncRunnerTemplate.map", "what": "map not found (contract anchor missing)"}], []
    set_lines = [x.lineno for x in ast.walk(m) if isinstance(x, ast.Call) and isinstance(x.func, ast.Attribute) and x.func.attr == "_set_concurrency_limiter"]
    launch_lines = [x.lineno for x in ast.walk(m) if isinstance(x, ast.Call) and ast.unparse(x.func) in ("asyncio.gather", "asyncio.create_task")]
    reset_in_finally = any(isinstance(t, ast.Try) and any(isinstance(c, ast.Call) and isinstance(c.func, ast.Attribute) and c.func.attr == "_reset_concurrency_limiter"
                                                          for f in t.finalbody for c in ast.walk(f)) for t in ast.walk(m))
    fails = []
    if not set_lines or (launch_lines and min(set_lines) > min(launch_lines)):
        fails.append({"function": "runners/_shared/template_async.py:AsyncRunnerTemplate.map", "what": "map does not install the shared concurrency limiter before launching its items: the bound would hold per item, not globally"})
    elif not reset_in_finally:
        fails.append({"function": "runners/_shared/template_async.py:AsyncRunnerTemplate.map", "what": "map installs the limiter but does not reset it in a finally block"})
    return 1, 1 - len(fails), fails, []


CHECKS = {
    "C07": [check_graph_immutability, check_node_immutability],
    "C18": [check_runner_frames],
    "C13": [check_processor_call_sites],
    "C15": [check_limiter_sites, check_map_worker_atomic, check_map_limiter],
    "C10": [check_map_worker_atomic],
}


def run(project, pid):
    total = passed = 0
    failures, detail = [], []
    for chk in CHECKS.get(pid, []):
        n, ok, fails, warns = chk(project)
        total += n
        passed += ok
        for f in fails:
            f = dict(f, kind="static", check=chk.__name__)
            failures.append(f)
        detail.append({"check": chk.__name__, "doc": (chk.__doc__ or "").strip().split("\n")[0], "units": n, "passed": ok, "warnings": warns})
    return {"checks": total, "passed": passed, "failures": failures, "detail": detail}
