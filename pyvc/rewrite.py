"""Sound pre-simplification of heap reads: Select(Store(a, i, v), j) -> Select(a, j) when i != j is a syntactic
consequence of the axioms (fresh vs entry-allocated references; containers of different separated fields)."""
from __future__ import annotations

import z3

from . import smt


def _is_app(e, name):
    return z3.is_app(e) and e.decl().name() == name


PRIVATE: set = set()  # "A_<attr>" names of private container attributes (filled from the object model by the VC generator)


class HeapRewriter:
    def __init__(self, pc, region_attrs, fresh_terms=()):
        self.fresh = {t.get_id() for t in fresh_terms}
        self._fresh_keep = list(fresh_terms)
        for f in pc:
            if z3.is_not(f) and _is_app(f.arg(0), "Alloc0") and z3.is_const(f.arg(0).arg(0)):
                self.fresh.add(f.arg(0).arg(0).get_id())
        self.region = {f"A_{a}" for a in region_attrs}
        self.cache = {}
        self.entry_cache = {}
        self.keep = []  # keep keyed ASTs alive: z3 recycles ids of collected terms

    def entry(self, e) -> bool:
        """Term certainly denotes an object allocated at function entry (Alloc0 by the closure axioms)."""
        k = e.get_id()
        if k in self.entry_cache:
            return self.entry_cache[k]
        r = False
        if z3.is_const(e):
            n = e.decl().name()
            r = n.startswith("p_") or n.startswith("str:") or n.startswith("sentinel:") or n in ("py_None", "py_True", "py_False")
        elif z3.is_app(e):
            n = e.decl().name()
            if n.startswith("A_") and e.num_args() == 1:
                r = self.entry(e.arg(0))
            elif z3.is_select(e):
                # H0_dv[r][k] with r entry: value of an entry container in the entry heap
                inner = e.arg(0)
                if z3.is_select(inner) and z3.is_const(inner.arg(0)) and inner.arg(0).decl().name() in ("H0_dv", "H0_sa"):
                    r = self.entry(inner.arg(1))
        self.entry_cache[k] = r
        self.keep.append(e)
        return r

    def existed_before(self, t, ev, depth=0) -> bool:
        """t certainly denotes an object that existed before event number ev (None: unknown)."""
        if ev is None or depth > 6 or not z3.is_app(t):
            return False
        if self.entry(t):
            return True
        if z3.is_const(t):
            e = smt.EVENT.get(t.decl().name())
            return (t.get_id() in self.fresh or t.decl().name() in smt.EXISTING) and e is not None and e < ev
        n = t.decl().name()
        if n.startswith("A_") and t.num_args() == 1:
            u = t.arg(0)
            if z3.is_const(u) and not self.entry(u) and u.decl().name() not in smt.EXISTING:
                # an object allocated in this function: its constructor may store objects allocated AFTER it
                return False
            return self.existed_before(u, ev, depth + 1)
        if z3.is_app_of(t, z3.Z3_OP_ITE):
            return self.existed_before(t.arg(1), ev, depth + 1) and self.existed_before(t.arg(2), ev, depth + 1)
        if z3.is_select(t) and t.sort() == smt.V:
            return self.array_before(t.arg(0), ev, depth + 1)
        return False

    def array_before(self, a, ev, depth=0) -> bool:
        """Every value held in the array term a is an object that existed before event ev."""
        if depth > 12 or not z3.is_app(a):
            return False
        if z3.is_const(a):
            e = smt.EVENT.get(a.decl().name())
            return e is not None and e < ev
        if z3.is_select(a):  # an inner array read out of an outer one
            return self.array_before(a.arg(0), ev, depth + 1)
        if z3.is_store(a):
            v = a.arg(2)
            ok_v = self.array_before(v, ev, depth + 1) if z3.is_array(v) else (v.sort() != smt.V or self.existed_before(v, ev, depth + 1))
            return ok_v and self.array_before(a.arg(0), ev, depth + 1)
        if z3.is_K(a):
            v = a.arg(0)
            return self.array_before(v, ev, depth + 1) if z3.is_array(v) else (v.sort() != smt.V or self.existed_before(v, ev, depth + 1))
        return False

    def distinct(self, a, b) -> bool:
        if a.get_id() == b.get_id():
            return False
        fa, fb = a.get_id() in self.fresh, b.get_id() in self.fresh
        if fa and fb:
            return True  # allocations are pairwise distinct (asserted at allocation)
        if (fa and self.entry(b)) or (fb and self.entry(a)):
            return True
        # a reference allocated AFTER a heap array was created differs from every value read out of that array
        if fa and self.existed_before(b, smt.EVENT.get(a.decl().name())):
            return True
        if fb and self.existed_before(a, smt.EVENT.get(b.decl().name())):
            return True
        if z3.is_app(a) and z3.is_app(b):
            na, nb = a.decl().name(), b.decl().name()
            if na in self.region and nb in self.region and na != nb:
                return True
            # a PRIVATE attribute holds a container shared with no other attribute of any object (model_decl.PRIVATE_ATTRS)
            if na != nb and na.startswith("A_") and nb.startswith("A_") and (na in PRIVATE or nb in PRIVATE) and a.num_args() == 1 and b.num_args() == 1:
                return True
        return False

    def rw(self, e):
        k = e.get_id()
        if k in self.cache:
            return self.cache[k]
        if z3.is_quantifier(e):
            body = self.rw(e.body())
            if body.get_id() == e.body().get_id():
                r = e
            else:
                vs = [z3.Const(e.var_name(i), e.var_sort(i)) for i in range(e.num_vars())]
                # rebuild with fresh consts substituted for de Bruijn vars
                inst = z3.substitute_vars(body, *reversed(vs))
                pats = []
                for i in range(e.num_patterns()):
                    terms = [z3.substitute_vars(self.rw(c), *reversed(vs)) for c in e.pattern(i).children()]
                    pats.append(z3.MultiPattern(*terms) if len(terms) > 1 else terms[0])
                try:
                    if e.is_forall():
                        r = z3.ForAll(vs, inst, patterns=pats) if pats else z3.ForAll(vs, inst)
                    elif e.is_exists():
                        r = z3.Exists(vs, inst, patterns=pats) if pats else z3.Exists(vs, inst)
                    else:
                        r = None
                except z3.Z3Exception:
                    # a rewritten pattern term is no longer a valid pattern (e.g. a read through a family lambda): let the solver choose
                    r = z3.ForAll(vs, inst) if e.is_forall() else z3.Exists(vs, inst) if e.is_exists() else None
                if r is not None:
                    pass
                else:
                    r = z3.Lambda(vs, inst)
        elif z3.is_app(e):
            args = [self.rw(c) for c in e.children()]
            if z3.is_select(e) and len(args) == 2:
                arr, idx = args
                if z3.is_app(idx) and idx.decl().kind() == z3.Z3_OP_ITE and z3.is_store(arr):
                    try:
                        r = z3.If(idx.arg(0), self.rw(z3.Select(arr, idx.arg(1))), self.rw(z3.Select(arr, idx.arg(2))))
                        self.cache[k] = r
                        self.keep.append(e)
                        return r
                    except z3.Z3Exception:
                        pass
                while True:
                    while z3.is_store(arr) and self.distinct(arr.arg(1), idx):
                        arr = arr.arg(0)
                    # family lambda  (lambda x. if SkFam(x) == n then INIT else BASE[x])  read at an entry-allocated reference:
                    # entry objects belong to no family (axiom), so the read goes to BASE
                    if z3.is_quantifier(arr) and arr.is_lambda() and arr.num_vars() == 1 and idx.sort() == smt.V and self.entry(idx):
                        b = arr.body()
                        if z3.is_app_of(b, z3.Z3_OP_ITE) and z3.is_eq(b.arg(0)) and _is_app(b.arg(0).arg(0), "SkFam") and z3.is_int_value(b.arg(0).arg(1)) and b.arg(0).arg(1).as_long() != 0:
                            r2 = self.rw(z3.substitute_vars(b.arg(2), idx))
                            self.cache[k] = r2
                            self.keep.append(e)
                            return r2
                    # a heap array created by a loop cut with frame "non-entry": entry-allocated references read as before
                    if z3.is_const(arr) and arr.decl().name() in smt.FRAME_OF and idx.sort() == smt.V and self.entry(idx):
                        arr = self.rw(smt.FRAME_OF[arr.decl().name()])
                        continue
                    break
                if z3.is_store(arr) and arr.arg(1).get_id() == idx.get_id():
                    r = arr.arg(2)
                else:
                    r = z3.Select(arr, idx)
            elif all(a.get_id() == c.get_id() for a, c in zip(args, e.children())):
                r = e
            else:
                r = e.decl()(*args)
        else:
            r = e
        self.cache[k] = r
        self.keep.append(e)
        return r
