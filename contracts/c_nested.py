"""Sidecar contracts: executing a nested-graph node (C05: the inner graph is run by the same runner, names translated
both ways; C10: a mapping node delegates to runner.map with the ORIGINAL parameter names and collects lists)."""
# ruff: noqa
from pyvc.values import ANY, STR, INT, BOOL, NONE_T, SEQ, DICT, SET, OBJ, OPT, FIXTUP
from contracts.tracelib import names, calls, _nm

SG = "runners/sync/executors/graph_node.py:SyncGraphNodeExecutor."
AG = "runners/async_/executors/graph_node.py:AsyncGraphNodeExecutor."


def _t(v):
    return getattr(v, "t", None)


def nested_delegation(tr, outcome, raised, env, ex, s):
    import z3
    from pyvc import smt
    from pyvc.engine import truth
    runs = [e for e in tr if e[0] == "call" and _nm(e[1]) == "run"]
    maps = [e for e in tr if e[0] == "call" and _nm(e[1]) == "map"]
    tin = [e for e in tr if e[0] == "call" and _nm(e[1]) == "map_inputs_to_func_params"]
    if len(tin) != 1 or len(runs) + len(maps) > 1:
        return False
    if not runs and not maps:
        return outcome.startswith("raise")  # nothing ran only if the translation of the inputs failed
    node = env["node"].t
    inner = _t(env.get("inner_inputs"))
    call = (runs or maps)[0][2]
    args = call.get("args", [])
    if len(args) < 2 or _t(args[0]) is None or _t(args[1]) is None or inner is None:
        return False
    conds = [_t(args[0]) == smt.attr_func("graph")(node),          # the wrapped graph itself ...
             _t(args[1]) == inner,                                   # ... with the TRANSLATED inputs
             _t(call.get("self")) == smt.attr_func("runner")(env["self"].t)]  # ... through the SAME runner
    # C12: the inner run / map is parented to the span it was launched from and reports to the same processors
    kw0 = call.get("kwargs", {})
    if _t(kw0.get("_parent_span_id")) is None or _t(kw0.get("event_processors")) is None:
        return False
    conds += [_t(kw0["_parent_span_id"]) == _t(env["parent_span_id"]), _t(kw0["event_processors"]) == _t(env["event_processors"])]
    mapping = ex.eval_clause("bool(node.map_config)", s)
    if maps:
        kw = call.get("kwargs", {})
        mo, cl = _t(kw.get("map_over")), _t(kw.get("clone"))
        if mo is None or cl is None or _t(env.get("original_params")) is None:
            return False
        conds += [mapping, mo == _t(env["original_params"])]
        if outcome == "return":
            conds.append(z3.BoolVal(names(tr).count("collect_as_lists") == 1 and names(tr).count("map_outputs_from_original") == 0))
    else:
        conds.append(z3.Not(mapping))
        if outcome == "return":
            # (the translation back, node.map_outputs_from_original, is a pure method of the node: no trace event)
            conds.append(z3.BoolVal(names(tr).count("collect_as_lists") == 0))
    return z3.And(*conds)


CONTRACTS = {
    SG + "__call__": dict(
        props=["C05", "C10", "C12"],
        params={"self": ANY, "node": OBJ("GraphNode"), "state": OBJ("GraphState"), "inputs": DICT(STR, ANY), "event_processors": ANY, "parent_span_id": OPT(STR)},
        returns=DICT(STR, ANY),
        requires=["distinct_names(node.outputs)"],   # object-model fact: a node's output names are pairwise distinct
        may_raise={"BaseException": True},
        trace=[{"name": "C05/C10 one inner run (or map) of the wrapped graph by the same runner, on the translated inputs, parented to the launching span (C12); outputs translated back (lists collected for a mapping node)",
                "check": nested_delegation}],
    ),
    AG + "_handle_nested_result": dict(
        props=["C14", "C05"],
        params={"self": OBJ("AsyncGraphNodeExecutor"), "node": OBJ("GraphNode"), "result": OBJ("RunResult")},
        returns=DICT(STR, ANY),
        imports={"RunStatus": "hypergraph.runners._shared.types"},
        # a paused inner run pauses the outer run (never swallowed, never turned into values); anything else is translated back
        raises={"PauseExecution": "result.status == RunStatus.PAUSED"},
        may_raise={"AssertionError": "result.status == RunStatus.PAUSED"},
        ensures=["result == node.map_outputs_from_original(old(result).values)"],
    ),
    AG + "__call__": dict(
        props=["C05", "C10", "C12", "C14"],
        params={"self": OBJ("AsyncGraphNodeExecutor"), "node": OBJ("GraphNode"), "state": OBJ("GraphState"), "inputs": DICT(STR, ANY), "event_processors": ANY, "parent_span_id": OPT(STR)},
        returns=DICT(STR, ANY),
        requires=["distinct_names(node.outputs)"],   # object-model fact: a node's output names are pairwise distinct
        may_raise={"BaseException": True},
        trace=[{"name": "C05/C10 one inner run (or map) of the wrapped graph by the same runner, on the translated inputs, parented to the launching span (C12); the result goes through _handle_nested_result (lists collected for a mapping node)",
                "check": nested_delegation}],
    ),
}

CONTRACTS.update({
    "runners/_shared/helpers.py:map_inputs_to_func_params": dict(
        props=["C05", "C06"],
        params={"node": OBJ("HyperNode"), "inputs": DICT(STR, ANY)},
        returns=DICT(STR, ANY),
        # the node's own translation, nothing else (polymorphic: callable nodes and nested-graph nodes each translate their renames)
        ensures=["result == node.map_inputs_to_params(inputs)"],
        modifies=[],
    ),
})

CONTRACTS.update({
    "nodes/graph_node.py:GraphNode.__init__": dict(
        props=["C05"],
        params={"self": OBJ("GraphNode"), "graph": OBJ("Graph"), "name": OPT(STR)},
        returns=NONE_T,
        may_raise={"ValueError": True},
        # the interface of a nested-graph node IS the wrapped graph's: its inputs are the graph's full input specification,
        # its outputs the graph's selection (or all outputs), and it wraps exactly the graph it was given
        ensures=["self._graph is graph", "self.inputs == graph.inputs.all",
                 "self.outputs == (graph.selected if graph.selected is not None else graph.outputs)",
                 "self.name is not None", "self._map_over is None"],
        modifies=["self"],
        loops=[{"invariant": []}],
    ),
})

