"""Sidecar contracts: the event builders both supersteps share (runners/_shared/event_helpers.py) -- C12.

The span tree of C12 is assembled from the identifiers these builders put into the event objects.  Discharged here, for every
argument: a node's start event carries the span id the builder also RETURNS (so the end / error / cache-hit event, built from
that returned id, closes the SAME span), every node-level event names the run's span as its parent and carries the run id and
the names of the node and graph it was built for, a cached end event says so, and a route-decision event exists exactly when
the node is a routing gate that has a recorded decision and carries that decision."""
# ruff: noqa
from pyvc.values import ANY, STR, INT, BOOL, NONE_T, SEQ, DICT, SET, OBJ, OPT, FIXTUP

EH = "runners/_shared/event_helpers.py:"
NODE = OBJ("HyperNode")
GRAPH = OBJ("Graph")

COMMON = ["result.run_id == run_id", "result.parent_span_id == run_span_id", "result.node_name == node.name", "result.graph_name == graph.name"]

CONTRACTS = {
    EH + "build_node_start_event": dict(
        props=["C12"],
        params={"run_id": STR, "run_span_id": STR, "node": NODE, "graph": GRAPH},
        returns=FIXTUP(STR, OBJ("NodeStartEvent")),
        raises={},
        ensures=["result[1].span_id == result[0]", "result[1].run_id == run_id", "result[1].parent_span_id == run_span_id",
                 "result[1].node_name == node.name", "result[1].graph_name == graph.name"],
        modifies=[],
    ),
    EH + "build_node_end_event": dict(
        props=["C12"],
        params={"run_id": STR, "node_span_id": STR, "run_span_id": STR, "node": NODE, "graph": GRAPH, "duration_ms": ANY, "cached": BOOL},
        returns=OBJ("NodeEndEvent"),
        raises={},
        ensures=COMMON + ["result.span_id == node_span_id", "result.cached == cached"],
        modifies=[],
    ),
    EH + "build_cache_hit_event": dict(
        props=["C12"],
        params={"run_id": STR, "node_span_id": STR, "run_span_id": STR, "node": NODE, "graph": GRAPH, "cache_key": STR},
        returns=OBJ("CacheHitEvent"),
        raises={},
        ensures=COMMON + ["result.span_id == node_span_id", "result.cache_key == cache_key"],
        modifies=[],
    ),
    EH + "build_node_error_event": dict(
        props=["C12"],
        params={"run_id": STR, "node_span_id": STR, "run_span_id": STR, "node": NODE, "graph": GRAPH},
        returns=OBJ("NodeErrorEvent"),
        raises={},
        ensures=COMMON + ["result.span_id == node_span_id"],
        modifies=[],
    ),
    EH + "build_route_decision_event": dict(
        props=["C12"],
        params={"run_id": STR, "run_span_id": STR, "node": NODE, "graph": GRAPH, "state": OBJ("GraphState")},
        returns=OPT(OBJ("RouteDecisionEvent")),
        raises={},
        ensures=["(result is not None) == (isinstance(node, (RouteNode, IfElseNode)) and node.name in state.routing_decisions)",
                 "(result.run_id == run_id and result.parent_span_id == run_span_id and result.node_name == node.name "
                 "and result.graph_name == graph.name and result.decision is state.routing_decisions[node.name]) if result is not None else True"],
        imports={"RouteNode": "hypergraph.nodes.gate", "IfElseNode": "hypergraph.nodes.gate"},
        modifies=[],
    ),
}
