"""Sidecar contracts: event dispatcher (C13) - observers cannot alter execution."""
# ruff: noqa
from pyvc.values import ANY, STR, INT, BOOL, NONE_T, SEQ, DICT, SET, OBJ, OPT, FIXTUP
from contracts.tracelib import names, _nm

D = "events/dispatcher.py:EventDispatcher."
DISP = OBJ("EventDispatcher")


def once(method_names):
    def check(tr, *rest):
        n = [x for x in names(tr) if x in method_names]
        return len(n) == 1
    return {"name": f"each processor receives the event exactly once per delivery ({'/'.join(sorted(method_names))}), whether or not it raises", "check": check}


def exhausted(tr, outcome, *rest):
    """A normal return happens only after the loop over ALL processors is exhausted (no early return / break)."""
    return outcome != "return" or any(e[0] == "loop-exhausted" for e in tr)


EXH = {"name": "every registered processor is visited: the delivery loop is never left early", "check": exhausted}

CONTRACTS = {
    D + "emit": dict(
        props=["C13", "C12"], params={"self": DISP, "event": ANY}, returns=NONE_T,
        may_raise={"Exception": "self._strict"},  # best effort: a processor's exception escapes only in strict mode
        trace=[EXH], loops=[{"body_trace": [once({"on_event"})]}],
    ),
    D + "emit_async": dict(
        props=["C13", "C12"], params={"self": DISP, "event": ANY}, returns=NONE_T,
        may_raise={"Exception": "self._strict"},
        trace=[EXH], loops=[{"body_trace": [once({"on_event", "on_event_async"})]}],
    ),
    D + "shutdown": dict(
        props=["C13", "C12"], params={"self": DISP}, returns=NONE_T,
        requires=["not self._strict"],
        trace=[EXH], loops=[{"invariant": ["first_error is None"], "body_trace": [once({"shutdown"})]}],
    ),
    D + "shutdown_async": dict(
        props=["C13", "C12"], params={"self": DISP}, returns=NONE_T,
        requires=["not self._strict"],
        trace=[EXH], loops=[{"body_trace": [once({"shutdown", "shutdown_async"})]}],
    ),
    D + "active": dict(
        props=["C13", "C12"], params={"self": DISP}, returns=BOOL,
        ensures=["result == (len(self._processors) > 0)"],
        mustfail="result == (len(self._processors) > 1)",
    ),
}
