"""Sidecar contracts: the superstep loops of both runners (C04 step bound, C02 same loop shape, C11 wrapping)."""
# ruff: noqa
from pyvc.values import ANY, STR, INT, BOOL, NONE_T, SEQ, DICT, SET, OBJ, OPT, FIXTUP
from contracts.tracelib import names, calls, _nm

SR = "runners/sync/runner.py:SyncRunner."
AR = "runners/async_/runner.py:AsyncRunner."


def superstep_once(step_name):
    def check(tr, *rest):
        ns = names(tr)
        return ns.count(step_name) <= 1 and ns.count("get_ready_nodes") == 1
    return {"name": f"each loop iteration computes the ready set once and runs at most one superstep ({step_name})", "check": check}


def ids_to_superstep(step_name):
    """C12: every superstep is given THIS run's dispatcher, run id and run span (the parent of its node events) and this graph."""
    def check(tr, outcome, raised, env, ex, s):
        import z3
        def t(v):
            return getattr(v, "t", None)
        conds = []
        for e in calls(tr, step_name):
            kw, a = e[2].get("kwargs", {}), e[2].get("args", [])
            if not {"dispatcher", "run_id", "run_span_id"} <= set(kw) or not a:
                return False
            conds += [t(kw["dispatcher"]) == t(env["dispatcher"]), t(kw["run_id"]) == t(env["run_id"]), t(kw["run_span_id"]) == t(env["run_span_id"]), t(a[0]) == t(env["graph"])]
        return z3.And(*conds) if conds else True
    return {"name": f"C12 {step_name} receives this run's dispatcher, run id, run span and graph", "check": check}


def loop_verdict(tr, outcome, raised, env, ex, s):
    """C04: InfiniteLoopError is reported only when, after max_iterations supersteps, nodes are STILL ready; a quiescent run
    returns its state even when it used exactly max_iterations steps."""
    from pyvc.engine import truth
    raised_loop = any(e[0] == "new-exc" and e[1] == "InfiniteLoopError" for e in tr)
    exhausted = [i for i, e in enumerate(tr) if e[0] == "loop-exhausted"]
    ready_calls = [i for i, e in enumerate(tr) if e[0] == "call" and _nm(e[1]) == "get_ready_nodes"]
    if raised_loop:
        if not exhausted or not ready_calls or ready_calls[-1] < exhausted[-1]:
            return False  # raised without re-checking readiness after the last allowed step
        return truth(env["_ret_get_ready_nodes"], s)
    if outcome == "return" and exhausted:
        # returned after using all allowed steps: the post-loop readiness check must have found nothing
        if not ready_calls or ready_calls[-1] < exhausted[-1]:
            return False
        from z3 import Not
        return Not(truth(env["_ret_get_ready_nodes"], s))
    return True


def wraps_with_state(tr, outcome, raised, env, ex, s):
    """C11: an Exception leaving the loop is an ExecutionError (re-raised unchanged, or wrapping the cause with the pre-step
    state); non-Exception signals (KeyboardInterrupt, SystemExit) pass through untouched."""
    if not outcome.startswith("raise"):
        return True
    import z3
    from pyvc import smt
    if raised.exc is None:
        return raised.cls == "ExecutionError"
    return z3.Or(smt.inst_pred("ExecutionError")(raised.exc.t), z3.Not(smt.inst_pred("Exception")(raised.exc.t)))


def pause_carries_state(tr, outcome, raised, env, ex, s):
    """C14/C11: what leaves the asynchronous loop is an ExecutionError (carrying the state so far) or a non-Exception signal; a
    pause signal carries, as `_partial_state`, the state the loop held when the pausing step started (nothing of that step)."""
    import z3
    from pyvc import smt
    if not outcome.startswith("raise"):
        return True
    if raised.exc is None:
        return raised.cls == "ExecutionError"
    e = raised.exc.t
    is_pause = smt.inst_pred("PauseExecution")(e)
    if "state" not in env:
        return z3.Or(smt.inst_pred("ExecutionError")(e), z3.Not(smt.inst_pred("Exception")(e)))
    held = ex.eval_pure("exc._partial_state", s) if "exc" in s.env else None
    conds = [z3.Or(smt.inst_pred("ExecutionError")(e), z3.Not(smt.inst_pred("Exception")(e)))]
    if held is not None:
        conds.append(z3.Implies(is_pause, held == env["state"].t))
    return z3.And(*conds)


def contract(cls, step):
    return dict(
        props=["C04", "C02", "C11", "C12"],
        params={"self": OBJ(cls), "graph": OBJ("Graph"), "values": DICT(STR, ANY), "max_iterations": INT, "max_concurrency": OPT(INT), "dispatcher": ANY, "run_id": STR, "run_span_id": STR, "event_processors": ANY},
        returns=OBJ("GraphState"),
        requires=["max_iterations >= 1", "nodes_keyed_by_name(graph)", "gates_wellformed(graph, END)"],
        imports={"END": "hypergraph.nodes.gate"},
        may_raise={"BaseException": True},
        trace=[{"name": "C04 InfiniteLoopError exactly when nodes are still ready after max_iterations steps; quiescent runs return", "check": loop_verdict},
               {"name": "C11 the only Exception that leaves the superstep loop is ExecutionError (carrying the state so far)", "check": wraps_with_state}],
        # the graph is immutable: its well-formedness facts survive every superstep (carried explicitly because the loop
        # re-binds `state`, so the loop cut forgets the whole heap)
        loops=[{"bound": "max_iterations", "body_trace": [superstep_once(step), ids_to_superstep(step)], "invariant": ["nodes_keyed_by_name(graph)", "gates_wellformed(graph, END)"]}],
    )


def limiter_bracket(tr, outcome, raised, env, ex, s):
    """C15: the shared limiter is installed iff none is active and a limit was given, before the first superstep, and is
    reset exactly once on every exit path when (and only when) this call installed it."""
    import z3
    from pyvc.engine import identical, lift
    ns = names(tr)
    n_set, n_reset = ns.count("set_concurrency_limiter"), ns.count("reset_concurrency_limiter")
    if n_set > 1 or n_reset != n_set:
        return False
    if n_set:
        i_set, i_reset = ns.index("set_concurrency_limiter"), ns.index("reset_concurrency_limiter")
        steps = [i for i, n in enumerate(ns) if n == "run_superstep_async"]
        if any(i < i_set or i > i_reset for i in steps) or ns.count("Semaphore") != 1 or ns.index("Semaphore") > i_set:
            return False
    if "existing_limiter" not in env:
        return n_set == 0
    none = lift(None)
    should = z3.And(identical(env["existing_limiter"], none, s), z3.Not(identical(env["max_concurrency"], none, s)))
    return should if n_set else z3.Not(should)


CONTRACTS = {
    SR + "_execute_graph_impl": contract("SyncRunner", "run_superstep_sync"),
    AR + "_execute_graph_impl_async": contract("AsyncRunner", "run_superstep_async"),
}
CONTRACTS[AR + "_execute_graph_impl_async"]["props"] = ["C04", "C02", "C11", "C12", "C15"]
CONTRACTS[AR + "_execute_graph_impl_async"]["props"].append("C14")
CONTRACTS[AR + "_execute_graph_impl_async"]["trace"] = CONTRACTS[AR + "_execute_graph_impl_async"]["trace"][:1] + [
    {"name": "C14/C11 only ExecutionError or a non-Exception signal leaves the loop; a pause carries the pre-step state", "check": pause_carries_state},
    {"name": "C15 limiter installed iff absent and requested; reset on every exit path; supersteps only in between", "check": limiter_bracket}]
