"""Which properties a function under contract is checked for, beyond the `props` its own sidecar lists.

A property's check verifies the functions tagged with it.  Several properties rest on the SAME small cluster of scheduling
helpers (readiness, activation, staleness, ordering, value resolution): a change inside one of them breaks every property that
is phrased over "which nodes run when" - determinism across node order (C02) as much as gate routing (C03).  Seeded round 4
showed the gap (a change in `_get_activated_nodes`, tagged C03, demonstrated against C02, was not seen by the C02 check), so
the cluster is tagged for all of them here.  These functions take seconds to verify."""
# ruff: noqa

H = "runners/_shared/helpers.py:"
SCHEDULING = [H + n for n in (
    "get_ready_nodes", "_get_activated_nodes", "_clear_stale_gate_decisions", "_is_node_activated_by_decision", "_is_node_ready",
    "_is_controlled_by_gate", "_has_all_inputs", "_has_input", "_needs_execution", "_is_stale", "_wait_for_satisfied",
    "_defer_wait_for_nodes", "get_value_source", "_resolve_input", "collect_inputs_for_node", "compute_active_node_set")]
SCHEDULING += ["runners/_shared/types.py:GraphState.update_value", "runners/_shared/types.py:GraphState.get_version"]
SCHEDULING_PROPS = ["C01", "C02", "C03", "C04", "C16", "C17"]


RUNNER_LOOPS = ["runners/sync/runner.py:SyncRunner._execute_graph_impl", "runners/async_/runner.py:AsyncRunner._execute_graph_impl_async"]
RUNNER_LOOP_PROPS = ["C01", "C03", "C16", "C17"]   # "a quiescent run returns its state" is part of every whole-run property


def extend(contracts):
    for k in RUNNER_LOOPS:
        if k in contracts:
            c = contracts[k]
            c["props"] = list(dict.fromkeys(list(c.get("props", [])) + RUNNER_LOOP_PROPS))
    for k in SCHEDULING:
        if k in contracts:
            c = contracts[k]
            c["props"] = list(dict.fromkeys(list(c.get("props", [])) + SCHEDULING_PROPS))
