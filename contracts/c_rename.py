"""Sidecar contracts: rename bookkeeping and name translation of nested-graph nodes (C05, C06)."""
# ruff: noqa
from pyvc.values import ANY, STR, INT, BOOL, NONE_T, SEQ, DICT, SET, OBJ, OPT, FIXTUP

RN = "nodes/_rename.py:"
GN = "nodes/graph_node.py:"
CM = "nodes/_callable.py:"
BRM = {"build_reverse_rename_map": "hypergraph.nodes._rename"}

CONTRACTS = {
    RN + "_validate_rename_keys": dict(
        props=["C06"],
        params={"mapping": DICT(STR, STR), "values": SEQ(STR), "kind": STR},
        returns=NONE_T,
        raises={"RenameError": "any(k not in values for k in mapping)"},
        modifies=[],
    ),
    RN + "_apply_renames": dict(
        props=["C06"],
        params={"values": SEQ(STR), "mapping": OPT(DICT(STR, STR)), "kind": STR},
        returns=FIXTUP(SEQ(STR), SEQ(OBJ("RenameEntry"))),
        raises={"RenameError": "bool(mapping) and any(k not in values for k in mapping)"},
        ensures=[
            # positions are preserved: the i-th name becomes mapping.get(name, name); nothing else changes
            "len(result[0]) == len(values)",
            "all(result[0][i] == (mapping.get(values[i], values[i]) if mapping else values[i]) for i in range(len(values)))",
            # exactly one history entry per renamed key, recording (kind, old, new)
            "len(result[1]) == (len(mapping) if mapping else 0)",
            "all(e.kind == kind and e.old in mapping and e.new == mapping[e.old] for e in result[1])",
        ],
        modifies=[],
    ),
    GN + "GraphNode._resolve_original_input_name": dict(
        props=["C05", "C06", "C08"],
        params={"self": OBJ("GraphNode"), "param": STR},
        returns=STR,
        imports=BRM,
        # ONE translation for every consumer: the batch-aware reverse map also used by map_inputs_to_params
        ensures=["result == build_reverse_rename_map(self._rename_history, 'inputs').get(param, param)"],
        modifies=[],
        pure=True,  # callers see the object model's function of (self, param), constrained by the ensures
    ),
    GN + "GraphNode.map_inputs_to_params": dict(
        props=["C05", "C06"],
        params={"self": OBJ("GraphNode"), "inputs": DICT(STR, ANY)},
        returns=DICT(STR, ANY),
        imports=BRM,
        ensures=[
            # every value addressed to a current name arrives under the original name of that input ...
            "all(build_reverse_rename_map(self._rename_history, 'inputs').get(k, k) in result for k in inputs)",
            # ... and nothing else arrives: each delivered entry is the value of some supplied name that translates to it
            "forall_keys(lambda p: p not in result or any(build_reverse_rename_map(self._rename_history, 'inputs').get(k, k) == p and result[p] is inputs[k] for k in inputs), result)",
        ],
        modifies=[],
    ),
    GN + "GraphNode._original_map_params": dict(
        props=["C06", "C10"],
        params={"self": OBJ("GraphNode")},
        returns=OPT(SEQ(STR)),
        imports=BRM,
        ensures=[
            "(result is None) == (self._map_over is None)",
            "self._map_over is None or len(result) == len(self._map_over)",
            "self._map_over is None or all(result[i] == build_reverse_rename_map(self._rename_history, 'inputs').get(self._map_over[i], self._map_over[i]) for i in range(len(self._map_over)))",
        ],
        modifies=[],
    ),
    CM + "CallableMixin.map_inputs_to_params": dict(
        props=["C06"],
        params={"self": OBJ("FunctionNode"), "inputs": DICT(STR, ANY)},
        returns=DICT(STR, ANY),
        imports=BRM,
        ensures=[
            "all(build_reverse_rename_map(self._rename_history, 'inputs').get(k, k) in result for k in inputs)",
            "forall_keys(lambda p: p not in result or any(build_reverse_rename_map(self._rename_history, 'inputs').get(k, k) == p and result[p] is inputs[k] for k in inputs), result)",
        ],
        modifies=[],
    ),
}

IS = "graph/input_spec.py:"
ORIG = "self._resolve_original_input_name(param)"
INNER_DEFAULT = "any(" + ORIG + " in n.inputs and bool(n.has_default_for(" + ORIG + ")) for n in self._graph._nodes.values())"

CONTRACTS.update({
    GN + "GraphNode._original_clone": dict(
        props=["C06", "C10"],
        params={"self": OBJ("GraphNode")},
        returns=ANY,
        imports=BRM,
        ensures=[
            "isinstance(self._clone, list) or result is self._clone",
            "not isinstance(self._clone, list) or len(result) == len(self._clone)",
            "not isinstance(self._clone, list) or all(result[i] == build_reverse_rename_map(self._rename_history, 'inputs').get(self._clone[i], self._clone[i]) for i in range(len(self._clone)))",
        ],
        modifies=[],
    ),
    GN + "GraphNode.has_default_for": dict(
        props=["C05", "C06", "C08"],
        params={"self": OBJ("GraphNode"), "param": STR},
        returns=BOOL,
        # a wrapper input has a default exactly when its ORIGINAL inner name is bound in the inner graph or defaulted by an inner consumer
        ensures=["result == (param in self.inputs and (" + ORIG + " in self._graph.inputs.bound or " + INNER_DEFAULT + "))"],
        modifies=[],
    ),
    GN + "GraphNode.get_default_for": dict(
        props=["C05", "C06", "C08"],
        params={"self": OBJ("GraphNode"), "param": STR},
        returns=ANY,
        raises={"KeyError": "not (" + ORIG + " in self._graph.inputs.bound or " + INNER_DEFAULT + ")"},
        ensures=[
            # an inner binding wins over inner signature defaults, looked up under the original name
            ORIG + " not in self._graph.inputs.bound or result is self._graph.inputs.bound[" + ORIG + "]",
            ORIG + " in self._graph.inputs.bound or any(" + ORIG + " in n.inputs and bool(n.has_default_for(" + ORIG + ")) and result is n.get_default_for(" + ORIG + ") for n in self._graph._nodes.values())",
        ],
        modifies=[],
        loops=[{"invariant": ["not any(" + "original_param in n.inputs and bool(n.has_default_for(original_param)) for n in _seq[:_i])"]}],
    ),
    IS + "_collect_bound_values": dict(
        props=["C05", "C08"],
        params={"nodes": DICT(STR, OBJ("HyperNode")), "bound": DICT(STR, ANY)},
        returns=DICT(STR, ANY),
        imports={"GraphNode": "hypergraph.nodes.graph_node"},
        ensures=[
            # the graph's own bindings always win
            "all(k in result and result[k] is bound[k] for k in bound)",
            # every inner binding of a nested graph surfaces under the wrapper's CURRENT name of that input
            "all(not isinstance(n, GraphNode) or all(n._resolve_original_input_name(p) not in n.graph.inputs.bound or p in result for p in n.inputs) for n in nodes.values())",
            # and nothing else appears: each extra key is a wrapper input whose original name is bound inside, with that value
            "forall_keys(lambda k: k not in result or k in bound or any(isinstance(n, GraphNode) and k in n.inputs and n._resolve_original_input_name(k) in n.graph.inputs.bound and result[k] is n.graph.inputs.bound[n._resolve_original_input_name(k)] for n in nodes.values()), result)",
        ],
        modifies=[],
        loops=[
            {"invariant": [
                "all(k in all_bound and all_bound[k] is bound[k] for k in bound)",
                "all(not isinstance(n, GraphNode) or all(n._resolve_original_input_name(p) not in n.graph.inputs.bound or p in all_bound for p in n.inputs) for n in _seq[:_i])",
                "forall_keys(lambda k: k not in all_bound or k in bound or any(isinstance(n, GraphNode) and k in n.inputs and n._resolve_original_input_name(k) in n.graph.inputs.bound and all_bound[k] is n.graph.inputs.bound[n._resolve_original_input_name(k)] for n in _seq[:_i]), all_bound)",
            ]},
            {"invariant": [
                "all(k in all_bound and all_bound[k] is bound[k] for k in bound)",
                "all(not isinstance(n, GraphNode) or all(n._resolve_original_input_name(p) not in n.graph.inputs.bound or p in all_bound for p in n.inputs) for n in _seq0[:_i0])",
                "all(node._resolve_original_input_name(p) not in node.graph.inputs.bound or p in all_bound for p in _seq[:_i])",
                "forall_keys(lambda k: k not in all_bound or k in bound or any(isinstance(n, GraphNode) and k in n.inputs and n._resolve_original_input_name(k) in n.graph.inputs.bound and all_bound[k] is n.graph.inputs.bound[n._resolve_original_input_name(k)] for n in _seq0[:_i0 + 1]), all_bound)",
                "isinstance(node, GraphNode)", "inner_bound is node.graph.inputs.bound",
            ]},
        ],
    ),
    GN + "GraphNode.map_outputs_from_original": dict(
        props=["C05", "C06"],
        params={"self": OBJ("GraphNode"), "outputs": DICT(STR, ANY)},
        returns=DICT(STR, ANY),
        imports=BRM,
        # object-model facts about a wrapper: different current output names stand for different inner names, and the inner
        # run produced only (selected) outputs of the inner graph, i.e. originals of current names
        requires=["all(a == b or build_reverse_rename_map(self._rename_history, 'outputs').get(a, a) != build_reverse_rename_map(self._rename_history, 'outputs').get(b, b) for a in self.outputs for b in self.outputs)",
                  "all(any(build_reverse_rename_map(self._rename_history, 'outputs').get(n, n) == k for n in self.outputs) for k in outputs)"],
        # results appear under the CURRENT output names: the value the inner graph produced under the original name of n
        ensures=["all(build_reverse_rename_map(self._rename_history, 'outputs').get(n, n) not in outputs or (n in result and result[n] is outputs[build_reverse_rename_map(self._rename_history, 'outputs').get(n, n)]) for n in self.outputs)"],
        modifies=[],
        call_site="opaque",  # callers (the graph-node executors) keep the declared pure method of the object model
    ),
})

INNER = "self._graph._nodes.values()"
CONTRACTS.update({
    GN + "GraphNode.has_signature_default_for": dict(
        props=["C05", "C19"],
        params={"self": OBJ("GraphNode"), "param": STR},
        returns=BOOL,
        # a wrapper input has a SIGNATURE default exactly when it is an input, its original inner name is not bound inside, some
        # inner node consumes it and EVERY inner consumer has a signature default for it
        ensures=["result == (param in self.inputs and " + ORIG + " not in self._graph.inputs.bound"
                 " and any(" + ORIG + " in n.inputs for n in " + INNER + ")"
                 " and all(" + ORIG + " not in n.inputs or bool(n.has_signature_default_for(" + ORIG + ")) for n in " + INNER + "))"],
        modifies=[],
        pure=True,
    ),
})
