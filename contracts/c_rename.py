"""Sidecar contracts: rename bookkeeping and name translation of nested-graph nodes (C05, C06)."""
# ruff: noqa
from pyvc.values import ANY, STR, INT, BOOL, NONE_T, SEQ, DICT, SET, OBJ, OPT, FIXTUP

RN = "nodes/_rename.py:"
GN = "nodes/graph_node.py:"
CM = "nodes/_callable.py:"
BRM = {"build_reverse_rename_map": "hypergraph.nodes._rename"}

CONTRACTS = {
    RN + "_validate_rename_keys": dict(
        props=["C06"],
        params={"mapping": DICT(STR, STR), "values": SEQ(STR), "kind": STR},
        returns=NONE_T,
        raises={"RenameError": "any(k not in values for k in mapping)"},
        modifies=[],
    ),
    RN + "_apply_renames": dict(
        props=["C06"],
        params={"values": SEQ(STR), "mapping": OPT(DICT(STR, STR)), "kind": STR},
        returns=FIXTUP(SEQ(STR), SEQ(OBJ("RenameEntry"))),
        raises={"RenameError": "bool(mapping) and any(k not in values for k in mapping)"},
        ensures=[
            # positions are preserved: the i-th name becomes mapping.get(name, name); nothing else changes
            "len(result[0]) == len(values)",
            "all(result[0][i] == (mapping.get(values[i], values[i]) if mapping else values[i]) for i in range(len(values)))",
            # exactly one history entry per renamed key, recording (kind, old, new)
            "len(result[1]) == (len(mapping) if mapping else 0)",
            "all(e.kind == kind and e.old in mapping and e.new == mapping[e.old] for e in result[1])",
        ],
        modifies=[],
    ),
    GN + "GraphNode._resolve_original_input_name": dict(
        props=["C05", "C06"],
        params={"self": OBJ("GraphNode"), "param": STR},
        returns=STR,
        imports=BRM,
        # ONE translation for every consumer: the batch-aware reverse map also used by map_inputs_to_params
        ensures=["result == build_reverse_rename_map(self._rename_history, 'inputs').get(param, param)"],
        modifies=[],
    ),
    GN + "GraphNode.map_inputs_to_params": dict(
        props=["C05", "C06"],
        params={"self": OBJ("GraphNode"), "inputs": DICT(STR, ANY)},
        returns=DICT(STR, ANY),
        imports=BRM,
        ensures=[
            # every value addressed to a current name arrives under the original name of that input ...
            "all(build_reverse_rename_map(self._rename_history, 'inputs').get(k, k) in result for k in inputs)",
            # ... and nothing else arrives: each delivered entry is the value of some supplied name that translates to it
            "forall_keys(lambda p: p not in result or any(build_reverse_rename_map(self._rename_history, 'inputs').get(k, k) == p and result[p] is inputs[k] for k in inputs), result)",
        ],
        modifies=[],
    ),
    GN + "GraphNode._original_map_params": dict(
        props=["C06", "C10"],
        params={"self": OBJ("GraphNode")},
        returns=OPT(SEQ(STR)),
        imports=BRM,
        ensures=[
            "(result is None) == (self._map_over is None)",
            "self._map_over is None or len(result) == len(self._map_over)",
            "self._map_over is None or all(result[i] == build_reverse_rename_map(self._rename_history, 'inputs').get(self._map_over[i], self._map_over[i]) for i in range(len(self._map_over)))",
        ],
        modifies=[],
    ),
    CM + "CallableMixin.map_inputs_to_params": dict(
        props=["C06"],
        params={"self": OBJ("FunctionNode"), "inputs": DICT(STR, ANY)},
        returns=DICT(STR, ANY),
        imports=BRM,
        ensures=[
            "all(build_reverse_rename_map(self._rename_history, 'inputs').get(k, k) in result for k in inputs)",
            "forall_keys(lambda p: p not in result or any(build_reverse_rename_map(self._rename_history, 'inputs').get(k, k) == p and result[p] is inputs[k] for k in inputs), result)",
        ],
        modifies=[],
    ),
}
