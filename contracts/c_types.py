"""Sidecar contracts: runners/_shared/types.py (GraphState data-structure contract)."""
# ruff: noqa
from pyvc.values import ANY, STR, INT, BOOL, NONE_T, SEQ, DICT, SET, OBJ, OPT, FIXTUP

F = "runners/_shared/types.py:"
STATE = OBJ("GraphState")

CONTRACTS = {
    F + "GraphState.get_version": dict(
        props=["C01", "C04", "C17"],
        params={"self": STATE, "name": STR},
        returns=INT,
        ensures=["result == self.versions.get(name, 0)"],
        mustfail="result == self.versions.get(name, 1)",
    ),
}

SAME_EXCEPT = ("forall_keys(lambda k: k == name or ((k in self.{d}) == old(k in self.{d}) and (k not in self.{d} or self.{d}[k] is old(self.{d}.get(k)))), self.{d})")

CONTRACTS.update({
    F + "GraphState.update_value": dict(
        props=["C01", "C02", "C04", "C17"],
        params={"self": STATE, "name": STR, "value": ANY},
        returns=NONE_T,
        imports={"_EMIT_SENTINEL": "hypergraph.nodes.base"},
        ensures=[
            "name in self.values and self.values[name] is value",
            SAME_EXCEPT.format(d="values"),
            "forall_keys(lambda k: k == name or ver(self, k) == old(ver(self, k)), self.versions)",
            "ver(self, name) == old(ver(self, name)) or ver(self, name) == old(ver(self, name)) + 1",
            # C17-live / C04: a new name, and every (re-)emission of an ordering signal, advances the version
            "not (old(name not in self.values) or value is _EMIT_SENTINEL) or ver(self, name) == old(ver(self, name)) + 1",
            # an identical re-production of a data value leaves the version alone (no spurious staleness)
            "not (old(name in self.values) and value is old(self.values.get(name)) and value is not _EMIT_SENTINEL) or ver(self, name) == old(ver(self, name))",
        ],
        modifies=["self.values", "self.versions"],
        mustfail="not (value is _EMIT_SENTINEL) or ver(self, name) == old(ver(self, name))",
    ),
})
