"""Sidecar contracts: runners/_shared/types.py (GraphState data-structure contract)."""
# ruff: noqa
from pyvc.values import ANY, STR, INT, BOOL, NONE_T, SEQ, DICT, SET, OBJ, OPT, FIXTUP

F = "runners/_shared/types.py:"
STATE = OBJ("GraphState")

CONTRACTS = {
    F + "GraphState.get_version": dict(
        props=["C01", "C04", "C17"],
        params={"self": STATE, "name": STR},
        returns=INT,
        ensures=["result == self.versions.get(name, 0)"],
        mustfail="result == self.versions.get(name, 1)",
    ),
}
