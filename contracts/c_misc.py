"""Sidecar contracts: input normalisation (C18), gate control map (C03), map result collection (C10), input-spec helpers (C08)."""
# ruff: noqa
from pyvc.values import ANY, STR, INT, BOOL, NONE_T, SEQ, DICT, SET, OBJ, OPT, FIXTUP

N = "runners/_shared/input_normalization.py:"
G = "graph/core.py:Graph."
H = "runners/_shared/helpers.py:"
IS = "graph/input_spec.py:"

UNION = "forall_keys(lambda k: (k in result) == (k in values or k in input_kwargs) and (k not in values or result[k] is values[k]) and (k not in input_kwargs or result[k] is input_kwargs[k]), values, input_kwargs, result)"

CONTRACTS = {
    N + "merge_with_duplicate_check": dict(
        props=["C18"],
        params={"values": DICT(STR, ANY), "input_kwargs": DICT(STR, ANY)},
        returns=DICT(STR, ANY),
        ensures=[UNION, "result is not values and result is not input_kwargs"],
        fresh=["result"],  # a new mapping: never one the caller already holds
        raises={"ValueError": "any(k in input_kwargs for k in values)"},
        modifies=[],
        mustfail="result is values",
    ),
    N + "normalize_inputs": dict(
        props=["C18"],
        params={"values": OPT(DICT(STR, ANY)), "input_kwargs": DICT(STR, ANY), "reserved_option_names": OPT(SET(STR))},
        returns=DICT(STR, ANY),
        ensures=[
            # a fresh dict: the caller's mapping is never handed on, never modified
            "result is not values and result is not input_kwargs",
            "values is None or forall_keys(lambda k: (k not in values) or (k in result and result[k] is values[k]), values)",
            "forall_keys(lambda k: (k not in input_kwargs) or (k in result and result[k] is input_kwargs[k]), input_kwargs)",
            "forall_keys(lambda k: (k not in result) or (values is not None and k in values) or k in input_kwargs, result)",
        ],
        may_raise={"ValueError": True},
        modifies=[],
        mustfail="result is values",
    ),
    G + "_compute_controlled_by": dict(
        props=["C03"],
        params={"self": OBJ("Graph")},
        returns=DICT(STR, SEQ(STR)),
        requires=["nodes_keyed_by_name(self)"],
        imports={"END": "hypergraph.nodes.gate"},
        ensures=[
            # every recorded controller g of n is a gate of this graph with n among its targets, and n is a node
            "forall_keys(lambda n: n not in result or all(g in self._nodes and is_gate(self._nodes[g]) and n in self._nodes[g].targets and n in self._nodes for g in result[n]), result)",
            # and every gate is recorded for each of its targets that is a node
            "all(not is_gate(gn) or all(t is END or t not in self._nodes or (t in result and gn.name in result[t]) for t in gn.targets) for gn in self._nodes.values())",
        ],
        modifies=[],
        loops=[
            # the body appends to lists created by this call (values of the local map): frame "non-entry"
            {"modifies": "non-entry", "invariant": ["forall_keys(lambda n: n not in controlled_by or all(g in self._nodes and is_gate(self._nodes[g]) and n in self._nodes[g].targets and n in self._nodes for g in controlled_by[n]), controlled_by)", "all(not is_gate(gn) or all(t is END or t not in self._nodes or (t in controlled_by and gn.name in controlled_by[t]) for t in gn.targets) for gn in _seq[:_i])", "forall_keys(lambda n: n not in controlled_by or is_new(controlled_by[n]), controlled_by)", "forall_keys(lambda a: forall_keys(lambda b: a not in controlled_by or b not in controlled_by or a == b or controlled_by[a] is not controlled_by[b], controlled_by), controlled_by)", "is_new(controlled_by)"]},
            {"modifies": "non-entry", "invariant": ["forall_keys(lambda n: n not in controlled_by or all(g in self._nodes and is_gate(self._nodes[g]) and n in self._nodes[g].targets and n in self._nodes for g in controlled_by[n]), controlled_by)", "all(not is_gate(gn) or all(t is END or t not in self._nodes or (t in controlled_by and gn.name in controlled_by[t]) for t in gn.targets) for gn in _seq0[:_i0])", "forall_keys(lambda n: n not in controlled_by or is_new(controlled_by[n]), controlled_by)", "forall_keys(lambda a: forall_keys(lambda b: a not in controlled_by or b not in controlled_by or a == b or controlled_by[a] is not controlled_by[b], controlled_by), controlled_by)", "is_new(controlled_by)", "is_gate(node)",
                                                    "all(t is END or t not in self._nodes or (t in controlled_by and node.name in controlled_by[t]) for t in _seq[:_i])"]},
        ],
        mustfail="forall_keys(lambda n: n not in result or len(result[n]) == 1, result)",
    ),
    IS + "_categorize_param": dict(
        props=["C08"],
        params={"param": STR, "edge_produced": SET(STR), "bound": DICT(STR, ANY), "nodes": DICT(STR, OBJ("HyperNode"))},
        returns=OPT(STR),
        ensures=[
            "(result is None) == (param in edge_produced)",
            "(result == 'required') == (param not in edge_produced and param not in bound and not any_default(param, nodes))",
            "(result == 'optional') == (param not in edge_produced and (param in bound or any_default(param, nodes)))",
        ],
        mustfail="(result == 'required') == (param not in edge_produced and param not in bound)",
    ),
    IS + "_any_node_has_default": dict(
        props=["C08"],
        params={"param": STR, "nodes": DICT(STR, OBJ("HyperNode"))},
        returns=BOOL,
        ensures=["result == any_default(param, nodes)"],
        mustfail="result == (not any_default(param, nodes))",
    ),
    IS + "_unique_params": dict(
        props=["C08"],
        generator=True,
        params={"nodes": DICT(STR, OBJ("HyperNode"))},
        returns=SEQ(STR),
        ensures=[
            # every parameter of every node is yielded, nothing else, nothing twice
            "all(all(p in result for p in n.inputs) for n in nodes.values())",
            "all(any(x in n.inputs for n in nodes.values()) for x in result)",
            "all(result[i] != result[j] for i in range(len(result)) for j in range(len(result)) if i != j)",
        ],
        modifies=[],
        loops=[
            {"modifies": "non-entry", "invariant": [
                "all(all(p in _yield for p in n.inputs) for n in _seq[:_i])", "all(any(x in n.inputs for n in _seq[:_i]) for x in _yield)",
                "all(_yield[i] != _yield[j] for i in range(len(_yield)) for j in range(len(_yield)) if i != j)",
                "all(x in seen for x in _yield)", "all(x in _yield for x in seen)"]},
            {"modifies": "non-entry", "invariant": [
                "all(all(p in _yield for p in n.inputs) for n in _seq0[:_i0])", "all(p in _yield for p in _seq[:_i])",
                "all(any(x in n.inputs for n in _seq0[:_i0 + 1]) for x in _yield)",
                "all(_yield[i] != _yield[j] for i in range(len(_yield)) for j in range(len(_yield)) if i != j)",
                "all(x in seen for x in _yield)", "all(x in _yield for x in seen)"]},
        ],
    ),
    IS + "compute_input_spec": dict(
        props=["C08"],
        params={"nodes": DICT(STR, OBJ("HyperNode")), "nx_graph": ANY, "bound": DICT(STR, ANY), "entrypoints": ANY, "selected": ANY, "_active_scope": ANY},
        returns=OBJ("InputSpec"),
        requires=["_active_scope is None"],   # the path of Graph.inputs; the runners pass a pre-computed scope of the same shape
        may_raise={"Exception": True},
        call_site="opaque",
        # EXACTNESS of the reported spec (ghosts: the active node map, the edge-produced names and the cycle entry points computed
        # inside): a parameter of an active node is reported required exactly when nothing can supply it, optional exactly when a
        # binding or a default can, and not at all when an edge produces it or a cycle entry point covers it
        ensures=[
            "all(p not in _ret_get_edge_produced_values and p not in bound and not any_default(p, _ret_compute_active_scope[0]) for p in result.required)",
            "all(p not in _ret_get_edge_produced_values and (p in bound or any_default(p, _ret_compute_active_scope[0])) for p in result.optional)",
            "all(all(p in result.required or p in result.optional or p in _ret_get_edge_produced_values or any(p in ps for ps in _ret_compute_entrypoints.values()) for p in n.inputs) for n in _ret_compute_active_scope[0].values())",
            "all(any(p in n.inputs for n in _ret_compute_active_scope[0].values()) for p in result.required)",
        ],
        loops=[{"modifies": ["required", "optional"], "invariant": [
            "all(p not in edge_produced and p not in bound and not any_default(p, active_nodes) for p in required)",
            "all(p not in edge_produced and (p in bound or any_default(p, active_nodes)) for p in optional)",
            "all(p in required or p in optional or p in edge_produced or p in all_entry_params for p in _seq[:_i])",
            "all(p in _seq[:_i] for p in required)"]}],
    ),
}
