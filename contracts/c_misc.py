"""Sidecar contracts: input normalisation (C18), gate control map (C03), map result collection (C10), input-spec helpers (C08)."""
# ruff: noqa
from pyvc.values import ANY, STR, INT, BOOL, NONE_T, SEQ, DICT, SET, OBJ, OPT, FIXTUP

N = "runners/_shared/input_normalization.py:"
G = "graph/core.py:Graph."
H = "runners/_shared/helpers.py:"
IS = "graph/input_spec.py:"

UNION = "forall_keys(lambda k: (k in result) == (k in values or k in input_kwargs) and (k not in values or result[k] is values[k]) and (k not in input_kwargs or result[k] is input_kwargs[k]), values, input_kwargs, result)"

CONTRACTS = {
    N + "merge_with_duplicate_check": dict(
        props=["C18"],
        params={"values": DICT(STR, ANY), "input_kwargs": DICT(STR, ANY)},
        returns=DICT(STR, ANY),
        ensures=[UNION, "result is not values and result is not input_kwargs"],
        fresh=["result"],  # a new mapping: never one the caller already holds
        raises={"ValueError": "any(k in input_kwargs for k in values)"},
        modifies=[],
        mustfail="result is values",
    ),
    N + "normalize_inputs": dict(
        props=["C18"],
        params={"values": OPT(DICT(STR, ANY)), "input_kwargs": DICT(STR, ANY), "reserved_option_names": OPT(SET(STR))},
        returns=DICT(STR, ANY),
        ensures=[
            # a fresh dict: the caller's mapping is never handed on, never modified
            "result is not values and result is not input_kwargs",
            "values is None or forall_keys(lambda k: (k not in values) or (k in result and result[k] is values[k]), values)",
            "forall_keys(lambda k: (k not in input_kwargs) or (k in result and result[k] is input_kwargs[k]), input_kwargs)",
            "forall_keys(lambda k: (k not in result) or (values is not None and k in values) or k in input_kwargs, result)",
        ],
        may_raise={"ValueError": True},
        modifies=[],
        mustfail="result is values",
    ),
    G + "_compute_controlled_by": dict(
        props=["C03"],
        params={"self": OBJ("Graph")},
        returns=DICT(STR, SEQ(STR)),
        requires=["nodes_keyed_by_name(self)"],
        imports={"END": "hypergraph.nodes.gate"},
        ensures=[
            # gamma controls n  <=>  gamma is a gate of this graph, n is one of its targets and n is a node
            "forall_keys(lambda n: all(g in self._nodes and is_gate(self._nodes[g]) and n in self._nodes[g].targets and n in self._nodes for g in (result[n] if n in result else [])), result)",
            "forall_keys(lambda g: g not in self._nodes or not is_gate(self._nodes[g]) or all(t is END or t not in self._nodes or (t in result and g in result[t]) for t in self._nodes[g].targets), self._nodes)",
        ],
        modifies=[],
        loops=[
            {"invariant": [
                "forall_keys(lambda n: all(g in self._nodes and is_gate(self._nodes[g]) and n in self._nodes[g].targets and n in self._nodes for g in (controlled_by[n] if n in controlled_by else [])), controlled_by)",
                "forall_keys(lambda g: g not in _keys[:_i] or not is_gate(self._nodes[g]) or all(t is END or t not in self._nodes or (t in controlled_by and g in controlled_by[t]) for t in self._nodes[g].targets), self._nodes)",
            ]},
            {"invariant": [
                "forall_keys(lambda n: all(g in self._nodes and is_gate(self._nodes[g]) and n in self._nodes[g].targets and n in self._nodes for g in (controlled_by[n] if n in controlled_by else [])), controlled_by)",
                "forall_keys(lambda g: g not in _keys0[:_i0] or not is_gate(self._nodes[g]) or all(t is END or t not in self._nodes or (t in controlled_by and g in controlled_by[t]) for t in self._nodes[g].targets), self._nodes)",
                "all(t is END or t not in self._nodes or (t in controlled_by and node.name in controlled_by[t]) for t in _seq[:_i])",
            ]},
        ],
        mustfail="len(result) == 0",
    ),
    IS + "_categorize_param": dict(
        props=["C08"],
        params={"param": STR, "edge_produced": SET(STR), "bound": DICT(STR, ANY), "nodes": DICT(STR, OBJ("HyperNode"))},
        returns=OPT(STR),
        ensures=[
            "(result is None) == (param in edge_produced)",
            "(result == 'required') == (param not in edge_produced and param not in bound and not any_default(param, nodes))",
            "(result == 'optional') == (param not in edge_produced and (param in bound or any_default(param, nodes)))",
        ],
        mustfail="(result == 'required') == (param not in edge_produced and param not in bound)",
    ),
    IS + "_any_node_has_default": dict(
        props=["C08"],
        params={"param": STR, "nodes": DICT(STR, OBJ("HyperNode"))},
        returns=BOOL,
        ensures=["result == any_default(param, nodes)"],
        mustfail="result == (not any_default(param, nodes))",
    ),
}
