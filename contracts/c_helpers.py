"""Sidecar contracts: runners/_shared/helpers.py (scheduler predicates, value resolution)."""
# ruff: noqa
from pyvc.values import ANY, STR, INT, BOOL, NONE_T, SEQ, DICT, SET, OBJ, OPT, FIXTUP

F = "runners/_shared/helpers.py:"
NODE, GRAPH, STATE = OBJ("HyperNode"), OBJ("Graph"), OBJ("GraphState")

CONTRACTS = {
    F + "_has_input": dict(
        props=["C01", "C08"],
        params={"param": STR, "node": NODE, "graph": GRAPH, "state": STATE},
        returns=BOOL,
        ensures=["result == avail(graph, state, node, param)"],
        mustfail="result == (param in state.values or bool(node.has_default_for(param)))",
    ),
    F + "_has_all_inputs": dict(
        props=["C01"],
        params={"node": NODE, "graph": GRAPH, "state": STATE},
        returns=BOOL,
        ensures=["result == all_avail(graph, state, node)"],
        mustfail="result == any(avail(graph, state, node, p) for p in node.inputs)",
    ),
    F + "_is_controlled_by_gate": dict(
        props=["C03", "C04"],
        params={"node": NODE, "graph": GRAPH},
        returns=BOOL,
        ensures=["result == gated(graph, node)"],
        mustfail="result == (not gated(graph, node))",
    ),
    F + "_is_stale": dict(
        props=["C01", "C04"],
        params={"node": NODE, "graph": GRAPH, "state": STATE, "last_exec": OBJ("NodeExecution")},
        returns=BOOL,
        ensures=["result == stale(graph, state, node, last_exec)"],
        loops=[{"invariant": [
            "not any(not (not gated(graph, node) and node.name in graph.self_producers.get(p, set())) and ver(state, p) != last_exec.input_versions.get(p, 0) for p in _seq[:_i])",
        ]}],
        mustfail="result == (not stale(graph, state, node, last_exec))",
    ),
    F + "_needs_execution": dict(
        props=["C01", "C04"],
        params={"node": NODE, "graph": GRAPH, "state": STATE},
        returns=BOOL,
        ensures=["result == needs(graph, state, node)"],
        mustfail="result == (node.name not in state.node_executions)",
    ),
    F + "_wait_for_satisfied": dict(
        props=["C17"],
        params={"node": NODE, "state": STATE},
        returns=BOOL,
        ensures=["result == wf_ok(state, node)"],
        loops=[{"invariant": [
            "all(w in state.values and (node.name not in state.node_executions or ver(state, w) > state.node_executions[node.name].wait_for_versions.get(w, 0)) for w in _seq[:_i])",
        ]}],
        mustfail="result == all(w in state.values for w in node.wait_for)",
    ),
    F + "_is_node_activated_by_decision": dict(
        props=["C03"],
        params={"node_name": STR, "decision": ANY},
        returns=BOOL,
        ensures=["result == names(decision, node_name, END)"],
        imports={"END": "hypergraph.nodes.gate"},
        mustfail="result == (decision is not None and ((node_name in decision) if isinstance(decision, list) else decision == node_name))",
    ),
}
