"""Sidecar contracts: runners/_shared/helpers.py (scheduler predicates, value resolution)."""
# ruff: noqa
from pyvc.values import ANY, STR, INT, BOOL, NONE_T, SEQ, DICT, SET, OBJ, OPT, FIXTUP

F = "runners/_shared/helpers.py:"
NODE, GRAPH, STATE = OBJ("HyperNode"), OBJ("Graph"), OBJ("GraphState")

CONTRACTS = {
    F + "_has_input": dict(
        props=["C01", "C08"],
        params={"param": STR, "node": NODE, "graph": GRAPH, "state": STATE},
        returns=BOOL,
        ensures=["result == avail(graph, state, node, param)"],
        mustfail="result == (param in state.values or bool(node.has_default_for(param)))",
    ),
    F + "_has_all_inputs": dict(
        props=["C01"],
        params={"node": NODE, "graph": GRAPH, "state": STATE},
        returns=BOOL,
        ensures=["result == all_avail(graph, state, node)"],
        mustfail="result == any(avail(graph, state, node, p) for p in node.inputs)",
    ),
    F + "_is_controlled_by_gate": dict(
        props=["C03", "C04"],
        params={"node": NODE, "graph": GRAPH},
        returns=BOOL,
        ensures=["result == gated(graph, node)"],
        mustfail="result == (not gated(graph, node))",
    ),
    F + "_is_stale": dict(
        props=["C01", "C04"],
        params={"node": NODE, "graph": GRAPH, "state": STATE, "last_exec": OBJ("NodeExecution")},
        returns=BOOL,
        ensures=["result == stale(graph, state, node, last_exec)"],
        loops=[{"invariant": [
            "not any(not (not gated(graph, node) and p in graph.self_producers and node.name in graph.self_producers[p]) and ver(state, p) != last_exec.input_versions.get(p, 0) for p in _seq[:_i])",
        ]}],
        mustfail="result == (not stale(graph, state, node, last_exec))",
    ),
    F + "_needs_execution": dict(
        props=["C01", "C04"],
        params={"node": NODE, "graph": GRAPH, "state": STATE},
        returns=BOOL,
        ensures=["result == needs(graph, state, node)"],
        mustfail="result == (node.name not in state.node_executions)",
    ),
    F + "_wait_for_satisfied": dict(
        props=["C17"],
        params={"node": NODE, "state": STATE},
        returns=BOOL,
        ensures=["result == wf_ok(state, node)"],
        loops=[{"invariant": [
            "all(w in state.values and (node.name not in state.node_executions or ver(state, w) > state.node_executions[node.name].wait_for_versions.get(w, 0)) for w in _seq[:_i])",
        ]}],
        mustfail="result == all(w in state.values for w in node.wait_for)",
    ),
    F + "_is_node_activated_by_decision": dict(
        props=["C03"],
        params={"node_name": STR, "decision": ANY},
        returns=BOOL,
        ensures=["result == names(decision, node_name, END)"],
        imports={"END": "hypergraph.nodes.gate"},
        mustfail="result == (decision is not END and decision is not None)",
    ),
}

CONTRACTS.update({
    F + "get_value_source": dict(
        props=["C01", "C05", "C18"],
        params={"param": STR, "node": NODE, "graph": GRAPH, "state": STATE, "provided_values": DICT(STR, ANY)},
        returns=FIXTUP(ANY, ANY),
        # call-site precondition (DESIGN 2.3): initialize_state seeds every provided value into state.values
        requires=["all(k in state.values for k in provided_values)"],
        ensures=[
            "src_defined(graph, state, node, param)",
            "result[0] is src_kind(graph, state, node, param, ValueSource)",
            "result[1] is src_value(graph, state, node, param)",
        ],
        raises={"KeyError": "not src_defined(graph, state, node, param)"},
        mustfail="result[0] is (ValueSource.DEFAULT if node.has_signature_default_for(param) else src_kind(graph, state, node, param, ValueSource))",
    ),
})

CONTRACTS.update({
    F + "_safe_deepcopy": dict(
        props=["C18"],
        params={"value": ANY, "param_name": STR},
        returns=ANY,
        ensures=["is_deepcopy(result, value)"],
        may_raise={"GraphConfigError": True},
        mustfail="result is value",
    ),
    F + "_resolve_input": dict(
        props=["C01", "C18"],
        params={"param": STR, "node": NODE, "graph": GRAPH, "state": STATE, "provided_values": DICT(STR, ANY)},
        returns=ANY,
        requires=["all(k in state.values for k in provided_values)"],
        ensures=["resolved_ok(result, graph, state, node, param, ValueSource)"],
        raises={"KeyError": "not src_defined(graph, state, node, param)"},
        may_raise={"GraphConfigError": "src_kind(graph, state, node, param, ValueSource) is ValueSource.DEFAULT"},
        mustfail="result is src_value(graph, state, node, param)",
    ),
    F + "collect_inputs_for_node": dict(
        props=["C01", "C02", "C18"],
        params={"node": NODE, "graph": GRAPH, "state": STATE, "provided_values": DICT(STR, ANY)},
        returns=DICT(STR, ANY),
        requires=["all(k in state.values for k in provided_values)", "all(src_defined(graph, state, node, p) for p in node.inputs)"],
        imports={"GraphNode": "hypergraph.nodes.graph_node"},
        ensures=[
            # every input is handed over, except that a NESTED graph is not handed the signature defaults of its own nodes:
            # it resolves them itself, one copy per inner consumer (C05: exactly like the inlined nodes)
            "all((p in result) == (not passes_down_default(graph, state, node, p, ValueSource, GraphNode)) for p in node.inputs)",
            "all(k in node.inputs for k in result)",
            "all(p not in result or resolved_ok(result[p], graph, state, node, p, ValueSource) for p in node.inputs)",
        ],
        may_raise={"GraphConfigError": True},
        modifies=[],
        loops=[{"invariant": [
            "all((p in inputs) == (not passes_down_default(graph, state, node, p, ValueSource, GraphNode)) for p in _seq[:_i])",
            "all(k in _seq[:_i] for k in inputs)",
            "all(p not in inputs or resolved_ok(inputs[p], graph, state, node, p, ValueSource) for p in _seq[:_i])",
        ]}],
        mustfail="all(p not in result or result[p] is src_value(graph, state, node, p) for p in node.inputs)",
    ),
})

CONTRACTS.update({
    F + "_clear_stale_gate_decisions": dict(
        props=["C03", "C04"],
        params={"graph": GRAPH, "state": STATE},
        returns=NONE_T,
        requires=["nodes_keyed_by_name(graph)"],
        ensures=[
            "forall_keys(lambda k: (k in state.routing_decisions) == (old(k in state.routing_decisions) and not old(clears(graph, state, k, END))), old(dict(state.routing_decisions)), graph._nodes)",
            "forall_keys(lambda k: (k not in state.routing_decisions) or state.routing_decisions[k] is old(state.routing_decisions.get(k)), state.routing_decisions)",
        ],
        modifies=["state.routing_decisions"],
        imports={"END": "hypergraph.nodes.gate"},
        loops=[{"invariant": [
            "forall_keys(lambda k: (k in state.routing_decisions) == (old(k in state.routing_decisions) and not (old(clears(graph, state, k, END)) and k in _keys[:_i])), old(dict(state.routing_decisions)), graph._nodes)",
            "forall_keys(lambda k: (k not in state.routing_decisions) or state.routing_decisions[k] is old(state.routing_decisions.get(k)), state.routing_decisions)",
        ]}],
        mustfail="forall_keys(lambda k: (k in state.routing_decisions) == old(k in state.routing_decisions), state.routing_decisions)",
    ),
})

CLEAR_POST = [
    "forall_keys(lambda k: (k in state.routing_decisions) == (old(k in state.routing_decisions) and not old(clears(graph, state, k, END))), old(dict(state.routing_decisions)), graph._nodes)",
    "forall_keys(lambda k: (k not in state.routing_decisions) or state.routing_decisions[k] is old(state.routing_decisions.get(k)), state.routing_decisions)",
]

CONTRACTS.update({
    F + "_get_activated_nodes": dict(
        props=["C03"],
        params={"graph": GRAPH, "state": STATE},
        returns=SET(STR),
        requires=["nodes_keyed_by_name(graph)"],
        ensures=CLEAR_POST + [
            "all((n in result) == node_activated(graph, state, n, END) for n in graph._nodes)",
            "all(n in graph._nodes for n in result)",
        ],
        modifies=["state.routing_decisions"],
        imports={"END": "hypergraph.nodes.gate"},
        fresh_result=True,
        loops=[
            {"invariant": [
                "all((n in activated) == node_activated(graph, state, n, END) for n in _seq[:_i])",
                "all(n in _seq[:_i] for n in activated)",
            ]},
            {"invariant": [
                "all((n in activated) == node_activated(graph, state, n, END) for n in _seq0[:_i0])",
                "all(n in _seq0[:_i0] for n in activated)",
                "not any(gate_opens(graph, state, g, node_name, END) for g in _seq[:_i])",
            ]},
        ],
        mustfail="all((n in result) == (not gated_name(graph, n)) for n in graph._nodes)",
    ),
})

CONTRACTS.update({
    F + "wrap_outputs": dict(
        props=["C01", "C17"],
        params={"node": NODE, "result": ANY},
        returns=DICT(STR, ANY),
        # object-model fact: data outputs are the leading outputs (FunctionNode.data_outputs = outputs[:len-len(emit)])
        requires=["len(node.data_outputs) <= len(node.outputs)", "all(node.outputs[i] == node.data_outputs[i] for i in range(len(node.data_outputs)))",
                  "distinct_names(node.outputs)"],
        ensures=[
            "all(k in node.outputs for k in result)",
            "all(o in result for o in node.data_outputs)",
            "all(o in result and result[o] is _EMIT_SENTINEL for o in node.outputs[len(node.data_outputs):])",
            "len(node.data_outputs) != 1 or result[node.data_outputs[0]] is old(result)",
            "len(node.data_outputs) < 2 or all(result[node.data_outputs[i]] is old(result)[i] for i in range(len(node.data_outputs)))",
        ],
        raises={"ValueError": "len(node.data_outputs) >= 2 and len(node.data_outputs) != len(result)"},
        imports={"_EMIT_SENTINEL": "hypergraph.nodes.base"},
        loops=[{"invariant": [
            "all(k in node.outputs for k in wrapped)",
            "all(o in wrapped for o in node.data_outputs)",
            "all(o in wrapped and wrapped[o] is _EMIT_SENTINEL for o in _seq[:_i])",
            "len(node.data_outputs) != 1 or wrapped[node.data_outputs[0]] is result",
            "len(node.data_outputs) < 2 or all(wrapped[node.data_outputs[i]] is result[i] for i in range(len(node.data_outputs)))",
        ]}],
        mustfail="len(node.data_outputs) < 2 or all(result[node.data_outputs[i]] is old(result)[len(node.data_outputs) - 1 - i] for i in range(len(node.data_outputs)))",
    ),
})

SENT = {"_EMIT_SENTINEL": "hypergraph.nodes.base"}

CONTRACTS.update({
    F + "initialize_state": dict(
        props=["C01", "C18"],
        params={"graph": GRAPH, "values": DICT(STR, ANY)},
        returns=STATE,
        ensures=[
            "forall_keys(lambda k: (k in result.values) == (k in values) and (k not in values or result.values[k] is values[k]), values, result.values)",
            "forall_keys(lambda k: (k in values) == (ver(result, k) == 1) and (k in values or ver(result, k) == 0), values)",
            "len(result.node_executions) == 0 and len(result.routing_decisions) == 0",
        ],
        modifies=[],
        loops=[{"invariant": [
            "forall_keys(lambda k: (k in state.values) == (k in _keys[:_i]) and (k not in state.values or state.values[k] is values[k]), values)",
            "forall_keys(lambda k: (k in _keys[:_i]) == (ver(state, k) == 1) and (k in _keys[:_i] or ver(state, k) == 0), values)",
            "len(state.node_executions) == 0 and len(state.routing_decisions) == 0",
        ]}],
        mustfail="forall_keys(lambda k: ver(result, k) == 0, values)",
    ),
    F + "_resolve_select": dict(
        props=["C16"],
        params={"select": ANY, "graph": GRAPH},
        returns=ANY,
        ensures=["select is _UNSET_SELECT or result is select",
                 "select is not _UNSET_SELECT or graph.selected is not None or result == '**'",
                 "select is not _UNSET_SELECT or graph.selected is None or (isinstance(result, list) and len(result) == len(graph.selected) and all(result[i] is graph.selected[i] for i in range(len(graph.selected))))"],
        mustfail="result is select",
    ),
    F + "_collect_all_outputs": dict(
        props=["C16"],
        params={"state": STATE, "graph": GRAPH, "sentinel": ANY},
        returns=DICT(STR, ANY),
        ensures=[
            "all(k in graph.outputs and k in state.values and state.values[k] is not sentinel and result[k] is state.values[k] for k in result)",
            "all((k in result) == (k in state.values and state.values[k] is not sentinel) for k in graph.outputs)",
        ],
        modifies=[],
        mustfail="all((k in result) == (k in state.values) for k in graph.outputs)",
    ),
    F + "_handle_missing_outputs": dict(
        props=["C16"],
        params={"missing": SEQ(STR), "state": STATE, "sentinel": ANY, "on_missing": STR},
        returns=NONE_T,
        raises={"ValueError": "on_missing not in ('ignore', 'warn') "},
        trace=[{"name": "warn is emitted exactly when on_missing == 'warn' (one UserWarning)", "check": lambda tr, out, *a: True}],
        modifies=[],
    ),
    F + "_collect_selected_outputs": dict(
        props=["C16"],
        params={"state": STATE, "names": SEQ(STR), "sentinel": ANY, "on_missing": STR},
        returns=DICT(STR, ANY),
        ensures=[
            "all(k in names and k in state.values and state.values[k] is not sentinel and result[k] is state.values[k] for k in result)",
            "all((k in result) == (k in state.values and state.values[k] is not sentinel) for k in names)",
        ],
        raises={"ValueError": "on_missing not in ('ignore', 'warn') and any(k not in state.values for k in names)"},
        modifies=[],
        loops=[{"invariant": [
            "all(k in _seq[:_i] and k in state.values and state.values[k] is not sentinel and result[k] is state.values[k] for k in result)",
            "all((k in result) == (k in state.values and state.values[k] is not sentinel) for k in _seq[:_i])",
            "(len(missing) > 0) == any(k not in state.values for k in _seq[:_i])",
        ]}],
        mustfail="all((k in result) == (k in state.values) for k in names)",
    ),
    F + "filter_outputs": dict(
        props=["C16"],
        params={"state": STATE, "graph": GRAPH, "select": ANY, "on_missing": STR},
        returns=DICT(STR, ANY),
        ensures=[
            # never an ordering sentinel, always the value held by the state
            "all(k in state.values and state.values[k] is not _EMIT_SENTINEL and result[k] is state.values[k] for k in result)",
            # only names of the effective selection: run-time select overrides the graph default, '**' = declared outputs
            "all(in_effective_selection(k, select, graph, _UNSET_SELECT) for k in result)",
        ],
        may_raise={"ValueError": "on_missing not in ('ignore', 'warn')"},
        imports=SENT,
        modifies=[],
        mustfail="all(k in graph.outputs for k in result)",
    ),
})

CONTRACTS.update({
    F + "_is_node_ready": dict(
        props=["C01", "C03", "C17"],
        params={"node": NODE, "graph": GRAPH, "state": STATE, "activated_nodes": SET(STR)},
        returns=BOOL,
        ensures=["result == ready0(graph, state, node, activated_nodes)"],
        mustfail="result == (node.name in activated_nodes and all_avail(graph, state, node) and needs(graph, state, node))",
    ),
    F + "_defer_wait_for_nodes": dict(
        props=["C17"],
        params={"ready": SEQ(NODE), "graph": GRAPH},
        returns=SEQ(NODE),
        ensures=[
            "all(any(m is n for m in ready) and not is_deferred(ready, n) for n in result)",
            "all(is_deferred(ready, n) or any(m is n for m in result) for n in ready)",
        ],
        modifies=[],
        loops=[
            {"invariant": ["forall_keys(lambda k: (k in ready_outputs) == any(k in m.outputs for m in _seq[:_i]), ready_outputs)"]},
            {"invariant": [
                "forall_keys(lambda k: (k in ready_outputs) == any(k in m.outputs for m in ready), ready_outputs)",
                "all((n.name in deferred) == is_deferred(ready, n) for n in _seq[:_i])",
                "forall_keys(lambda k: k not in deferred or any(n.name == k for n in _seq[:_i]), deferred)",
            ]},
            {"invariant": [
                "forall_keys(lambda k: (k in ready_outputs) == any(k in m.outputs for m in ready), ready_outputs)",
                "all((n.name in deferred) == is_deferred(ready, n) for n in _seq1[:_i1])",
                "forall_keys(lambda k: k not in deferred or any(n.name == k for n in _seq1[:_i1]), deferred)",
                "not any(w in m.outputs and m.name != node.name for w in _seq[:_i] for m in ready)",
                "node.name not in deferred",
            ]},
            {"invariant": [
                "forall_keys(lambda k: (k in ready_outputs) == any(k in m.outputs for m in ready), ready_outputs)",
                "all((n.name in deferred) == is_deferred(ready, n) for n in _seq1[:_i1])",
                "forall_keys(lambda k: k not in deferred or any(n.name == k for n in _seq1[:_i1]), deferred)",
                "not any(w in m.outputs and m.name != node.name for w in _seq2[:_i2] for m in ready)",
                "not any(name in m.outputs and m.name != node.name for m in _seq[:_i])",
                "node.name not in deferred",
            ]},
        ],
        requires=["all(ready[i].name != ready[j].name for i in range(len(ready)) for j in range(len(ready)) if i != j)"],
        mustfail="all(any(m is n for m in result) for n in ready)",
    ),
})

# Readiness, stated on the graph's OWN node object of that name (an entry-state object for the verifier: reads through
# the lists built inside the function then simplify); `graph._nodes[n.name] is n` for every returned node is a clause of
# its own, so the conjunction says the same as the statement on n itself.
NN = "graph._nodes[n.name]"
READY_P = ("in_scope(n, active_nodes) and node_activated(graph, state, n.name, END) and all_avail(graph, state, " + NN + ") "
           "and wf_ok(state, " + NN + ") and needs(graph, state, " + NN + ")")
OWN = "all(n.name in graph._nodes and graph._nodes[n.name] is n for n in {})"
DISTINCT = "all({0}[i].name != {0}[j].name for i in range(len({0})) for j in range(len({0})) if i != j)"

CONTRACTS.update({
    F + "get_ready_nodes": dict(
        props=["C01", "C03", "C16", "C17"],
        params={"graph": GRAPH, "state": STATE, "active_nodes": OPT(SET(STR))},
        returns=SEQ(NODE),
        requires=["nodes_keyed_by_name(graph)", "gates_wellformed(graph, END)"],
        imports={"END": "hypergraph.nodes.gate"},
        ensures=CLEAR_POST + [
            # the returned nodes are nodes of this graph, each at most once
            OWN.format("result"),
            # every returned node is in scope, activated by the (cleared) decisions, has its inputs, is ordered and needs a run
            "all(" + READY_P + " for n in result)",
            "all(in_scope(n, active_nodes) for n in result)", "all(node_activated(graph, state, n.name, END) for n in result)",
            "all(all_avail(graph, state, " + NN + ") for n in result)", "all(wf_ok(state, " + NN + ") for n in result)", "all(needs(graph, state, " + NN + ") for n in result)",
            # P2: when a gate and its targets are runnable together the gate decides first
            "all(not is_gate(g) or all(t is END or t == g.name or not any(m.name == t for m in result) for t in g.targets) for g in result)",
            # C17: a waiter never starts in the same step as a producer of an awaited name
            "all(not any(w in m.outputs and m.name != n.name for w in n.wait_for for m in result) for n in result)",
        ],
        modifies=["state.routing_decisions"],
        loops=[
            {"modifies": ["ready"],
             "invariant": [OWN.format("ready"),
                           "all(" + READY_P.replace("node_activated(graph, state, n.name, END)", "n.name in activated_nodes") + " for n in ready)",
                           "all(n.name in _keys[:_i] for n in ready)",
                           DISTINCT.format("ready")]},
            {"modifies": ["blocked_targets"],
             "invariant": ["all(not is_gate(g) or g.name not in _seq[:_i] or targets_blocked(g, blocked_targets, END) for g in ready)"]},
            {"modifies": ["blocked_targets"],
             "invariant": ["all(not is_gate(g) or g.name not in _seq1[:_i1] or targets_blocked(g, blocked_targets, END) for g in ready)",
                           "all(t is END or t == gate_name or t in blocked_targets for t in _seq[:_i])"]},
        ],
        mustfail="all(" + READY_P.replace(" and wf_ok(state, " + NN + ")", "") + " and not n.wait_for for n in result)",
    ),
})

CONTRACTS.update({
    F + "compute_active_node_set": dict(
        props=["C16", "C04"],
        params={"graph": GRAPH},
        returns=OPT(SET(STR)),
        ensures=["(result is None) == (graph.entrypoints_config is None)"],
        mustfail="result is None",
    ),
})
