"""Sidecar contracts: visibility helpers of the visualisation (C20).  The flattened graph's node table is read through the
mapping interface (`flat_graph.nodes[id]` -> attribute dict); the graph object itself (networkx) is outside the model."""
# ruff: noqa
from pyvc.values import ANY, STR, INT, BOOL, NONE_T, SEQ, DICT, SET, OBJ, OPT, FIXTUP

VC = "viz/_common.py:"
PARENT = "flat_graph.nodes[node_id].get('parent')"

CONTRACTS = {
    VC + "is_node_visible": dict(
        props=["C20"],
        params={"node_id": STR, "flat_graph": ANY, "expansion_state": DICT(STR, BOOL)},
        returns=BOOL,
        requires=["node_id in flat_graph.nodes"],
        may_raise={"KeyError": True},   # a parent id missing from the node table (malformed flattened graph)
        ensures=[
            # a hidden node is never visible
            "not result or not flat_graph.nodes[node_id].get('hide', False)",
            # a visible node's enclosing container is expanded (so every drawn endpoint has a drawn, open parent)
            "not result or " + PARENT + " is None or bool(expansion_state.get(" + PARENT + ", False))",
            # a root-level node that is not hidden is visible in every expansion state
            "result or bool(flat_graph.nodes[node_id].get('hide', False)) or " + PARENT + " is not None",
        ],
        modifies=[],
        loops=[{"modifies": [], "invariant": ["not flat_graph.nodes[node_id].get('hide', False)",
                              "parent_id is " + PARENT + " or bool(expansion_state.get(" + PARENT + ", False))"]}],
    ),
    VC + "get_parent": dict(
        props=["C20"],
        params={"node_id": STR, "flat_graph": ANY},
        returns=OPT(STR),
        ensures=["node_id in flat_graph.nodes or result is None",
                 "node_id not in flat_graph.nodes or result is " + PARENT],
        modifies=[],
    ),
    VC + "get_nesting_depth": dict(
        props=["C20"],
        params={"node_id": STR, "flat_graph": ANY},
        returns=INT,
        requires=["node_id in flat_graph.nodes"],
        may_raise={"KeyError": True},
        ensures=["result >= 0", "(result == 0) == (" + PARENT + " is None)"],
        modifies=[],
        loops=[{"invariant": ["depth >= 0", "(depth == 0 and parent_id is " + PARENT + ") or (depth > 0 and " + PARENT + " is not None)"]}],
    ),
    VC + "get_root_ancestor": dict(
        props=["C20"],
        params={"node_id": STR, "flat_graph": ANY},
        returns=STR,
        requires=["node_id in flat_graph.nodes"],
        may_raise={"KeyError": True},
        # a root-level node is its own root; otherwise the answer is a root-level node (it has no parent)
        ensures=[PARENT + " is not None or result is node_id",
                 PARENT + " is None or flat_graph.nodes[result].get('parent') is None"],
        modifies=[],
        loops=[{"invariant": ["parent_id is not None"]}],
    ),
}
