"""Sidecar contracts: interrupt executor (C14) and run-time selection (C16)."""
# ruff: noqa
from pyvc.values import ANY, STR, INT, BOOL, NONE_T, SEQ, DICT, SET, OBJ, OPT, FIXTUP
from contracts.tracelib import names, calls, _nm

IX = "runners/async_/executors/interrupt_node.py:"
RV = "runners/_shared/validation.py:"
SENT = {"_EMIT_SENTINEL": "hypergraph.nodes.base"}


def handler_calls(tr):
    return [e for e in tr if e[0] == "call" and ("func" in _nm(e[1]) or "node.func" in e[1])]


def resume_skips_handler(tr, outcome, raised, env, ex, s):
    """Resume: when every data output is already in the state and the node has not run in this run, the handler is NOT
    called; otherwise it is called exactly once (or the inputs are incomplete and KeyError was raised before)."""
    import z3
    from pyvc.engine import truth
    n = len(handler_calls(tr))
    if n > 1:
        return False
    from pyvc.engine import St
    s0 = St(list(s.pc), dict(ex.env0), ex.heap0, [], list(s.fresh))  # the condition is about the state the executor was CALLED with
    resume = ex.eval_clause("all(o in state.values for o in node.data_outputs) and node.name not in state.node_executions", s0)
    if n == 1:
        return z3.Not(resume)
    if outcome == "return":
        return resume
    return True


def pause_only_on_none(tr, outcome, raised, env, ex, s):
    """PauseExecution leaves the executor exactly when the handler was called and returned None (and there is a data
    output to resume into); it carries the node's name, its first data output as the response key and the first input's value."""
    import z3
    from pyvc import smt
    paused = outcome.startswith("raise") and raised is not None and raised.cls == "PauseExecution"
    if not paused:
        return True
    if len(handler_calls(tr)) != 1:
        return False
    infos = [e for e in tr if e[0] == "call" and _nm(e[1]) == "PauseInfo"]
    if len(infos) != 1:
        return False
    kw = infos[0][2].get("kwargs", {})
    nn = kw.get("node_name")
    if nn is None or getattr(nn, "t", None) is None:
        return False
    resp = env.get("response")
    return z3.And(nn.t == smt.attr_func("name")(env["node"].t), resp.t == smt.NONE) if getattr(resp, "t", None) is not None else False


CONTRACTS = {
    IX + "_add_emit_sentinels": dict(
        props=["C14", "C17"],
        params={"result": DICT(STR, ANY), "node": OBJ("HyperNode")},
        returns=DICT(STR, ANY),
        imports=SENT,
        ensures=["result is old(result)",
                 "all(o in result and result[o] is _EMIT_SENTINEL for o in node.outputs[len(node.data_outputs):])",
                 "forall_keys(lambda k: k in node.outputs[len(node.data_outputs):] or ((k in result) == old(k in result) and (k not in result or result[k] is old(result.get(k)))), result)"],
        modifies=["result"],
        loops=[{"invariant": ["all(o in result and result[o] is _EMIT_SENTINEL for o in _seq[:_i])",
                              "forall_keys(lambda k: k in _seq[:_i] or ((k in result) == old(k in result) and (k not in result or result[k] is old(result.get(k)))), result)"]}],
    ),
    IX + "_normalize_response": dict(
        props=["C14"],
        params={"node": OBJ("HyperNode"), "response": ANY, "data_outputs": SEQ(STR)},
        returns=DICT(STR, ANY),
        may_raise={"ValueError": "len(data_outputs) > 1 and isinstance(response, dict)"},
        ensures=["len(data_outputs) != 1 or (data_outputs[0] in result and result[data_outputs[0]] is response)",
                 "len(data_outputs) != 0 or len(result) == 0"],
    ),
    RV + "resolve_runtime_selected": dict(
        props=["C16"],
        params={"select": ANY, "graph": OBJ("Graph")},
        returns=OPT(SEQ(STR)),
        imports={"_UNSET_SELECT": "hypergraph.runners._shared.helpers"},
        # an explicit selection must name declared outputs of the graph, wherever the bad name sits
        raises={"GraphConfigError": "select is not _UNSET_SELECT and select != '**' and ((isinstance(select, str) and select not in graph.outputs) or (isinstance(select, list) and any(n not in graph.outputs for n in select)))"},
        ensures=[
            "select is not _UNSET_SELECT or result is graph.selected",      # no run-time select: the graph's default
            "select != '**' or select is _UNSET_SELECT or result is None",   # '**': everything
            "not (isinstance(select, str) and select != '**' and select is not _UNSET_SELECT) or (len(result) == 1 and result[0] == select)",
            "not (isinstance(select, list) and select is not _UNSET_SELECT) or (len(result) == len(select) and all(result[i] == select[i] for i in range(len(select))))",
        ],
        modifies=[],
    ),
    IX + "AsyncInterruptNodeExecutor.__call__": dict(
        props=["C14"],
        params={"self": ANY, "node": OBJ("HyperNode"), "state": OBJ("GraphState"), "inputs": DICT(STR, ANY)},
        returns=DICT(STR, ANY),
        may_raise={"BaseException": True},
        # object-model fact (as for wrap_outputs): data outputs are the leading, pairwise distinct output names
        requires=["len(node.data_outputs) <= len(node.outputs)", "all(node.outputs[i] == node.data_outputs[i] for i in range(len(node.data_outputs)))",
                  "distinct_names(node.outputs)", "all(isinstance(o, str) for o in node.data_outputs)"],
        # resume: the values supplied under the interrupt's output names are what the interrupt "returns"
        ensures=["not old(all(o in state.values for o in node.data_outputs) and node.name not in state.node_executions) or all(o in result and result[o] is old(state.values[o]) for o in node.data_outputs)",
                 # whichever way the interrupt is passed (answer supplied, or the handler answered), its ordering signals are emitted
                 "all(o in result and result[o] is _EMIT_SENTINEL for o in node.outputs[len(node.data_outputs):])"],
        imports={"_EMIT_SENTINEL": "hypergraph.nodes.base"},
        trace=[{"name": "C14 resume: supplied responses pass the interrupt without calling the handler; otherwise the handler runs exactly once", "check": resume_skips_handler},
               {"name": "C14 PauseExecution exactly after a handler call (that returned None), carrying the node's name", "check": pause_only_on_none}],
        loops=[{"invariant": []}],
    ),
}

CONTRACTS.update({
    RV + "validate_runner_compatibility": dict(
        props=["C08", "C14"],
        params={"graph": OBJ("Graph"), "capabilities": ANY},
        returns=NONE_T,
        raises={"IncompatibleRunnerError": "(bool(graph.has_async_nodes) and not capabilities.supports_async_nodes) or (bool(graph.has_cycles) and not capabilities.supports_cycles) or (bool(graph.has_interrupts) and not capabilities.supports_interrupts)"},
        modifies=[],
    ),
    RV + "validate_map_compatible": dict(
        props=["C10", "C14"],
        params={"graph": OBJ("Graph")},
        returns=NONE_T,
        raises={"IncompatibleRunnerError": "bool(graph.has_interrupts)"},
        modifies=[],
    ),
    RV + "_validate_on_internal_override": dict(
        props=["C08"],
        params={"policy": STR},
        returns=NONE_T,
        raises={"ValueError": "policy not in ('ignore', 'warn', 'error')"},
        modifies=[],
    ),
})

CONTRACTS.update({
    RV + "validate_node_types": dict(
        props=["C08"],
        params={"graph": OBJ("Graph"), "supported_types": SET(ANY)},
        returns=NONE_T,
        # a node kind without a registered executor is refused before anything runs, wherever the node sits
        raises={"TypeError": "any(type(n) not in supported_types for n in graph._nodes.values())"},
        modifies=[],
        loops=[{"modifies": [], "invariant": ["not any(type(n) not in supported_types for n in _seq[:_i])"]}],
    ),
})

HP = "runners/_shared/helpers.py:"
CONTRACTS.update({
    HP + "_validate_on_missing": dict(
        props=["C08", "C16"], params={"on_missing": STR}, returns=NONE_T,
        raises={"ValueError": "on_missing not in ('ignore', 'warn', 'error')"}, modifies=[],
    ),
    HP + "_validate_error_handling": dict(
        props=["C08", "C11"], params={"error_handling": STR}, returns=NONE_T,
        raises={"ValueError": "error_handling not in ('raise', 'continue')"}, modifies=[],
    ),
})
