"""Sidecar contracts: map input generation, zip mode (C10: one input dict per position, in input order)."""
# ruff: noqa
from pyvc.values import ANY, STR, INT, BOOL, NONE_T, SEQ, DICT, SET, OBJ, OPT, FIXTUP

F = "runners/_shared/helpers.py:"

CONTRACTS = {
    F + "_clone_value": dict(
        props=["C10", "C18"],
        params={"value": ANY, "param_name": STR},
        returns=ANY,
        ensures=["is_deepcopy(result, value)"],     # each map item gets its own copy of a cloned broadcast value
        may_raise={"GraphConfigError": True},
        mustfail="result is value",
    ),
    F + "_maybe_clone_broadcast": dict(
        props=["C10", "C18"],
        params={"broadcast_values": DICT(STR, ANY), "clone": ANY},
        returns=DICT(STR, ANY),
        may_raise={"Exception": "clone is not False"},      # deep copies may fail (GraphConfigError from _clone_value)
        ensures=["all(k in result for k in broadcast_values)", "all(k in broadcast_values for k in result)",
                 "clone is not False or result is broadcast_values",
                 # clone=True: every broadcast value is handed over as its own deep copy; clone=[names]: exactly the named ones
                 "clone is not True or all(is_deepcopy(result[k], broadcast_values[k]) for k in broadcast_values)",
                 "clone is True or clone is False or all((is_deepcopy(result[k], broadcast_values[k]) if k in clone else result[k] is broadcast_values[k]) for k in broadcast_values)"],
        modifies=[],
    ),
    F + "_generate_zip_inputs": dict(
        props=["C10"],
        generator=True,
        params={"mapped_values": DICT(STR, SEQ(ANY)), "broadcast_values": DICT(STR, ANY), "clone": ANY},
        returns=SEQ(DICT(STR, ANY)),
        may_raise={"ValueError": "any(len(mapped_values[a]) != len(mapped_values[b]) for a in mapped_values for b in mapped_values)",
                   "Exception": "clone is not False"},
        ensures=[
            # nothing to map over: exactly one item (the broadcast values)
            "len(mapped_values) != 0 or len(result) == 1",
            # otherwise one item per position ...
            "len(mapped_values) == 0 or all(len(result) == len(mapped_values[k]) for k in mapped_values)",
            # ... and item i carries, for every mapped parameter, the i-th element of its list (input order)
            "len(mapped_values) == 0 or all(all(k in result[i] and result[i][k] is mapped_values[k][i] for k in mapped_values) for i in range(len(result)))",
        ],
        modifies=[],
        loops=[{"modifies": "non-entry",
                "invariant": ["len(_yield) == _i",
                              "all(all(k in _yield[j] and _yield[j][k] is mapped_values[k][j] for k in mapped_values) for j in range(_i))"]}],
    ),
    F + "generate_map_inputs": dict(
        props=["C10"],
        generator=True,
        params={"values": DICT(STR, ANY), "map_over": SEQ(STR), "map_mode": STR, "clone": ANY},
        returns=SEQ(DICT(STR, ANY)),
        requires=["all(k in values for k in map_over)"],
        call_site="opaque",  # the precondition (every mapped name is supplied) is established by validate_map_compatible: not discharged at the call site
        # an unknown mode is rejected; the two known modes delegate (their own failures pass through)
        may_raise={"ValueError": True, "Exception": True},
        trace=[{"name": "C10 zip mode expands position-wise, product mode as the cartesian product; nothing else is accepted",
                "check": lambda tr, outcome, raised, env, ex, s: __import__("contracts.c_map", fromlist=["x"]).mode_dispatch(tr, outcome, raised, env, ex, s)}],
    ),
    F + "collect_as_lists": dict(
        props=["C10"],
        params={"results": SEQ(OBJ("RunResult")), "node": OBJ("GraphNode"), "error_handling": STR},
        returns=DICT(STR, SEQ(ANY)),
        imports={"RunStatus": "hypergraph.runners._shared.types"},
        requires=["distinct_names(node.outputs)"],
        # raise mode: the first failed item's own error propagates; otherwise nothing is raised
        may_raise={"BaseException": "error_handling == 'raise' and any(r.status == RunStatus.FAILED for r in results)"},
        ensures=[
            # every output of the mapping node is a list with EXACTLY one entry per item (None where an item failed or did not
            # produce the output), and nothing else is returned
            "all(n in result and len(result[n]) == len(results) for n in node.outputs)",
            "all(old(k in node.outputs) for k in result)",
            # an item that FAILED contributes None to every list - never the partial values its run had produced before failing
            "all(results[j].status != RunStatus.FAILED or all(result[n][j] is None for n in node.outputs) for j in range(len(results)))",
        ],
        modifies=[],
        loops=[
            {"modifies": "non-entry", "invariant": [
                "all(n in collected and is_new(collected[n]) and len(collected[n]) == _i for n in node.outputs)",
                "all(old(k in node.outputs) for k in collected)",
                "all(a == b or collected[a] is not collected[b] for a in node.outputs for b in node.outputs)", "is_new(collected)",
                "all(results[j].status != RunStatus.FAILED or all(collected[n][j] is None for n in node.outputs) for j in range(_i))"]},
            {"modifies": "non-entry", "invariant": [
                "all(n in collected and is_new(collected[n]) and len(collected[n]) == _i0 + (1 if n in _seq[:_i] else 0) for n in node.outputs)",
                "all(old(k in node.outputs) for k in collected)",
                "all(a == b or collected[a] is not collected[b] for a in node.outputs for b in node.outputs)", "is_new(collected)",
                "all(results[j].status != RunStatus.FAILED or all(collected[n][j] is None for n in node.outputs) for j in range(_i0))", "all(collected[n][_i0] is None for n in _seq[:_i])"]},
            {"modifies": "non-entry", "invariant": [
                "all(n in collected and is_new(collected[n]) and len(collected[n]) == _i0 + (1 if n in _seq[:_i] else 0) for n in node.outputs)",
                "all(old(k in node.outputs) for k in collected)",
                "all(a == b or collected[a] is not collected[b] for a in node.outputs for b in node.outputs)", "is_new(collected)",
                "all(results[j].status != RunStatus.FAILED or all(collected[n][j] is None for n in node.outputs) for j in range(_i0))", "result.status != RunStatus.FAILED"]},
        ],
    ),
}

def mode_dispatch(tr, outcome, raised, env, ex, s):
    import z3
    from pyvc.engine import eq, lift
    from contracts.tracelib import names
    ns = names(tr)
    z, p = ns.count("_generate_zip_inputs"), ns.count("_generate_product_inputs")
    is_zip, is_prod = eq(env["map_mode"], lift("zip"), s), eq(env["map_mode"], lift("product"), s)
    if z + p > 1:
        return False
    if z == 1:
        return is_zip
    if p == 1:
        return z3.And(z3.Not(is_zip), is_prod)
    if outcome == "return":
        return False
    return z3.And(z3.Not(is_zip), z3.Not(is_prod))
