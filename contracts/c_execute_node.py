"""Sidecar contracts: the node-executor closures both runners hand to their supersteps (`_make_execute_node.execute_node`) - C12.

The superstep writes the span id of the node it is about to run into the closure's one-element holder (`current_span_id`);
the closure hands exactly that value, with the run's event processors, to the nested-graph executor (whose own contract,
c_nested.py, passes it on as `_parent_span_id` of the inner run): a nested run is parented to the node that launched it.
Every executor receives the node, the state and the inputs it was called with, exactly once; a node type without an executor
is the only reason for the closure itself to raise."""
# ruff: noqa
from pyvc.values import ANY, STR, INT, BOOL, NONE_T, SEQ, DICT, SET, OBJ, OPT, FIXTUP
from contracts.tracelib import names, calls, _nm

SR = "runners/sync/runner.py:SyncRunner._make_execute_node.execute_node"
AR = "runners/async_/runner.py:AsyncRunner._make_execute_node.execute_node"


def _t(v):
    return getattr(v, "t", None)


def dispatch(graph_executor_cls):
    def check(tr, outcome, raised, env, ex, s):
        import z3
        from pyvc import smt
        execs = [e for e in tr if e[0] == "call" and "executor" in str(e[1])]
        if not execs:
            # nothing was executed: only legitimate when no executor is registered (TypeError)
            return outcome == "raise:TypeError"
        if len(execs) != 1 or "executor" not in env:
            return False
        a, kw = execs[0][2].get("args", []), execs[0][2].get("kwargs", {})
        if len(a) != 3:
            return False
        conds = [_t(a[0]) == _t(env["node"]), _t(a[1]) == _t(env["state"]), _t(a[2]) == _t(env["inputs"])]
        is_graph_exec = smt.inst_pred(graph_executor_cls)(_t(env["executor"]))
        if kw:
            if set(kw) != {"event_processors", "parent_span_id"}:
                return False
            holder = ex.eval_pure("current_span_id[0]", s)
            conds += [is_graph_exec, _t(kw["event_processors"]) == _t(env["event_processors"]), _t(kw["parent_span_id"]) == holder]
        else:
            conds.append(z3.Not(is_graph_exec))
        return z3.And(*conds)
    return {"name": "C12 the executor gets the node, state and inputs unchanged; a nested-graph executor also gets the run's processors and, as parent span, the holder's current value", "check": check}


def contract(cls, gcls, coroutine):
    return dict(
        props=["C12"],
        params={"node": OBJ("HyperNode"), "state": OBJ("GraphState"), "inputs": DICT(STR, ANY), "self": OBJ(cls), "event_processors": ANY, "current_span_id": SEQ(OPT(STR))},
        requires=["len(current_span_id) == 1"],
        returns=ANY,
        may_raise={"BaseException": True},
        modifies=[],
        trace=[dispatch(gcls)],
        callables={"executor": {"raises": ["BaseException"], "returns": DICT(STR, ANY), "coroutine": coroutine}},
    )


CONTRACTS = {
    SR: contract("SyncRunner", "SyncGraphNodeExecutor", False),
    AR: contract("AsyncRunner", "AsyncGraphNodeExecutor", True),
}
