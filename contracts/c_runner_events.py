"""Sidecar contracts: how both runners create their dispatcher and emit RunStart / RunEnd (C12, C13).

These are the concrete implementations behind the template hooks `_create_dispatcher`, `_emit_run_start_*`,
`_emit_run_end_*`, `_shutdown_dispatcher_*`, which the template contracts (c_templates.py) use through the declared object
model as total (non-raising) operations.  Discharged here: the dispatcher a runner creates is best-effort (not strict), and on
a best-effort dispatcher the emission helpers deliver exactly one event when it is active, none otherwise, and never raise."""
# ruff: noqa
from pyvc.values import ANY, STR, INT, BOOL, NONE_T, SEQ, DICT, SET, OBJ, OPT, FIXTUP
from contracts.tracelib import names, calls, _nm

SR = "runners/sync/runner.py:"
AR = "runners/async_/runner.py:"
D = "events/dispatcher.py:EventDispatcher."
DISP = OBJ("EventDispatcher")


def one_event_iff_active(emit_names, event_cls):
    def check(tr, outcome, raised, env, ex, s):
        import z3
        from pyvc.engine import truth
        n = len([e for e in tr if e[0] == "call" and _nm(e[1]) in emit_names])
        made = len([e for e in tr if e[0] in ("call", "new") and _nm(e[1]) == event_cls])
        if n > 1 or made != n:
            return False
        active = ex.eval_clause("bool(dispatcher.active)", s)
        return active if n == 1 else z3.Not(active)
    return {"name": f"exactly one {event_cls} is delivered when the dispatcher is active, none otherwise", "check": check}


def _t(v):
    return getattr(v, "t", None)


def run_event_fields(event_cls):
    """The one event handed to the dispatcher is the freshly built `event_cls` object and it identifies this run: RunStart
    carries the run id and span id that the helper RETURNS (the caller passes them to every node event and to RunEnd) and the
    caller's parent span and graph name; RunEnd carries the ids and parent it was GIVEN, and its status says "failed"
    exactly when an error was given."""
    def check(tr, outcome, raised, env, ex, s):
        import z3
        from pyvc.engine import truth
        news = [e for e in tr if e[0] == "new" and e[1] == event_cls]
        emits = [e[2] for e in tr if e[0] == "call" and _nm(e[1]) in ("emit", "emit_async")]
        if not news and not emits:
            return True
        if len(news) != 1 or len(emits) != 1 or len(news[0]) < 4:
            return False
        f, obj = news[0][3]["fields"], news[0][3]["obj"]
        ev = _t(emits[0].get("event"))
        if ev is None or not ev.eq(obj.t):
            return False
        need = {"run_id", "span_id", "parent_span_id", "graph_name"} | ({"is_map", "map_size"} if event_cls == "RunStartEvent" else {"status"})
        if not need <= set(f):
            return False
        gname = ex.eval_pure("graph.name", s)
        conds = [_t(f["parent_span_id"]) == _t(env["parent_span_id"]), _t(f["graph_name"]) == gname]
        if event_cls == "RunStartEvent":
            if outcome != "return":
                return True
            res = env["result"]
            conds += [_t(f["run_id"]) == _t(res.items[0]), _t(f["span_id"]) == _t(res.items[1]),
                      truth(f["is_map"], s) == truth(env["is_map"], s), _t(f["map_size"]) == _t(env["map_size"])]
        else:
            conds += [_t(f["run_id"]) == _t(env["run_id"]), _t(f["span_id"]) == _t(env["span_id"])]
            failed = ex.eval_pure("'failed'", s)
            completed = ex.eval_pure("'completed'", s)
            err = truth(env["error"], s)
            st = _t(f["status"])
            conds.append(z3.If(err, st == failed, st == completed))
        return z3.And(*conds)
    return {"name": f"the delivered {event_cls} carries this run's ids, parent span, graph name" + (" and the outcome" if event_cls == "RunEndEvent" else ""), "check": check}


START = dict(
    props=["C12", "C13"],
    params={"dispatcher": DISP, "graph": OBJ("Graph"), "parent_span_id": OPT(STR), "is_map": BOOL, "map_size": OPT(INT)},
    returns=FIXTUP(STR, STR),
    requires=["not dispatcher._strict"],
    trace=[one_event_iff_active({"emit", "emit_async"}, "RunStartEvent"), run_event_fields("RunStartEvent")],
)
END_ = dict(
    props=["C12", "C13"],
    params={"dispatcher": DISP, "run_id": STR, "span_id": STR, "graph": OBJ("Graph"), "start_time": ANY, "parent_span_id": OPT(STR), "error": ANY},
    returns=NONE_T,
    requires=["not dispatcher._strict"],
    trace=[one_event_iff_active({"emit", "emit_async"}, "RunEndEvent"), run_event_fields("RunEndEvent")],
)

CONTRACTS = {
    D + "__init__": dict(
        props=["C13"],
        params={"self": DISP, "processors": ANY, "strict": BOOL},
        returns=NONE_T,
        ensures=["self._strict == strict"],
        modifies=["self"],
    ),
    SR + "_create_dispatcher": dict(props=["C12", "C13"], params={"processors": ANY}, returns=DISP, ensures=["not result._strict"]),
    AR + "_create_dispatcher": dict(props=["C12", "C13"], params={"processors": ANY}, returns=DISP, ensures=["not result._strict"]),
    SR + "_emit_run_start": START,
    AR + "_emit_run_start": START,
    SR + "_emit_run_end": END_,
    AR + "_emit_run_end": END_,
}


def delegates_once(callee):
    def check(tr, outcome, *rest):
        return names(tr).count(callee) == 1
    return {"name": f"the hook delegates to {callee} exactly once", "check": check}


HOOK_START = {"self": ANY, "dispatcher": DISP, "graph": OBJ("Graph"), "parent_span_id": OPT(STR), "is_map": BOOL, "map_size": OPT(INT)}
HOOK_END = {"self": ANY, "dispatcher": DISP, "run_id": STR, "span_id": STR, "graph": OBJ("Graph"), "start_time": ANY, "parent_span_id": OPT(STR), "error": ANY}

CONTRACTS.update({
    SR + "SyncRunner._create_dispatcher": dict(props=["C12", "C13"], params={"self": ANY, "processors": ANY}, returns=DISP, ensures=["not result._strict"]),
    AR + "AsyncRunner._create_dispatcher": dict(props=["C12", "C13"], params={"self": ANY, "processors": ANY}, returns=DISP, ensures=["not result._strict"]),
    SR + "SyncRunner._emit_run_start_sync": dict(props=["C12", "C13"], params=HOOK_START, returns=FIXTUP(STR, STR), requires=["not dispatcher._strict"], trace=[delegates_once("_emit_run_start")]),
    AR + "AsyncRunner._emit_run_start_async": dict(props=["C12", "C13"], params=HOOK_START, returns=FIXTUP(STR, STR), requires=["not dispatcher._strict"], trace=[delegates_once("_emit_run_start")]),
    SR + "SyncRunner._emit_run_end_sync": dict(props=["C12", "C13"], params=HOOK_END, returns=NONE_T, requires=["not dispatcher._strict"], trace=[delegates_once("_emit_run_end")]),
    AR + "AsyncRunner._emit_run_end_async": dict(props=["C12", "C13"], params=HOOK_END, returns=NONE_T, requires=["not dispatcher._strict"], trace=[delegates_once("_emit_run_end")]),
    SR + "SyncRunner._shutdown_dispatcher_sync": dict(props=["C12", "C13"], params={"self": ANY, "dispatcher": DISP}, returns=NONE_T, requires=["not dispatcher._strict"], trace=[delegates_once("shutdown")]),
    AR + "AsyncRunner._shutdown_dispatcher_async": dict(props=["C12", "C13"], params={"self": ANY, "dispatcher": DISP}, returns=NONE_T, requires=["not dispatcher._strict"], trace=[delegates_once("shutdown_async")]),
})
