"""Sidecar contracts: how both runners create their dispatcher and emit RunStart / RunEnd (C12, C13).

These are the concrete implementations behind the template hooks `_create_dispatcher`, `_emit_run_start_*`,
`_emit_run_end_*`, `_shutdown_dispatcher_*`, which the template contracts (c_templates.py) use through the declared object
model as total (non-raising) operations.  Discharged here: the dispatcher a runner creates is best-effort (not strict), and on
a best-effort dispatcher the emission helpers deliver exactly one event when it is active, none otherwise, and never raise."""
# ruff: noqa
from pyvc.values import ANY, STR, INT, BOOL, NONE_T, SEQ, DICT, SET, OBJ, OPT, FIXTUP
from contracts.tracelib import names, calls, _nm

SR = "runners/sync/runner.py:"
AR = "runners/async_/runner.py:"
D = "events/dispatcher.py:EventDispatcher."
DISP = OBJ("EventDispatcher")


def one_event_iff_active(emit_names, event_cls):
    def check(tr, outcome, raised, env, ex, s):
        import z3
        from pyvc.engine import truth
        n = len([e for e in tr if e[0] == "call" and _nm(e[1]) in emit_names])
        made = len([e for e in tr if e[0] == "call" and _nm(e[1]) == event_cls])
        if n > 1 or made != n:
            return False
        active = ex.eval_clause("bool(dispatcher.active)", s)
        return active if n == 1 else z3.Not(active)
    return {"name": f"exactly one {event_cls} is delivered when the dispatcher is active, none otherwise", "check": check}


START = dict(
    props=["C12", "C13"],
    params={"dispatcher": DISP, "graph": OBJ("Graph"), "parent_span_id": OPT(STR), "is_map": BOOL, "map_size": OPT(INT)},
    returns=FIXTUP(STR, STR),
    requires=["not dispatcher._strict"],
    trace=[one_event_iff_active({"emit", "emit_async"}, "RunStartEvent")],
)
END_ = dict(
    props=["C12", "C13"],
    params={"dispatcher": DISP, "run_id": STR, "span_id": STR, "graph": OBJ("Graph"), "start_time": ANY, "parent_span_id": OPT(STR), "error": ANY},
    returns=NONE_T,
    requires=["not dispatcher._strict"],
    trace=[one_event_iff_active({"emit", "emit_async"}, "RunEndEvent")],
)

CONTRACTS = {
    D + "__init__": dict(
        props=["C13"],
        params={"self": DISP, "processors": ANY, "strict": BOOL},
        returns=NONE_T,
        ensures=["self._strict == strict"],
        modifies=["self"],
    ),
    SR + "_create_dispatcher": dict(props=["C12", "C13"], params={"processors": ANY}, returns=DISP, ensures=["not result._strict"]),
    AR + "_create_dispatcher": dict(props=["C12", "C13"], params={"processors": ANY}, returns=DISP, ensures=["not result._strict"]),
    SR + "_emit_run_start": START,
    AR + "_emit_run_start": START,
    SR + "_emit_run_end": END_,
    AR + "_emit_run_end": END_,
}


def delegates_once(callee):
    def check(tr, outcome, *rest):
        return names(tr).count(callee) == 1
    return {"name": f"the hook delegates to {callee} exactly once", "check": check}


HOOK_START = {"self": ANY, "dispatcher": DISP, "graph": OBJ("Graph"), "parent_span_id": OPT(STR), "is_map": BOOL, "map_size": OPT(INT)}
HOOK_END = {"self": ANY, "dispatcher": DISP, "run_id": STR, "span_id": STR, "graph": OBJ("Graph"), "start_time": ANY, "parent_span_id": OPT(STR), "error": ANY}

CONTRACTS.update({
    SR + "SyncRunner._create_dispatcher": dict(props=["C12", "C13"], params={"self": ANY, "processors": ANY}, returns=DISP, ensures=["not result._strict"]),
    AR + "AsyncRunner._create_dispatcher": dict(props=["C12", "C13"], params={"self": ANY, "processors": ANY}, returns=DISP, ensures=["not result._strict"]),
    SR + "SyncRunner._emit_run_start_sync": dict(props=["C12", "C13"], params=HOOK_START, returns=FIXTUP(STR, STR), requires=["not dispatcher._strict"], trace=[delegates_once("_emit_run_start")]),
    AR + "AsyncRunner._emit_run_start_async": dict(props=["C12", "C13"], params=HOOK_START, returns=FIXTUP(STR, STR), requires=["not dispatcher._strict"], trace=[delegates_once("_emit_run_start")]),
    SR + "SyncRunner._emit_run_end_sync": dict(props=["C12", "C13"], params=HOOK_END, returns=NONE_T, requires=["not dispatcher._strict"], trace=[delegates_once("_emit_run_end")]),
    AR + "AsyncRunner._emit_run_end_async": dict(props=["C12", "C13"], params=HOOK_END, returns=NONE_T, requires=["not dispatcher._strict"], trace=[delegates_once("_emit_run_end")]),
    SR + "SyncRunner._shutdown_dispatcher_sync": dict(props=["C12", "C13"], params={"self": ANY, "dispatcher": DISP}, returns=NONE_T, requires=["not dispatcher._strict"], trace=[delegates_once("shutdown")]),
    AR + "AsyncRunner._shutdown_dispatcher_async": dict(props=["C12", "C13"], params={"self": ANY, "dispatcher": DISP}, returns=NONE_T, requires=["not dispatcher._strict"], trace=[delegates_once("shutdown_async")]),
})
