"""Sidecar contracts: routing decision validation and gate execution (C03)."""
# ruff: noqa
from pyvc.values import ANY, STR, INT, BOOL, NONE_T, SEQ, DICT, SET, OBJ, OPT, FIXTUP

R = "runners/_shared/routing_validation.py:"
G = "runners/_shared/gate_execution.py:"
ROUTE, IFELSE, STATE = OBJ("RouteNode"), OBJ("IfElseNode"), OBJ("GraphState")
END_IMP = {"END": "hypergraph.nodes.gate"}

CONTRACTS = {
    R + "_validate_single_target": dict(
        props=["C03"],
        params={"node": ROUTE, "target": ANY},
        returns=NONE_T,
        requires=["targets_are_names(node, END)"],
        imports=END_IMP,
        raises={"ValueError": "target not in node.targets"},
        mustfail_raise="target in node.targets",
    ),
    R + "_validate_single_target_decision": dict(
        props=["C03"],
        params={"node": ROUTE, "decision": ANY},
        returns=NONE_T,
        requires=["targets_are_names(node, END)"],
        imports=END_IMP,
        raises={"TypeError": "decision is not None and isinstance(decision, list)",
                "ValueError": "decision is not None and not isinstance(decision, list) and decision not in node.targets"},
    ),
    R + "_validate_multi_target_decision": dict(
        props=["C03"],
        params={"node": ROUTE, "decision": ANY},
        returns=NONE_T,
        requires=["targets_are_names(node, END)"],
        imports=END_IMP,
        raises={"TypeError": "decision is not None and not isinstance(decision, list)",
                "ValueError": "decision is not None and isinstance(decision, list) and any(t not in node.targets for t in decision)"},
        loops=[{"invariant": ["all(t in node.targets for t in _seq[:_i])"]}],
    ),
    R + "validate_routing_decision": dict(
        props=["C03"],
        params={"node": ROUTE, "decision": ANY},
        returns=NONE_T,
        requires=["targets_are_names(node, END)"],
        imports=END_IMP,
        ensures=["valid_decision(node, decision)"],
        raises={"TypeError": "decision is not None and (isinstance(decision, list) != bool(node.multi_target))",
                "ValueError": "decision is not None and (isinstance(decision, list) == bool(node.multi_target)) and not valid_decision(node, decision)"},
    ),
    G + "execute_ifelse": dict(
        props=["C03"],
        params={"node": IFELSE, "state": STATE, "inputs": DICT(STR, ANY)},
        returns=DICT(STR, ANY),
        requires=["gate_shape(node, END)"],
        imports=END_IMP,
        ensures=[
            "isinstance(_ret_node_func, bool)",
            "state.routing_decisions[node.name] is (node.when_true if _ret_node_func is True else node.when_false)",
            "forall_keys(lambda k: k == node.name or ((k in state.routing_decisions) == old(k in state.routing_decisions) and (k not in state.routing_decisions or state.routing_decisions[k] is old(state.routing_decisions.get(k)))), state.routing_decisions)",
        ],
        ensures_on_raise=[
            "forall_keys(lambda k: (k in state.routing_decisions) == old(k in state.routing_decisions) and (k not in state.routing_decisions or state.routing_decisions[k] is old(state.routing_decisions.get(k))), state.routing_decisions)",
        ],
        may_raise={"Exception": True, "TypeError": True, "ValueError": True},
        modifies=["state.routing_decisions"],
    ),
    G + "execute_route": dict(
        props=["C03"],
        params={"node": ROUTE, "state": STATE, "inputs": DICT(STR, ANY)},
        returns=DICT(STR, ANY),
        requires=["gate_shape(node, END)"],
        imports=END_IMP,
        ensures=[
            "state.routing_decisions[node.name] is (node.fallback if (_ret_node_func is None and node.fallback is not None) else _ret_node_func)",
            "valid_decision(node, state.routing_decisions[node.name])",
            "forall_keys(lambda k: k == node.name or ((k in state.routing_decisions) == old(k in state.routing_decisions) and (k not in state.routing_decisions or state.routing_decisions[k] is old(state.routing_decisions.get(k)))), state.routing_decisions)",
        ],
        ensures_on_raise=[
            "forall_keys(lambda k: (k in state.routing_decisions) == old(k in state.routing_decisions) and (k not in state.routing_decisions or state.routing_decisions[k] is old(state.routing_decisions.get(k))), state.routing_decisions)",
        ],
        may_raise={"Exception": True, "TypeError": True, "ValueError": True},
        modifies=["state.routing_decisions"],
    ),
}
