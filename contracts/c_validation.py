"""Sidecar contracts: build-time validators (C19): each raises GraphConfigError IFF the flaw exists anywhere."""
# ruff: noqa
from pyvc.values import ANY, STR, INT, BOOL, NONE_T, SEQ, DICT, SET, OBJ, OPT, FIXTUP

VF = "graph/validation.py:"
NODES = DICT(STR, OBJ("HyperNode"))
END_IMP = {"END": "hypergraph.nodes.gate"}

CONTRACTS = {
    VF + "_validate_gate_targets": dict(
        props=["C19"],
        params={"nodes": NODES},
        returns=NONE_T,
        imports=END_IMP,
        raises={"GraphConfigError": "any(is_gate(n) and any(t is not END and t not in nodes for t in n.targets) for n in nodes.values())"},
        loops=[
            {"invariant": ["not any(is_gate(n) and any(t is not END and t not in nodes for t in n.targets) for n in _seq[:_i])"]},
            {"invariant": ["not any(is_gate(n) and any(t is not END and t not in nodes for t in n.targets) for n in _seq0[:_i0])",
                           "not any(t is not END and t not in nodes for t in _seq[:_i])"]},
        ],
    ),
    VF + "_validate_no_gate_self_loop": dict(
        props=["C19"],
        params={"nodes": NODES},
        returns=NONE_T,
        raises={"GraphConfigError": "any(is_gate(n) and n.name in n.targets for n in nodes.values())"},
        loops=[{"invariant": ["not any(is_gate(n) and n.name in n.targets for n in _seq[:_i])"]}],
    ),
    VF + "_validate_wait_for_references": dict(
        props=["C19", "C17"],
        params={"nodes": NODES},
        returns=NONE_T,
        raises={"GraphConfigError": "any(any(not any(w in m.outputs for m in nodes.values()) for w in n.wait_for) for n in nodes.values())"},
        loops=[
            {"invariant": ["forall_keys(lambda k: (k in all_outputs) == any(k in m.outputs for m in _seq[:_i]), all_outputs)"]},
            {"invariant": ["forall_keys(lambda k: (k in all_outputs) == any(k in m.outputs for m in nodes.values()), all_outputs)",
                           "not any(any(w not in all_outputs for w in n.wait_for) for n in _seq[:_i])"]},
            {"invariant": ["forall_keys(lambda k: (k in all_outputs) == any(k in m.outputs for m in nodes.values()), all_outputs)",
                           "not any(any(w not in all_outputs for w in n.wait_for) for n in _seq1[:_i1])",
                           "not any(w not in all_outputs for w in _seq[:_i])"]},
        ],
    ),
    VF + "_validate_graph_name": dict(
        props=["C19"],
        params={"graph_name": OPT(STR)},
        returns=NONE_T,
        raises={"GraphConfigError": "graph_name is not None and ('.' in graph_name or '/' in graph_name)"},
        loops=[{"invariant": ["not any(ch in graph_name for ch in _seq[:_i])"]}],
    ),
}
