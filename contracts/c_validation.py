"""Sidecar contracts: build-time validators (C19): each raises GraphConfigError IFF the flaw exists anywhere."""
# ruff: noqa
from pyvc.values import ANY, STR, INT, BOOL, NONE_T, SEQ, DICT, SET, OBJ, OPT, FIXTUP

VF = "graph/validation.py:"
NODES = DICT(STR, OBJ("HyperNode"))
END_IMP = {"END": "hypergraph.nodes.gate"}

REQUIRED_VALIDATORS = ["_validate_graph_name", "_validate_reserved_names", "_validate_valid_identifiers", "_validate_no_namespace_collision",
                       "_validate_consistent_defaults", "_validate_gate_targets", "_validate_no_gate_self_loop", "_validate_multi_target_output_conflicts",
                       "_validate_no_interrupt_in_map_over", "_validate_no_cache_on_non_function_nodes", "_validate_wait_for_references"]


def all_validators_called(tr, outcome, raised, env, ex, s):
    """On every path that returns normally each validator has been called with the graph's node map (graph name for the
    name check); `_validate_types` has been called iff strict_types."""
    from contracts.tracelib import calls
    if outcome.startswith("raise"):
        return True
    for v in REQUIRED_VALIDATORS:
        if not calls(tr, v):
            return False
    from pyvc.engine import truth
    import z3
    strict = truth(env["strict_types"], s)
    return strict if calls(tr, "_validate_types") else z3.Not(strict)


CONTRACTS = {
    VF + "_validate_gate_targets": dict(
        props=["C19"],
        params={"nodes": NODES},
        returns=NONE_T,
        imports=END_IMP,
        raises={"GraphConfigError": "any(is_gate(n) and any(t is not END and t not in nodes for t in n.targets) for n in nodes.values())"},
        loops=[
            {"invariant": ["not any(is_gate(n) and any(t is not END and t not in nodes for t in n.targets) for n in _seq[:_i])"]},
            {"invariant": ["not any(is_gate(n) and any(t is not END and t not in nodes for t in n.targets) for n in _seq0[:_i0])",
                           "not any(t is not END and t not in nodes for t in _seq[:_i])"]},
        ],
    ),
    VF + "_validate_no_gate_self_loop": dict(
        props=["C19"],
        params={"nodes": NODES},
        returns=NONE_T,
        raises={"GraphConfigError": "any(is_gate(n) and n.name in n.targets for n in nodes.values())"},
        loops=[{"invariant": ["not any(is_gate(n) and n.name in n.targets for n in _seq[:_i])"]}],
    ),
    VF + "_validate_wait_for_references": dict(
        props=["C19", "C17"],
        params={"nodes": NODES},
        returns=NONE_T,
        # type invariant of the input (HyperNode.wait_for: tuple[str, ...]) stated as a precondition
        requires=["all(all(isinstance(w, str) for w in n.wait_for) for n in nodes.values())"],
        raises={"GraphConfigError": "any(any(not any(w in m.outputs for m in nodes.values()) for w in n.wait_for) for n in nodes.values())"},
        loops=[
            {"invariant": ["forall_keys(lambda k: (k in all_outputs) == any(k in m.outputs for m in _seq[:_i]), all_outputs)"]},
            {"invariant": ["forall_keys(lambda k: (k in all_outputs) == any(k in m.outputs for m in nodes.values()), all_outputs)",
                           "not any(any(w not in all_outputs for w in n.wait_for) for n in _seq[:_i])"]},
            {"invariant": ["forall_keys(lambda k: (k in all_outputs) == any(k in m.outputs for m in nodes.values()), all_outputs)",
                           "not any(any(w not in all_outputs for w in n.wait_for) for n in _seq1[:_i1])",
                           "not any(w not in all_outputs for w in _seq[:_i])"]},
        ],
    ),
    VF + "_validate_graph_name": dict(
        props=["C19"],
        params={"graph_name": OPT(STR)},
        returns=NONE_T,
        raises={"GraphConfigError": "graph_name is not None and ('.' in graph_name or '/' in graph_name)"},
        loops=[{"invariant": ["not any(ch in graph_name for ch in _seq[:_i])"]}],
    ),
    VF + "_validate_valid_identifiers": dict(
        props=["C19"],
        params={"nodes": NODES},
        returns=NONE_T,
        imports={"GraphNode": "hypergraph.nodes.graph_node", "iskeyword": "keyword"},
        raises={"GraphConfigError": "any(not isinstance(n, GraphNode) and (not n.name.isidentifier() or iskeyword(n.name) or any(not o.isidentifier() or iskeyword(o) for o in n.outputs)) for n in nodes.values())"},
        loops=[
            {"invariant": ["not any(not isinstance(n, GraphNode) and (not n.name.isidentifier() or iskeyword(n.name) or any(not o.isidentifier() or iskeyword(o) for o in n.outputs)) for n in _seq[:_i])"]},
            {"invariant": ["not any(not isinstance(n, GraphNode) and (not n.name.isidentifier() or iskeyword(n.name) or any(not o.isidentifier() or iskeyword(o) for o in n.outputs)) for n in _seq0[:_i0])",
                           "not isinstance(node, GraphNode) and node.name.isidentifier() and not iskeyword(node.name)",
                           "not any(not o.isidentifier() or iskeyword(o) for o in _seq[:_i])"]},
        ],
    ),
    VF + "validate_graph": dict(
        props=["C19"],
        params={"nodes": NODES, "nx_graph": ANY, "graph_name": OPT(STR), "strict_types": BOOL},
        returns=NONE_T,
        requires=["all(all(isinstance(w, str) for w in n.wait_for) for n in nodes.values())"],
        may_raise={"Exception": True},
        trace=[{"name": "C19 every build-time validator runs before the constructor accepts; the type check runs exactly in strict mode",
                "check": all_validators_called}],
    ),
}
