"""Sidecar contracts: build-time validators (C19): each raises GraphConfigError IFF the flaw exists anywhere."""
# ruff: noqa
from pyvc.values import ANY, STR, INT, BOOL, NONE_T, SEQ, DICT, SET, OBJ, OPT, FIXTUP

VF = "graph/validation.py:"
NODES = DICT(STR, OBJ("HyperNode"))
END_IMP = {"END": "hypergraph.nodes.gate"}

REQUIRED_VALIDATORS = ["_validate_graph_name", "_validate_reserved_names", "_validate_valid_identifiers", "_validate_no_namespace_collision",
                       "_validate_consistent_defaults", "_validate_gate_targets", "_validate_no_gate_self_loop", "_validate_multi_target_output_conflicts",
                       "_validate_no_interrupt_in_map_over", "_validate_no_cache_on_non_function_nodes", "_validate_wait_for_references"]


def all_validators_called(tr, outcome, raised, env, ex, s):
    """On every path that returns normally each validator has been called with the graph's node map (graph name for the
    name check); `_validate_types` has been called iff strict_types."""
    from contracts.tracelib import calls
    if outcome.startswith("raise"):
        return True
    for v in REQUIRED_VALIDATORS:
        if not calls(tr, v):
            return False
    from pyvc.engine import truth
    import z3
    strict = truth(env["strict_types"], s)
    return strict if calls(tr, "_validate_types") else z3.Not(strict)


def validate_called_on_self(tr, outcome, raised, env, ex, s):
    from contracts.tracelib import calls
    from pyvc import smt
    from pyvc.engine import to_v, truth
    if outcome.startswith("raise"):
        return True
    cs = calls(tr, "validate_graph")
    if len(cs) != 1:
        return False
    b = cs[0][2]  # arguments bound to the callee's parameter names
    if not all(k in b for k in ("nodes", "graph_name", "strict_types")):
        return False
    args = [b["nodes"], b.get("nx_graph"), b["graph_name"], b["strict_types"]]
    me = env["self"].t
    import z3
    return z3.And(to_v(args[0], s) == smt.attr_func("_nodes")(me), to_v(args[2], s) == smt.attr_func("name")(me), truth(args[3], s) == (smt.attr_func("_strict_types")(me) == smt.TRUE))


def ctor_validates_last(tr, outcome, raised, env, ex, s):
    from contracts.tracelib import calls, names
    if outcome.startswith("raise"):
        return True
    def base(n):  # 'Graph._validate' / 'A__build_graph(p_self)' / '._validate' -> bare method name
        n = n.split("(")[0]
        n = n[2:] if n.startswith("A_") else n
        return n.split(".")[-1]
    ns = [base(e[1]) for e in tr if e[0] == "call"]
    if ns.count("_validate") != 1 or ns.count("_build_nodes_dict") != 1 or ns.count("_build_graph") != 1:
        return False
    iv = ns.index("_validate")
    if not (ns.index("_build_nodes_dict") < ns.index("_build_graph") < iv) or iv != len(ns) - 1:
        return False
    from pyvc.engine import truth
    import z3
    given = z3.Not(env["edges"].t == __import__("pyvc.smt", fromlist=["NONE"]).NONE)
    return given if "_normalize_edges" in ns else z3.Not(given)


GC = "graph/core.py:"

CONTRACTS = {
    VF + "_validate_gate_targets": dict(
        props=["C19"],
        params={"nodes": NODES},
        returns=NONE_T,
        imports=END_IMP,
        raises={"GraphConfigError": "any(is_gate(n) and any(t is not END and t not in nodes for t in n.targets) for n in nodes.values())"},
        loops=[
            {"invariant": ["not any(is_gate(n) and any(t is not END and t not in nodes for t in n.targets) for n in _seq[:_i])"]},
            {"invariant": ["not any(is_gate(n) and any(t is not END and t not in nodes for t in n.targets) for n in _seq0[:_i0])",
                           "not any(t is not END and t not in nodes for t in _seq[:_i])"]},
        ],
    ),
    VF + "_validate_no_gate_self_loop": dict(
        props=["C19"],
        params={"nodes": NODES},
        returns=NONE_T,
        raises={"GraphConfigError": "any(is_gate(n) and n.name in n.targets for n in nodes.values())"},
        loops=[{"invariant": ["not any(is_gate(n) and n.name in n.targets for n in _seq[:_i])"]}],
    ),
    VF + "_validate_wait_for_references": dict(
        props=["C19", "C17"],
        params={"nodes": NODES},
        returns=NONE_T,
        raises={"GraphConfigError": "any(any(not any(w in m.outputs for m in nodes.values()) for w in n.wait_for) for n in nodes.values())"},
        loops=[
            {"invariant": ["all(all(o in all_outputs for o in m.outputs) for m in _seq[:_i])",
                           "all(any(k in m.outputs for m in _seq[:_i]) for k in all_outputs)"]},
            {"invariant": ["all(all(o in all_outputs for o in m.outputs) for m in nodes.values())", "all(any(k in m.outputs for m in nodes.values()) for k in all_outputs)",
                           "not any(any(w not in all_outputs for w in n.wait_for) for n in _seq[:_i])"]},
            {"invariant": ["all(all(o in all_outputs for o in m.outputs) for m in nodes.values())", "all(any(k in m.outputs for m in nodes.values()) for k in all_outputs)",
                           "not any(any(w not in all_outputs for w in n.wait_for) for n in _seq1[:_i1])",
                           "not any(w not in all_outputs for w in _seq[:_i])"]},
        ],
    ),
    VF + "_validate_graph_name": dict(
        props=["C19"],
        params={"graph_name": OPT(STR)},
        returns=NONE_T,
        raises={"GraphConfigError": "graph_name is not None and ('.' in graph_name or '/' in graph_name)"},
        loops=[{"invariant": ["not any(ch in graph_name for ch in _seq[:_i])"]}],
    ),
    VF + "_validate_valid_identifiers": dict(
        props=["C19"],
        params={"nodes": NODES},
        returns=NONE_T,
        imports={"GraphNode": "hypergraph.nodes.graph_node", "iskeyword": "keyword"},
        raises={"GraphConfigError": "any(not isinstance(n, GraphNode) and (not n.name.isidentifier() or iskeyword(n.name) or any(not o.isidentifier() or iskeyword(o) for o in n.outputs)) for n in nodes.values())"},
        loops=[
            {"invariant": ["not any(not isinstance(n, GraphNode) and (not n.name.isidentifier() or iskeyword(n.name) or any(not o.isidentifier() or iskeyword(o) for o in n.outputs)) for n in _seq[:_i])"]},
            {"invariant": ["not any(not isinstance(n, GraphNode) and (not n.name.isidentifier() or iskeyword(n.name) or any(not o.isidentifier() or iskeyword(o) for o in n.outputs)) for n in _seq0[:_i0])",
                           "not isinstance(node, GraphNode) and node.name.isidentifier() and not iskeyword(node.name)",
                           "not any(not o.isidentifier() or iskeyword(o) for o in _seq[:_i])"]},
        ],
    ),
    VF + "validate_graph": dict(
        props=["C19"],
        params={"nodes": NODES, "nx_graph": ANY, "graph_name": OPT(STR), "strict_types": BOOL},
        returns=NONE_T,
        may_raise={"Exception": True},
        trace=[{"name": "C19 every build-time validator runs before the constructor accepts; the type check runs exactly in strict mode",
                "check": all_validators_called}],
    ),
    VF + "_validate_reserved_names": dict(
        props=["C19"],
        params={"nodes": NODES},
        returns=NONE_T,
        raises={"GraphConfigError": "'END' in nodes"},
        loops=[{"invariant": ["not any(k == 'END' for k in _seq[:_i])"]}],
    ),
    VF + "_validate_no_cache_on_non_function_nodes": dict(
        props=["C19"],
        params={"nodes": NODES},
        returns=NONE_T,
        imports={"GraphNode": "hypergraph.nodes.graph_node"},
        raises={"GraphConfigError": "any(isinstance(n, GraphNode) and bool(n.cache) for n in nodes.values())"},
        loops=[{"invariant": ["not any(isinstance(n, GraphNode) and bool(n.cache) for n in _seq[:_i])"]}],
    ),
    VF + "_check_default_values_match": dict(
        props=["C19"],
        params={"param": STR, "with_default": SEQ(FIXTUP(ANY, STR))},
        returns=NONE_T,
        imports={"_values_equal": "hypergraph.graph.validation"},
        raises={"GraphConfigError": "any(not _values_equal(with_default[0][0], p[0]) for p in with_default[1:])"},
        loops=[{"invariant": ["not any(not _values_equal(first_value, p[0]) for p in _seq[:_i])"]}],
    ),
    VF + "_validate_no_interrupt_in_map_over": dict(
        props=["C19"],
        params={"nodes": NODES},
        returns=NONE_T,
        imports={"GraphNode": "hypergraph.nodes.graph_node"},
        raises={"GraphConfigError": "any(isinstance(n, GraphNode) and hasattr(n, 'map_config') and bool(n.map_config) and bool(n.graph.has_interrupts) for n in nodes.values())"},
        loops=[{"invariant": ["not any(isinstance(n, GraphNode) and hasattr(n, 'map_config') and bool(n.map_config) and bool(n.graph.has_interrupts) for n in _seq[:_i])"]}],
    ),
    GC + "Graph._build_nodes_dict": dict(
        props=["C19"],
        params={"self": OBJ("Graph"), "nodes": SEQ(OBJ("HyperNode"))},
        returns=NODES,
        raises={"GraphConfigError": "any(any(nodes[j].name == nodes[i].name for j in range(i)) for i in range(len(nodes)))"},
        ensures=["all(n.name in result and result[n.name] is n for n in nodes)",
                 "forall_keys(lambda k: k not in result or (result[k].name == k and any(n is result[k] for n in nodes)), result)"],
        loops=[{"invariant": ["not any(any(nodes[j].name == nodes[i].name for j in range(i)) for i in range(_i))",
                              "all(n.name in result and result[n.name] is n for n in _seq[:_i])",
                              "forall_keys(lambda k: k not in result or (result[k].name == k and any(n is result[k] for n in _seq[:_i])), result)"]}],
    ),
    GC + "Graph._validate": dict(
        props=["C19"],
        params={"self": OBJ("Graph")},
        returns=NONE_T,
        may_raise={"Exception": True},
        trace=[{"name": "C19 the constructor's validation step runs the whole pipeline on the graph's own node map, name and strict flag", "check": validate_called_on_self}],
    ),
    GC + "Graph.__init__": dict(
        props=["C19"],
        params={"self": OBJ("Graph"), "nodes": SEQ(OBJ("HyperNode")), "edges": ANY, "name": OPT(STR), "strict_types": BOOL},
        returns=NONE_T,
        may_raise={"Exception": True},
        modifies=["self"],
        trace=[{"name": "C19 no constructed graph escapes validation: duplicate-name check, edge normalisation (when edges are given) and graph building precede _validate, which is the last step of every accepting path",
                "check": ctor_validates_last}],
    ),
    VF + "_validate_types": dict(
        props=["C19"],
        params={"nodes": NODES, "nx_graph": ANY},
        returns=NONE_T,
        imports={"is_type_compatible": "hypergraph._typing"},
        # every edge of the built graph joins two of its nodes (established by _build_graph)
        requires=["all(e[0] in nodes and e[1] in nodes for e in nx_graph.edges(data=True))"],
        call_site="opaque",  # the precondition is a fact about Graph._build_graph (networkx), not discharged by validate_graph
        # strict mode: rejected iff SOME value on SOME edge lacks an annotation on either side or has incompatible types -
        # whichever edge, whichever consumer of a value that fans out
        raises={"GraphConfigError": "any((bool(e[2].get('value_names')) and any(nodes[e[0]].get_output_type(v) is None or nodes[e[1]].get_input_type(v) is None or not is_type_compatible(nodes[e[0]].get_output_type(v), nodes[e[1]].get_input_type(v)) for v in e[2].get('value_names'))) for e in nx_graph.edges(data=True))"},
        modifies=[],
        loops=[
            {"invariant": ["not any((bool(e[2].get('value_names')) and any(nodes[e[0]].get_output_type(v) is None or nodes[e[1]].get_input_type(v) is None or not is_type_compatible(nodes[e[0]].get_output_type(v), nodes[e[1]].get_input_type(v)) for v in e[2].get('value_names'))) for e in _seq[:_i])"]},
            {"invariant": ["not any((bool(e[2].get('value_names')) and any(nodes[e[0]].get_output_type(v) is None or nodes[e[1]].get_input_type(v) is None or not is_type_compatible(nodes[e[0]].get_output_type(v), nodes[e[1]].get_input_type(v)) for v in e[2].get('value_names'))) for e in _seq0[:_i0])", "bool(value_names)", "value_names is edge_data.get('value_names')",
                           "source_node is nodes[source_name]", "target_node is nodes[target_name]",
                           "not any(source_node.get_output_type(v) is None or target_node.get_input_type(v) is None or not is_type_compatible(source_node.get_output_type(v), target_node.get_input_type(v)) for v in _seq[:_i])"]},
        ],
    ),
    "nodes/base.py:_validate_emit_wait_for": dict(
        props=["C17", "C19"],
        params={"node_name": STR, "emit": SEQ(STR), "wait_for": SEQ(STR), "data_outputs": SEQ(STR), "inputs": SEQ(STR)},
        returns=NONE_T,
        # ordering names are kept apart from data names, wherever the clash sits in the tuples
        raises={"ValueError": "any(e in data_outputs for e in emit) or any(w in inputs for w in wait_for) or any(e in wait_for for e in emit)"},
        modifies=[],
    ),
}
