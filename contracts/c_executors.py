"""Sidecar contracts (PATH): leaf executors - permit bracket (C15), one call per execution (C01)."""
# ruff: noqa
from pyvc.values import ANY, STR, INT, BOOL, NONE_T, SEQ, DICT, SET, OBJ, OPT, FIXTUP
from contracts.tracelib import names, _nm

AF = "runners/async_/executors/function_node.py:AsyncFunctionNodeExecutor."
SF = "runners/sync/executors/function_node.py:SyncFunctionNodeExecutor."


def permit_bracket(tr, outcome, raised, env, ex, s):
    """C15: with a limiter installed the node body runs between acquire and release on EVERY path (normal or exceptional),
    nothing else runs while the permit is held; without a limiter the body runs exactly once, unguarded."""
    from pyvc.engine import truth
    import z3
    evs = [(e[0], _nm(e[1]) if e[0] == "call" else e[1]) for e in tr if e[0] in ("call", "enter", "exit")]
    body = [i for i, e in enumerate(evs) if e == ("call", "_execute")]
    enters = [i for i, e in enumerate(evs) if e[0] == "enter"]
    exits = [i for i, e in enumerate(evs) if e[0] == "exit"]
    if len(body) != 1:
        return False
    sem = env.get("semaphore")
    has = truth(sem, s) if sem is not None else z3.BoolVal(False)
    if enters:
        inside = [e for e in evs[enters[0] + 1:(exits[0] if exits else len(evs))] if e[0] == "call"]
        ok = len(enters) == 1 and len(exits) == 1 and enters[0] < body[0] < exits[0] and inside == [("call", "_execute")]
        # ... and ALL of the node's work is inside: before the permit only the limiter lookup, after it only the pure
        # packaging helper (a body that drains a generator / awaits anything after releasing the permit runs unguarded)
        before = {e[1] for e in evs[:enters[0]] if e[0] == "call"}
        after = {e[1] for e in evs[exits[0] + 1:] if e[0] == "call"} if exits else set()
        ok = ok and before <= {"get_concurrency_limiter"} and after <= {"wrap_outputs"}
        return has if ok else False
    return z3.Not(has)


def one_call_then_wrap(tr, outcome, *rest):
    """C01: the node function is called exactly once per execution and its result goes through wrap_outputs."""
    ns = names(tr)
    if ns.count("func") > 1:
        return False
    if outcome == "return":
        return ns.count("func") == 1 and ns.count("wrap_outputs") == 1 and ns.index("func") < ns.index("wrap_outputs")
    return True


CONTRACTS = {
    AF + "__call__": dict(
        props=["C15"],
        params={"self": OBJ("AsyncFunctionNodeExecutor"), "node": OBJ("FunctionNode"), "state": OBJ("GraphState"), "inputs": DICT(STR, ANY)},
        returns=DICT(STR, ANY),
        # the node's own type invariant (same as the synchronous executor's): a call of wrap_outputs from this function is then
        # checked against the node invariant, not against an unconstrained symbolic node
        requires=["len(node.data_outputs) <= len(node.outputs)", "all(node.outputs[i] == node.data_outputs[i] for i in range(len(node.data_outputs)))", "distinct_names(node.outputs)"],
        call_site="opaque",
        may_raise={"Exception": True},
        trace=[{"name": "C15 permit bracket around the leaf body on every path; no hold-and-wait; nothing but packaging outside the permit", "check": permit_bracket}],
    ),
    SF + "__call__": dict(
        props=["C01"],
        params={"self": OBJ("SyncFunctionNodeExecutor"), "node": OBJ("FunctionNode"), "state": OBJ("GraphState"), "inputs": DICT(STR, ANY)},
        returns=DICT(STR, ANY),
        requires=["len(node.data_outputs) <= len(node.outputs)", "all(node.outputs[i] == node.data_outputs[i] for i in range(len(node.data_outputs)))", "distinct_names(node.outputs)"],
        may_raise={"Exception": True},
        trace=[{"name": "C01 function called exactly once, result wrapped", "check": one_call_then_wrap}],
    ),
}
