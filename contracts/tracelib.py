"""Trace predicates for PATH obligations: Python checks over the ghost trace of one symbolic path.

trace events: ("call", name, args) | ("raised-by", callee, cls) | ("raise", cls) | ("enter"/"exit", ctx) | ("await",) | ("new", cls) | ("warn", cat)
A check returns True/False, or a z3 Bool that must hold under the path condition.
"""
# ruff: noqa


def names(tr):
    return [e[1].lstrip(".") for e in tr if e[0] == "call"]


def calls(tr, name):
    return [e for e in tr if e[0] == "call" and e[1].lstrip(".") == name]


def positions(tr, pred):
    return [i for i, e in enumerate(tr) if e[0] == "call" and pred(e[1].lstrip("."))]


def raised_by(tr):
    """callee whose exception ended / redirected the path (last raised-by event)."""
    rb = [e for e in tr if e[0] == "raised-by"]
    return rb[-1][1].lstrip(".") if rb else None


def before_effects(validators, effects):
    """Every validator call precedes every effect call; a path on which a validator raised has no effect call at all."""
    def check(tr, outcome, *rest):
        v = positions(tr, lambda n: n in validators)
        e = positions(tr, lambda n: n in effects)
        if v and e and max(v) > min(e):
            return False
        first_raise = next((i for i, ev in enumerate(tr) if ev[0] == "raised-by"), None)
        if first_raise is not None and tr[first_raise][1].lstrip(".") in validators and e:
            return False
        return True
    return check


def bracket(start, end, body=(), shutdown=None):
    """If `start` was called then exactly one `end` follows it (on every path, normal or exceptional), body calls lie between
    them, and `shutdown` (when it occurs) is the last effect and occurs at most once."""
    def check(tr, outcome, *rest):
        ns = names(tr)
        s = [i for i, n in enumerate(ns) if n == start]
        e = [i for i, n in enumerate(ns) if n == end]
        if len(s) > 1:
            return False
        if not s:
            return not e and (shutdown is None or shutdown not in ns)
        # a start that itself raised has no matching end obligation
        if len(e) != 1 or e[0] < s[0]:
            return False
        for i, n in enumerate(ns):
            if n in body and not (s[0] < i < e[0]):
                return False
        if shutdown is not None:
            sd = [i for i, n in enumerate(ns) if n == shutdown]
            if len(sd) > 1 or (sd and sd[0] < e[0]):
                return False
        return True
    return check
