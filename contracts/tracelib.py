"""Trace predicates for PATH obligations: Python checks over the ghost trace of one symbolic path.

trace events: ("call", name, args) | ("raised-by", callee, cls) | ("raise", cls) | ("enter"/"exit", ctx) | ("await",) | ("new", cls) | ("warn", cat)
A check returns True/False, or a z3 Bool that must hold under the path condition.
"""
# ruff: noqa


def _nm(x):
    return x.split(".")[-1]


def names(tr):
    return [_nm(e[1]) for e in tr if e[0] == "call"]


def calls(tr, name):
    return [e for e in tr if e[0] == "call" and _nm(e[1]) == name]


def positions(tr, pred):
    return [i for i, e in enumerate(tr) if e[0] == "call" and pred(_nm(e[1]))]


def raised_by(tr):
    """callee whose exception ended / redirected the path (last raised-by event)."""
    rb = [e for e in tr if e[0] == "raised-by"]
    return _nm(rb[-1][1]) if rb else None


def before_effects(validators, effects):
    """Every validator call precedes every effect call; a path on which a validator raised has no effect call at all."""
    def check(tr, outcome, *rest):
        v = positions(tr, lambda n: n in validators)
        e = positions(tr, lambda n: n in effects)
        if v and e and max(v) > min(e):
            return False
        first_raise = next((i for i, ev in enumerate(tr) if ev[0] == "raised-by"), None)
        if first_raise is not None and _nm(tr[first_raise][1]) in validators and e:
            return False
        return True
    return check


def bracket(start, end, body=(), shutdown=None, paused_ok=False):
    """If `start` was called then exactly one `end` follows it (on every path, normal or exceptional), body calls lie between
    them, and `shutdown` (when it occurs) is the last effect and occurs at most once."""
    def check(tr, outcome, *rest):
        ns = names(tr)
        s = [i for i, n in enumerate(ns) if n == start]
        e = [i for i, n in enumerate(ns) if n == end]
        if len(s) > 1:
            return False
        if not s:
            return not e and (shutdown is None or shutdown not in ns)
        paused = paused_ok and any(ev[0] == "new" and ev[1] == "RunResult" and "PAUSED" in ev[2].get("status", "") for ev in tr)
        if paused:
            # a paused run has not terminated: no RunEnd is required (nor allowed) before the resume
            return not e
        if outcome == "raise:BaseException" and not e:
            # aborted by a non-Exception BaseException (KeyboardInterrupt, SystemExit, pause signal): the run did not
            # terminate "completed or failed" - outside the property's quantifier
            return True
        if len(e) != 1 or e[0] < s[0]:
            return False
        for i, n in enumerate(ns):
            if n in body and not (s[0] < i < e[0]):
                return False
        if shutdown is not None:
            sd = [i for i, n in enumerate(ns) if n == shutdown]
            if len(sd) > 1 or (sd and sd[0] < e[0]):
                return False
        return True
    return check
