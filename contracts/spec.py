"""Shared specification vocabulary (DESIGN.md section 3).

Every function here is plain Python over the REAL object attributes, restricted to the subset pyvc can inline
symbolically (straight-line `return` of an expression; `all`/`any`/comprehensions as quantifiers).  The same text is
therefore both the symbolic definition used in proofs and the executable oracle used by bounded checks and replay.
"""
# ruff: noqa
from contracts.specrt import is_deepcopy, same_keys, forall_keys, is_new, reaches


def avail(graph, state, node, param):
    """A value for `param` of `node` can be found: produced/provided, bound, or defaulted."""
    return param in state.values or param in graph.inputs.bound or bool(node.has_default_for(param))


def all_avail(graph, state, node):
    return all(avail(graph, state, node, p) for p in node.inputs)


def gated(graph, node):
    return node.name in graph.controlled_by and bool(graph.controlled_by[node.name])


def ver(state, name):
    return state.versions.get(name, 0)


def stale(graph, state, node, last_exec):
    """Some consumed input has a version different from the one recorded at the last execution
    (self-produced inputs of un-gated nodes are skipped)."""
    return any(
        not (not gated(graph, node) and p in graph.self_producers and node.name in graph.self_producers[p])
        and ver(state, p) != last_exec.input_versions.get(p, 0)
        for p in node.inputs
    )


def needs(graph, state, node):
    return node.name not in state.node_executions or stale(graph, state, node, state.node_executions[node.name])


def wf_ok(state, node):
    """Ordering dependencies satisfied: every awaited name exists and, on re-execution, is fresher than consumed."""
    return all(
        w in state.values
        and (node.name not in state.node_executions or ver(state, w) > state.node_executions[node.name].wait_for_versions.get(w, 0))
        for w in node.wait_for
    )


def names(decision, node_name, END):
    """A routing decision names (activates) a node."""
    return (
        decision is not END
        and decision is not None
        and ((node_name in decision) if isinstance(decision, list) else decision == node_name)
    )


def is_graph_node(node):
    from hypergraph.nodes.graph_node import GraphNode
    return isinstance(node, GraphNode)


def inner_bound_has(node, param):
    """Nested-graph wrapper whose inner graph binds the parameter this external name stands for."""
    return is_graph_node(node) and node._resolve_original_input_name(param) in node._graph.inputs.bound


def src_defined(graph, state, node, param):
    return (
        param in state.values
        or param in graph.inputs.bound
        or inner_bound_has(node, param)
        or bool(node.has_signature_default_for(param))
    )


def src_kind(graph, state, node, param, VS):
    """Precedence: upstream/run-time value (state) > bound (outer, then inner graph) > signature default."""
    return (
        VS.EDGE if param in state.values
        else VS.BOUND if (param in graph.inputs.bound or inner_bound_has(node, param))
        else VS.DEFAULT
    )


def src_value(graph, state, node, param):
    return (
        state.values[param] if param in state.values
        else graph.inputs.bound[param] if param in graph.inputs.bound
        else node._graph.inputs.bound[node._resolve_original_input_name(param)] if inner_bound_has(node, param)
        else node.get_signature_default_for(param)
    )


def resolved_ok(v, graph, state, node, param, VS):
    """The value handed to the node: the very object found (never copied) unless it is a signature default,
    which is deep-copied per resolution."""
    return (
        is_deepcopy(v, src_value(graph, state, node, param))
        if src_kind(graph, state, node, param, VS) is VS.DEFAULT
        else v is src_value(graph, state, node, param)
    )


def passes_down_default(graph, state, node, param, VS, GraphNode):
    """`param` of a nested-graph node would be served by a signature default of its inner nodes: the nested run resolves it."""
    return isinstance(node, GraphNode) and src_kind(graph, state, node, param, VS) is VS.DEFAULT


def is_gate(node):
    from hypergraph.nodes.gate import GateNode
    return isinstance(node, GateNode)


def clears(graph, state, k, END):
    """The recorded decision of gate k is dropped: k is a gate that must re-run and its decision is not END."""
    return (
        k in state.routing_decisions
        and k in graph._nodes
        and is_gate(graph._nodes[k])
        and state.routing_decisions[k] is not END
        and needs(graph, state, graph._nodes[k])
    )


def gate_opens(graph, state, g, n, END):
    """Controlling gate g lets node n start: its latest decision names n, or it has not decided yet in this run
    and allows early start."""
    return (
        (g not in state.node_executions and g in graph._nodes and bool(getattr(graph._nodes[g], "default_open", True)))
        if state.routing_decisions.get(g) is None
        else names(state.routing_decisions.get(g), n, END)
    )


def node_activated(graph, state, n, END):
    return not (n in graph.controlled_by and bool(graph.controlled_by[n])) or any(gate_opens(graph, state, g, n, END) for g in graph.controlled_by[n])


def nodes_keyed_by_name(graph):
    """Object-model fact (proved for Graph._build_nodes_dict): the node map is keyed by node name."""
    return forall_keys(lambda k: k not in graph._nodes or graph._nodes[k].name == k, graph._nodes)


def gated_name(graph, n):
    return n in graph.controlled_by and bool(graph.controlled_by[n])


def distinct_names(seq):
    return all(seq[i] != seq[j] for i in range(len(seq)) for j in range(len(seq)) if i != j)


def valid_decision(node, decision):
    """A routing decision a RouteNode may store: None, or (multi-target) a list of declared targets,
    or (single-target) one declared target (END counts when declared)."""
    return decision is None or (
        (isinstance(decision, list) and all(t in node.targets for t in decision))
        if node.multi_target
        else (not isinstance(decision, list) and decision in node.targets)
    )


def targets_are_names(node, END):
    """Object-model fact (gate constructors normalise targets): every target is a node name or END."""
    return all(isinstance(t, str) or t is END for t in node.targets)


def gate_shape(node, END):
    """Object-model facts about gates: no data outputs (outputs are emit names only), targets are names or END."""
    return len(node.data_outputs) == 0 and targets_are_names(node, END) and distinct_names(node.outputs)


def in_effective_selection(k, select, graph, UNSET):
    """k may appear in the returned values: it is a declared output when everything is selected, else one of the
    selected names (run-time select overrides the graph-level default)."""
    return (
        ((k in graph.outputs) if graph.selected is None else (k in graph.selected))
        if select is UNSET
        else ((k in graph.outputs) if select == "**" else ((k == select) if isinstance(select, str) else any(x == k for x in select)))
    )


def ready0(graph, state, node, activated_names):
    """Ready before gate blocking and ordering deferral: activated, inputs available, ordering satisfied, needs a run."""
    return node.name in activated_names and all_avail(graph, state, node) and wf_ok(state, node) and needs(graph, state, node)


def is_deferred(ready, n):
    """n waits for a name that another node of the same ready set produces: the consumer is deferred one step."""
    return any(w in m.outputs and m.name != n.name for w in n.wait_for for m in ready)


def in_scope(node, active_nodes):
    return active_nodes is None or node.name in active_nodes


def targets_blocked(g, blocked, END):
    """Every real target of gate g other than g itself is in the blocked set."""
    return all(t is END or t == g.name or t in blocked for t in g.targets)


def gate_targets_ok(g, END):
    """Object-model fact: targets of a gate are node names (str) or END (gate constructors normalise them)."""
    return not is_gate(g) or targets_are_names(g, END)


def gates_wellformed(graph, END):
    """Object-model fact about graphs built by the constructor: every gate's targets are node names or END."""
    return forall_keys(lambda k: k not in graph._nodes or gate_targets_ok(graph._nodes[k], END), graph._nodes)


def any_default(param, nodes):
    """Some node consuming `param` has a default (or bound-inside) value for it."""
    return any(param in n.inputs and bool(n.has_default_for(param)) for n in nodes.values())


def entry_satisfied(entrypoints, name, provided, bypassed):
    """Every cycle parameter the entry point needs is provided (or bypassed by an internal override)."""
    return all(p in bypassed or p in provided for p in entrypoints[name])
