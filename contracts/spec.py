"""Shared specification vocabulary (DESIGN.md section 3).

Every function here is plain Python over the REAL object attributes, restricted to the subset pyvc can inline
symbolically (straight-line `return` of an expression; `all`/`any`/comprehensions as quantifiers).  The same text is
therefore both the symbolic definition used in proofs and the executable oracle used by bounded checks and replay.
"""
# ruff: noqa


def avail(graph, state, node, param):
    """A value for `param` of `node` can be found: produced/provided, bound, or defaulted."""
    return param in state.values or param in graph.inputs.bound or bool(node.has_default_for(param))


def all_avail(graph, state, node):
    return all(avail(graph, state, node, p) for p in node.inputs)


def gated(graph, node):
    return bool(graph.controlled_by.get(node.name))


def ver(state, name):
    return state.versions.get(name, 0)


def stale(graph, state, node, last_exec):
    """Some consumed input has a version different from the one recorded at the last execution
    (self-produced inputs of un-gated nodes are skipped)."""
    return any(
        not (not gated(graph, node) and node.name in graph.self_producers.get(p, set()))
        and ver(state, p) != last_exec.input_versions.get(p, 0)
        for p in node.inputs
    )


def needs(graph, state, node):
    return node.name not in state.node_executions or stale(graph, state, node, state.node_executions[node.name])


def wf_ok(state, node):
    """Ordering dependencies satisfied: every awaited name exists and, on re-execution, is fresher than consumed."""
    return all(
        w in state.values
        and (node.name not in state.node_executions or ver(state, w) > state.node_executions[node.name].wait_for_versions.get(w, 0))
        for w in node.wait_for
    )


def names(decision, node_name, END):
    """A routing decision names (activates) a node."""
    return (
        decision is not END
        and decision is not None
        and ((node_name in decision) if isinstance(decision, list) else decision == node_name)
    )
