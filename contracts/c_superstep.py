"""Sidecar contracts: one superstep (C02 isolation: nodes of one step read the SNAPSHOT and write the COPY; C11 wrapping)."""
# ruff: noqa
from pyvc.values import ANY, STR, INT, BOOL, NONE_T, SEQ, DICT, SET, OBJ, OPT, FIXTUP
from contracts.tracelib import names, calls, _nm

SS = "runners/sync/superstep.py:"
AS = "runners/async_/superstep.py:"


def _val_t(v):
    return getattr(v, "t", None)


def isolation(executor_names):
    """Every input collection and every recorded input / wait_for version of this step reads the state object the
    superstep was CALLED with; the executor is handed a different object (the copy) to write to."""
    def check(tr, outcome, raised, env, ex, s):
        import z3
        snap = _val_t(env.get("state"))
        if snap is None:
            return False
        conds = []
        for e in tr:
            if e[0] != "call":
                continue
            n = _nm(e[1])
            if n == "collect_inputs_for_node":
                st = _val_t(e[2].get("state"))
                if st is None:
                    return False
                conds.append(st == snap)
            elif n == "get_version":
                st = _val_t(e[2].get("self"))
                if st is None:
                    return False
                conds.append(st == snap)
            elif n in executor_names:
                args = e[2].get("args", [])
                if len(args) < 2 or _val_t(args[1]) is None:
                    return False
                conds.append(_val_t(args[1]) != snap)
            elif n in ("update_value", "restore_routing_decision"):
                tgt = _val_t(e[2].get("self") if n == "update_value" else e[2].get("state"))
                if tgt is None:
                    return False
                conds.append(tgt != snap)
        return z3.And(*conds) if conds else True
    return check


BUILDERS = {"build_node_start_event": "start", "build_node_end_event": "end", "build_node_error_event": "error",
            "build_cache_hit_event": "cache_hit", "build_route_decision_event": "route"}
EMITS = {"emit", "emit_async"}


def node_span(debug=bool(__import__("os").environ.get("NODE_SPAN_DEBUG"))):
    """C12, one executed node: when the dispatcher is active the node's events are, in this order, exactly one NodeStart (the
    first delivery), then only cache-hit / route-decision events, and exactly one closing event (NodeEnd when the node's
    outputs are used, NodeError when an Exception leaves the node) as the LAST delivery; the closing and cache-hit events
    are built from the span id the start builder returned, and every builder is given this run's id, this run's span and
    this node; while the node runs, the executor closure's span holder holds this node's span id (the parent of a nested
    run).  An inactive dispatcher is handed nothing.  (The fields of the events are the builders' own contracts,
    c_event_helpers.py.)  Not covered: a path on which a delivery itself raised (a strict dispatcher's processor failure),
    and a non-Exception BaseException leaving the node (pause / interpreter shutdown: the run does not terminate
    "completed or failed", outside C12's quantifier) - there at most one closing event may have been delivered."""
    def check(tr, outcome, raised, env, ex, s):
        import z3
        from pyvc.engine import truth
        marks = [i for i, e in enumerate(tr) if e[0] == "loop-iter" and e[1] == 0]
        if marks:
            tr = tr[marks[-1]:]
        elif any(e[0] == "loop-exhausted" and e[1] == 0 for e in tr):
            return True  # the node loop completed: every iteration was checked as a loop body
        calls_ = [e for e in tr if e[0] == "call"]
        built = [(BUILDERS[_nm(e[1])], e[2]) for e in calls_ if _nm(e[1]) in BUILDERS]
        emits = [e[2] for e in calls_ if _nm(e[1]) in EMITS]
        if debug:
            print("node_span-all", outcome, [(_nm(e[1])) for e in tr if e[0] in ("call", "raised-by") and _nm(e[1]) in set(BUILDERS) | EMITS | {"execute_node"}], [e[1:] for e in tr if e[0] == "raised-by"])
        if any(e[0] == "raised-by" and _nm(e[1]) in EMITS for e in tr):
            return True
        starts = [b for b in built if b[0] == "start"]
        if not starts:
            return not emits
        if len(starts) != 1 or "_result" not in starts[0][1]:
            return False
        sid, start_evt = starts[0][1]["_result"].items
        active = truth(env["active"], s)
        base = []
        if any(e[0] == "call" and str(e[1]).endswith("execute_node") for e in tr):
            # the executor closure's span holder carries THIS node's span while the node runs (nested runs take it as their
            # parent span, c_execute_node.py / c_nested.py); nothing between the store and the end of the step rewrites it
            has = ex.eval_clause("hasattr(execute_node, 'current_span_id')", s)
            base.append(z3.Implies(has, ex.eval_pure("execute_node.current_span_id[0]", s) == _val_t(sid)))
        if not emits:
            return z3.And(z3.Not(active), *base)
        conds = [active] + base
        kinds = []
        for em in emits:
            ev_t = _val_t(em.get("event"))
            src = [b for b in built if ev_t is not None and "_result" in b[1] and (
                _val_t(b[1]["_result"].items[1] if b[0] == "start" else b[1]["_result"]) is not None
                and _val_t(b[1]["_result"].items[1] if b[0] == "start" else b[1]["_result"]).eq(ev_t))]
            if len(src) != 1:
                return False  # something other than a builder's event was delivered
            kinds.append(src[0][0])
            a = src[0][1]
            conds += [_val_t(a["run_id"]) == _val_t(env["run_id"]), _val_t(a["run_span_id"]) == _val_t(env["run_span_id"]), _val_t(a["node"]) == _val_t(env["node"])]
            if src[0][0] in ("end", "error", "cache_hit"):
                conds.append(_val_t(a["node_span_id"]) == _val_t(sid))
        if debug:
            print("node_span", outcome, kinds)
        closers = [k for k in kinds if k in ("end", "error")]
        if kinds[0] != "start" or kinds.count("start") != 1 or len(closers) > 1 or (closers and kinds[-1] not in ("end", "error")):
            return False
        if outcome in ("iter", "return"):
            ok = kinds[-1] == "end"
        elif outcome == "raise:BaseException":
            # an Exception leaving the node must have produced the NodeError; a pause / interpreter-level signal need not
            ok = True
            if not closers:
                exc = getattr(raised, "exc", None)
                if exc is None:
                    return False
                from pyvc import smt
                conds.append(z3.Not(smt.inst_pred("Exception")(exc.t)))
            elif kinds[-1] != "error":
                ok = False
        else:
            ok = kinds[-1] == "error"
        return z3.And(*conds) if ok else False
    return {"name": "C12 one node = one span: NodeStart first, exactly one NodeEnd / NodeError of the SAME span last, nothing when inactive", "check": check}


SUPERSTEP_PARAMS = {"graph": OBJ("Graph"), "state": OBJ("GraphState"), "ready_nodes": SEQ(OBJ("HyperNode")), "provided_values": DICT(STR, ANY), "execute_node": ANY,
                    "cache": ANY, "dispatcher": OPT(OBJ("EventDispatcher")), "run_id": STR, "run_span_id": STR}

CONTRACTS = {
    SS + "run_superstep_sync": dict(
        props=["C02", "C01", "C12"],
        params=SUPERSTEP_PARAMS,
        returns=OBJ("GraphState"),
        # call-site preconditions: run-time inputs are seeded into the state (initialize_state); every ready node has a
        # source for each input (readiness, get_ready_nodes)
        requires=["all(k in state.values for k in provided_values)",
                  "all(all(src_defined(graph, state, n, p) for p in n.inputs) for n in ready_nodes)"],
        may_raise={"BaseException": True},
        call_site="opaque",  # callers (the runner loops) are verified against the declared object-model behaviour, as before
        ensures=["result is not state"],
        # the snapshot is never written: every write goes to objects allocated by this call (the copy)
        modifies=["execute_node.current_span_id"],
        trace=[{"name": "C02 same-step isolation on every path out of the superstep", "check": isolation({"execute_node"})}, node_span()],
        loops=[{"modifies": ["new_state.values", "new_state.versions", "new_state.routing_decisions", "new_state.node_executions", "execute_node.current_span_id"],
                "invariant": ["new_state is not state"], "body_trace": [{"name": "C02 same-step isolation in every completed iteration", "check": isolation({"execute_node"})}, node_span()]},
               {"modifies": ["new_state.values", "new_state.versions"], "invariant": []}],
        callables={"execute_node": {"raises": ["BaseException"], "returns": DICT(STR, ANY)}},
    ),
}

# The per-node worker of the asynchronous superstep is a closure: its free variables (the superstep's arguments and the
# copy `new_state` made before the workers start) are given as parameters, with `new_state is not state` from the caller.
CONTRACTS.update({
    AS + "run_superstep_async.execute_one": dict(
        props=["C02", "C01", "C12"],
        params={"node": OBJ("HyperNode"), "graph": OBJ("Graph"), "state": OBJ("GraphState"), "new_state": OBJ("GraphState"), "provided_values": DICT(STR, ANY),
                "execute_node": ANY, "cache": ANY, "dispatcher": OPT(OBJ("EventDispatcher")), "active": BOOL, "run_id": STR, "run_span_id": STR},
        returns=ANY,
        requires=["new_state is not state", "all(k in state.values for k in provided_values)", "all(src_defined(graph, state, node, p) for p in node.inputs)",
                  "new_state.routing_decisions is not state.routing_decisions",
                  "active == (dispatcher is not None and bool(dispatcher.active))"],
        may_raise={"BaseException": True},
        call_site="opaque",
        # the worker writes only to the copy's routing decisions (through the executor / cache restore) and the span slot
        modifies=["new_state.routing_decisions", "execute_node.current_span_id"],
        trace=[{"name": "C02 same-step isolation: the worker reads the snapshot, hands the copy to the executor", "check": isolation({"execute_node"})}, node_span()],
        callables={"execute_node": {"raises": ["BaseException"], "returns": DICT(STR, ANY), "coroutine": True}},
    ),
})


def interrupt_alone(tr, outcome, raised, env, ex, s):
    """C14: when an interrupt node is ready, the step starts exactly ONE worker, for the first ready interrupt - nothing else
    runs in the step in which a run may pause; otherwise one worker per ready node."""
    import z3
    if "tasks" not in env:
        return True  # the path ended before the workers were created
    one = ex.eval_clause("len(ready_nodes) == 1 and ready_nodes[0].is_interrupt and ready_nodes[0] is interrupts[0] and ready_nodes[0] in old(ready_nodes) and len(tasks) == 1", s)
    same = ex.eval_clause("ready_nodes is old(ready_nodes) and len(tasks) == len(ready_nodes)", s)
    anyint = ex.eval_clause("any(n.is_interrupt for n in old(ready_nodes))", s)
    return z3.If(anyint, one, same)


def collector_complete(tr, outcome, raised, env, ex, s):
    """C11: once the workers have been gathered, the collector visits EVERY result before the step returns or raises (the loop
    is never left early: the outputs of the successful siblings of a failing node are applied before the failure surfaces)."""
    gathered = any(e[0] == "call" and "gather" in str(e[1]) for e in tr)
    if not gathered or any(e[0] == "raised-by" and "gather" in str(e[1]) for e in tr):
        return True
    return any(e[0] == "loop-exhausted" and e[1] == 0 for e in tr)


CONTRACTS.update({
    AS + "run_superstep_async": dict(
        props=["C02", "C11", "C14"],
        params=dict(SUPERSTEP_PARAMS, max_concurrency=OPT(INT)),
        returns=OBJ("GraphState"),
        may_raise={"BaseException": True},
        call_site="opaque",
        ensures=["result is not state"],
        modifies=[],
        trace=[{"name": "C02 the collected outputs are written to the copy, never to the snapshot", "check": isolation(set())},
               {"name": "C14 a ready interrupt runs alone: one worker, for the first ready interrupt; otherwise one worker per ready node", "check": interrupt_alone},
               {"name": "C11 the collector visits every gathered result before the step returns or raises (no early exit)", "check": collector_complete}],
        loops=[{"modifies": ["new_state.values", "new_state.versions", "new_state.node_executions"], "invariant": ["new_state is not state"],
                "body_trace": [{"name": "C02 outputs applied to the copy", "check": isolation(set())}]},
               {"modifies": ["new_state.values", "new_state.versions"], "invariant": []}],
    ),
})
