"""Sidecar contracts: one superstep (C02 isolation: nodes of one step read the SNAPSHOT and write the COPY; C11 wrapping)."""
# ruff: noqa
from pyvc.values import ANY, STR, INT, BOOL, NONE_T, SEQ, DICT, SET, OBJ, OPT, FIXTUP
from contracts.tracelib import names, calls, _nm

SS = "runners/sync/superstep.py:"
AS = "runners/async_/superstep.py:"


def _val_t(v):
    return getattr(v, "t", None)


def isolation(executor_names):
    """Every input collection and every recorded input / wait_for version of this step reads the state object the
    superstep was CALLED with; the executor is handed a different object (the copy) to write to."""
    def check(tr, outcome, raised, env, ex, s):
        import z3
        snap = _val_t(env.get("state"))
        if snap is None:
            return False
        conds = []
        for e in tr:
            if e[0] != "call":
                continue
            n = _nm(e[1])
            if n == "collect_inputs_for_node":
                st = _val_t(e[2].get("state"))
                if st is None:
                    return False
                conds.append(st == snap)
            elif n == "get_version":
                st = _val_t(e[2].get("self"))
                if st is None:
                    return False
                conds.append(st == snap)
            elif n in executor_names:
                args = e[2].get("args", [])
                if len(args) < 2 or _val_t(args[1]) is None:
                    return False
                conds.append(_val_t(args[1]) != snap)
            elif n in ("update_value", "restore_routing_decision"):
                tgt = _val_t(e[2].get("self") if n == "update_value" else e[2].get("state"))
                if tgt is None:
                    return False
                conds.append(tgt != snap)
        return z3.And(*conds) if conds else True
    return check


SUPERSTEP_PARAMS = {"graph": OBJ("Graph"), "state": OBJ("GraphState"), "ready_nodes": SEQ(OBJ("HyperNode")), "provided_values": DICT(STR, ANY), "execute_node": ANY,
                    "cache": ANY, "dispatcher": OPT(OBJ("EventDispatcher")), "run_id": STR, "run_span_id": STR}

CONTRACTS = {
    SS + "run_superstep_sync": dict(
        props=["C02", "C01"],
        params=SUPERSTEP_PARAMS,
        returns=OBJ("GraphState"),
        # call-site preconditions: run-time inputs are seeded into the state (initialize_state); every ready node has a
        # source for each input (readiness, get_ready_nodes)
        requires=["all(k in state.values for k in provided_values)",
                  "all(all(src_defined(graph, state, n, p) for p in n.inputs) for n in ready_nodes)"],
        may_raise={"BaseException": True},
        call_site="opaque",  # callers (the runner loops) are verified against the declared object-model behaviour, as before
        ensures=["result is not state"],
        # the snapshot is never written: every write goes to objects allocated by this call (the copy)
        modifies=["execute_node.current_span_id"],
        trace=[{"name": "C02 same-step isolation on every path out of the superstep", "check": isolation({"execute_node"})}],
        loops=[{"modifies": ["new_state.values", "new_state.versions", "new_state.routing_decisions", "new_state.node_executions", "execute_node.current_span_id"],
                "invariant": ["new_state is not state"], "body_trace": [{"name": "C02 same-step isolation in every completed iteration", "check": isolation({"execute_node"})}]},
               {"modifies": ["new_state.values", "new_state.versions"], "invariant": []}],
        callables={"execute_node": {"raises": ["BaseException"], "returns": DICT(STR, ANY)}},
    ),
}

# The per-node worker of the asynchronous superstep is a closure: its free variables (the superstep's arguments and the
# copy `new_state` made before the workers start) are given as parameters, with `new_state is not state` from the caller.
CONTRACTS.update({
    AS + "run_superstep_async.execute_one": dict(
        props=["C02", "C01"],
        params={"node": OBJ("HyperNode"), "graph": OBJ("Graph"), "state": OBJ("GraphState"), "new_state": OBJ("GraphState"), "provided_values": DICT(STR, ANY),
                "execute_node": ANY, "cache": ANY, "dispatcher": OPT(OBJ("EventDispatcher")), "active": BOOL, "run_id": STR, "run_span_id": STR},
        returns=ANY,
        requires=["new_state is not state", "all(k in state.values for k in provided_values)", "all(src_defined(graph, state, node, p) for p in node.inputs)",
                  "new_state.routing_decisions is not state.routing_decisions",
                  "active == (dispatcher is not None and bool(dispatcher.active))"],
        may_raise={"BaseException": True},
        call_site="opaque",
        # the worker writes only to the copy's routing decisions (through the executor / cache restore) and the span slot
        modifies=["new_state.routing_decisions", "execute_node.current_span_id"],
        trace=[{"name": "C02 same-step isolation: the worker reads the snapshot, hands the copy to the executor", "check": isolation({"execute_node"})}],
        callables={"execute_node": {"raises": ["BaseException"], "returns": DICT(STR, ANY), "coroutine": True}},
    ),
})


CONTRACTS.update({
    AS + "run_superstep_async": dict(
        props=["C02"],
        params=dict(SUPERSTEP_PARAMS, max_concurrency=OPT(INT)),
        returns=OBJ("GraphState"),
        may_raise={"BaseException": True},
        call_site="opaque",
        ensures=["result is not state"],
        modifies=[],
        trace=[{"name": "C02 the collected outputs are written to the copy, never to the snapshot", "check": isolation(set())}],
        loops=[{"modifies": ["new_state.values", "new_state.versions", "new_state.node_executions"], "invariant": ["new_state is not state"],
                "body_trace": [{"name": "C02 outputs applied to the copy", "check": isolation(set())}]},
               {"modifies": ["new_state.values", "new_state.versions"], "invariant": []}],
    ),
})
