"""Object-model declarations for pyvc (assumptions A3/A4 of DESIGN.md 7.2 unless proved by a contract).

attrs: attribute -> static type; reading it is a pure function of the object within one call.
methods: method -> {'returns': ty, 'pure': True}  (uninterpreted function of self and arguments; raises nothing)
"""
# ruff: noqa
import z3

from pyvc import smt
from pyvc.values import ANY, STR, INT, BOOL, NONE_T, EXC, SEQ, DICT, SET, OBJ, OPT, FIXTUP, Val, BVal, IVal, TupVal

NODE_ATTRS = {
    "name": STR,
    "inputs": SEQ(STR),
    "outputs": SEQ(STR),
    "wait_for": SEQ(STR),
    "data_outputs": SEQ(STR),
    "targets": SEQ(ANY),
    "default_open": BOOL,
    "cache": BOOL,
    "is_interrupt": BOOL,
    "is_async": BOOL,
    "multi_target": BOOL,
    "fallback": ANY,
    "when_true": ANY,
    "when_false": ANY,
    "definition_hash": STR,
    "func": ANY,
    "_rename_history": SEQ(OBJ("RenameEntry")),
    "_graph": OBJ("Graph"),
    "graph": OBJ("Graph"),
    "_map_over": OPT(SEQ(STR)),
    "_clone": ANY,
    "_emit": SEQ(STR),
    "_wait_for": SEQ(STR),
    "is_generator": BOOL,
}

NODE_METHODS = {
    "has_default_for": {"returns": BOOL},
    "get_default_for": {"returns": ANY},
    "has_signature_default_for": {"returns": BOOL},
    "get_signature_default_for": {"returns": ANY},
    "map_inputs_to_params": {"returns": DICT(STR, ANY)},
    "map_outputs_from_original": {"returns": DICT(STR, ANY)},
    "get_input_type": {"returns": ANY},
    "get_output_type": {"returns": ANY},
    "_resolve_original_input_name": {"returns": STR},
}

CLASSES = {
    "HyperNode": {"module": "hypergraph.nodes.base", "file": "nodes/base.py", "attrs": NODE_ATTRS, "methods": NODE_METHODS,
                  "optional_attrs": ("default_open", "cache", "targets", "multi_target")},
    "GateNode": {"module": "hypergraph.nodes.gate", "file": "nodes/gate.py", "attrs": {}, "methods": {}},
    "RouteNode": {"module": "hypergraph.nodes.gate", "file": "nodes/gate.py", "attrs": {}, "methods": {}},
    "IfElseNode": {"module": "hypergraph.nodes.gate", "file": "nodes/gate.py", "attrs": {}, "methods": {}},
    "FunctionNode": {"module": "hypergraph.nodes.function", "file": "nodes/function.py", "attrs": {}, "methods": {}},
    "InterruptNode": {"module": "hypergraph.nodes.interrupt", "file": "nodes/interrupt.py", "attrs": {}, "methods": {}},
    "GraphNode": {"module": "hypergraph.nodes.graph_node", "file": "nodes/graph_node.py", "attrs": {}, "methods": {}},
    "Graph": {
        "module": "hypergraph.graph.core", "file": "graph/core.py",
        "attrs": {
            "_nodes": DICT(STR, OBJ("HyperNode")),
            "controlled_by": DICT(STR, SEQ(STR)),
            "self_producers": DICT(STR, SET(STR)),
            "inputs": OBJ("InputSpec"),
            "outputs": SEQ(STR),
            "selected": OPT(SEQ(STR)),
            "entrypoints_config": OPT(SEQ(STR)),
            "_nx_graph": ANY,
            "_bound": DICT(STR, ANY),
            "name": OPT(STR),
            "_selected": OPT(SEQ(STR)),
            "_entrypoints": OPT(SEQ(STR)),
            "_strict_types": BOOL,
            "_explicit_edges": ANY,
        },
        "methods": {"iter_nodes": {"custom": lambda ex, recv, args, kwargs, s: _graph_iter_nodes(ex, recv, s)},
                    "_shallow_copy": {"custom": lambda ex, recv, args, kwargs, s: _graph_shallow_copy(ex, recv, s)},
                    "_get_emit_only_outputs": {"returns": SET(STR)}},
    },
    "InputSpec": {
        "module": "hypergraph.graph.input_spec", "file": "graph/input_spec.py",
        "attrs": {"required": SEQ(STR), "optional": SEQ(STR), "entrypoints": DICT(STR, SEQ(STR)), "bound": DICT(STR, ANY), "all": SEQ(STR)},
        "methods": {},
    },
    "GraphState": {
        "module": "hypergraph.runners._shared.types", "file": "runners/_shared/types.py",
        "attrs": {
            "values": DICT(STR, ANY),
            "versions": DICT(STR, INT),
            "node_executions": DICT(STR, OBJ("NodeExecution")),
            "routing_decisions": DICT(STR, ANY),
        },
        "methods": {"copy": {"custom": lambda ex, recv, args, kwargs, s: _graphstate_copy(ex, recv, s)}},
    },
    "NodeExecution": {
        "module": "hypergraph.runners._shared.types", "file": "runners/_shared/types.py",
        "attrs": {"node_name": STR, "input_versions": DICT(STR, INT), "outputs": DICT(STR, ANY), "wait_for_versions": DICT(STR, INT)},
        "methods": {},
    },
    "RenameEntry": {
        "module": "hypergraph.nodes._rename", "file": "nodes/_rename.py",
        "attrs": {"kind": STR, "old": STR, "new": STR, "batch_id": ANY},
        "methods": {},
    },
    # frozen event dataclasses of the run level (built by the runners' _emit_run_start / _emit_run_end, c_runner_events.py)
    "RunStartEvent": {
        "module": "hypergraph.events.types", "file": "events/types.py",
        "attrs": {"run_id": STR, "span_id": STR, "parent_span_id": OPT(STR), "timestamp": ANY, "graph_name": STR, "workflow_id": OPT(STR), "is_map": BOOL, "map_size": OPT(INT)},
        "methods": {},
    },
    "RunEndEvent": {
        "module": "hypergraph.events.types", "file": "events/types.py",
        "attrs": {"run_id": STR, "span_id": STR, "parent_span_id": OPT(STR), "timestamp": ANY, "graph_name": STR, "status": ANY, "error": OPT(STR), "duration_ms": ANY},
        "methods": {},
    },
    # frozen event dataclasses of the node level (built by runners/_shared/event_helpers.py, contracts c_event_helpers.py)
    "NodeStartEvent": {
        "module": "hypergraph.events.types", "file": "events/types.py",
        "attrs": {"run_id": STR, "span_id": STR, "parent_span_id": OPT(STR), "timestamp": ANY, "node_name": STR, "graph_name": STR},
        "methods": {},
    },
    "NodeEndEvent": {
        "module": "hypergraph.events.types", "file": "events/types.py",
        "attrs": {"run_id": STR, "span_id": STR, "parent_span_id": OPT(STR), "timestamp": ANY, "node_name": STR, "graph_name": STR, "duration_ms": ANY, "cached": BOOL},
        "methods": {},
    },
    "CacheHitEvent": {
        "module": "hypergraph.events.types", "file": "events/types.py",
        "attrs": {"run_id": STR, "span_id": STR, "parent_span_id": OPT(STR), "timestamp": ANY, "node_name": STR, "graph_name": STR, "cache_key": STR},
        "methods": {},
    },
    "NodeErrorEvent": {
        "module": "hypergraph.events.types", "file": "events/types.py",
        "attrs": {"run_id": STR, "span_id": STR, "parent_span_id": OPT(STR), "timestamp": ANY, "node_name": STR, "graph_name": STR, "error": STR, "error_type": STR},
        "methods": {},
    },
    "RouteDecisionEvent": {
        "module": "hypergraph.events.types", "file": "events/types.py",
        "attrs": {"run_id": STR, "span_id": STR, "parent_span_id": OPT(STR), "timestamp": ANY, "node_name": STR, "graph_name": STR, "decision": ANY},
        "methods": {},
    },
    "RunResult": {
        "module": "hypergraph.runners._shared.types", "file": "runners/_shared/types.py",
        "attrs": {"values": DICT(STR, ANY), "status": ANY, "error": ANY, "pause": ANY, "run_id": STR},
        "methods": {},
    },
    "SyncRunnerTemplate": {
        "module": "hypergraph.runners._shared.template_sync", "file": "runners/_shared/template_sync.py",
        "attrs": {"default_max_iterations": INT, "capabilities": ANY, "supported_node_types": ANY},
        "methods": {
            # dispatcher plumbing does not raise: EventDispatcher.emit/shutdown contain processor failures (C13 contracts)
            "_create_dispatcher": {"pure": False, "returns": OBJ("EventDispatcher"), "raises": []},
            "_emit_run_start_sync": {"pure": False, "returns": FIXTUP(STR, STR), "raises": []},
            "_emit_run_end_sync": {"pure": False, "returns": NONE_T, "raises": []},
            "_shutdown_dispatcher_sync": {"pure": False, "returns": NONE_T, "raises": []},
            "_execute_graph_impl": {"pure": False, "returns": OBJ("GraphState"), "raises": ["BaseException"]},
        },
    },
    "AsyncFunctionNodeExecutor": {
        "module": "hypergraph.runners.async_.executors.function_node", "file": "runners/async_/executors/function_node.py", "attrs": {},
        "methods": {"_execute": {"pure": False, "returns": DICT(STR, ANY), "raises": ["Exception"], "coroutine": True}},
    },
    "AsyncGraphNodeExecutor": {"module": "hypergraph.runners.async_.executors.graph_node", "file": "runners/async_/executors/graph_node.py",
                               "attrs": {"runner": ANY}, "methods": {}},
    "SyncFunctionNodeExecutor": {"module": "hypergraph.runners.sync.executors.function_node", "file": "runners/sync/executors/function_node.py", "attrs": {}, "methods": {}},
    "DiskCache": {
        "module": "hypergraph.cache", "file": "cache.py",
        "attrs": {"_cache": OBJ("_DiskcacheBackend"), "_hmac_key": ANY, "_HMAC_SUFFIX": STR},
        "methods": {},
    },
    # diskcache.Cache (external, assumed contract A4): get/set/delete are total
    "_DiskcacheBackend": {"module": "diskcache", "file": None, "attrs": {},
                          "methods": {"get": {"pure": False, "returns": ANY, "raises": []}, "set": {"pure": False, "returns": ANY, "raises": []}, "delete": {"pure": False, "returns": ANY, "raises": []}}},
    "InMemoryCache": {"module": "hypergraph.cache", "file": "cache.py", "attrs": {"_max_size": OPT(INT), "_data": DICT(STR, ANY)}, "methods": {}},
    "SyncRunner": {
        "module": "hypergraph.runners.sync.runner", "file": "runners/sync/runner.py",
        "attrs": {"_cache": ANY, "_executors": DICT(ANY, ANY), "default_max_iterations": INT},
        "methods": {"_make_execute_node": {"pure": False, "returns": ANY, "raises": []}},
    },
    "AsyncRunner": {
        "module": "hypergraph.runners.async_.runner", "file": "runners/async_/runner.py",
        "attrs": {"_cache": ANY, "_executors": DICT(ANY, ANY), "default_max_iterations": INT},
        "methods": {"_make_execute_node": {"pure": False, "returns": ANY, "raises": []},
                    "_get_concurrency_limiter": {"pure": False, "returns": ANY, "raises": []},
                    "_set_concurrency_limiter": {"pure": False, "returns": ANY, "raises": []},
                    "_reset_concurrency_limiter": {"pure": False, "returns": NONE_T, "raises": []}},
    },
    "AsyncRunnerTemplate": {
        "module": "hypergraph.runners._shared.template_async", "file": "runners/_shared/template_async.py",
        "attrs": {"default_max_iterations": INT, "capabilities": ANY, "supported_node_types": ANY},
        "methods": {
            "_create_dispatcher": {"pure": False, "returns": OBJ("EventDispatcher"), "raises": []},
            "_emit_run_start_async": {"pure": False, "returns": FIXTUP(STR, STR), "raises": []},
            "_emit_run_end_async": {"pure": False, "returns": NONE_T, "raises": []},
            "_shutdown_dispatcher_async": {"pure": False, "returns": NONE_T, "raises": []},
            "_execute_graph_impl_async": {"pure": False, "returns": OBJ("GraphState"), "raises": ["BaseException", "PauseExecution"]},
            "_get_concurrency_limiter": {"pure": False, "returns": ANY, "raises": []},
            "_set_concurrency_limiter": {"pure": False, "returns": ANY, "raises": []},
            "_reset_concurrency_limiter": {"pure": False, "returns": NONE_T, "raises": []},
        },
    },
    "PauseExecution": {"module": "hypergraph.runners._shared.types", "file": "runners/_shared/types.py", "attrs": {"pause_info": ANY, "_partial_state": ANY}, "methods": {}},
    "EventDispatcher": {
        "module": "hypergraph.events.dispatcher", "file": "events/dispatcher.py",
        "attrs": {"active": BOOL, "_processors": SEQ(ANY), "_strict": BOOL},
        "methods": {},
    },
    "ExecutionError": {
        "module": "hypergraph.exceptions", "file": "exceptions.py",
        "attrs": {"partial_state": ANY, "__cause__": ANY},
        "methods": {},
    },
}

# attribute / method access on statically untyped values (e.g. elements of a locally built list): node vocabulary
ANY_ATTRS = dict(NODE_ATTRS)
ANY_ATTRS.update({"__cause__": ANY, "partial_state": ANY, "_partial_state": ANY, "pause_info": ANY, "error": ANY, "status": ANY})
ANY_ATTRS.update({"__name__": STR, "__module__": STR, "__qualname__": STR})  # class / function names in messages
ANY_ATTRS.update({"supports_async_nodes": BOOL, "supports_cycles": BOOL, "supports_interrupts": BOOL})  # RunnerCapabilities flags
ANY_ATTRS.update({"nodes": DICT(STR, DICT(STR, ANY))})  # networkx node table read as a mapping id -> attribute dict (viz helpers)
ANY_ATTRS.update({"current_span_id": SEQ(ANY)})  # executor slot for the running node's span id (a one-element list)
ANY_ATTRS.update({"kind": STR, "old": STR, "new": STR, "batch_id": ANY})  # RenameEntry fields read from an untyped element
ANY_METHODS = dict(NODE_METHODS)
ANY_METHODS.update({
    # event processors (user code): may raise anything; the async variants are coroutine functions
    "on_event": {"pure": False, "returns": NONE_T, "raises": ["Exception"]},
    "on_event_async": {"pure": False, "returns": NONE_T, "raises": ["Exception"], "coroutine": True},
    "shutdown": {"pure": False, "returns": NONE_T, "raises": ["Exception"]},
    "shutdown_async": {"pure": False, "returns": NONE_T, "raises": ["Exception"], "coroutine": True},
    # logging: dropped (assumed effect-free and non-raising, DESIGN 2.1)
    "warning": {"pure": False, "returns": NONE_T, "raises": []},
    "info": {"pure": False, "returns": NONE_T, "raises": []},
    "debug": {"pure": False, "returns": NONE_T, "raises": []},
    "error": {"pure": False, "returns": NONE_T, "raises": []},
    "exception": {"pure": False, "returns": NONE_T, "raises": []},
    "with_traceback": {"returns": ANY},
    # a runner reached through an executor's back reference (`self.runner.run / .map`): any outcome of a nested run
    "run": {"pure": False, "returns": OBJ("RunResult"), "raises": ["BaseException"]},
    "map": {"pure": False, "returns": SEQ(OBJ("RunResult")), "raises": ["BaseException"]},
    # a cache backend reached through an untyped parameter: the write may fail, returns nothing
    "set": {"pure": False, "returns": NONE_T, "raises": ["Exception"]},
    # asyncio.Queue / asyncio.Event reached through untyped locals (assumed contracts A4)
    "put_nowait": {"pure": False, "returns": NONE_T, "raises": []},
    "get_nowait": {"pure": False, "returns": ANY, "raises": ["QueueEmpty"]},
    "is_set": {"pure": False, "returns": BOOL, "raises": []},
    # networkx edge view `G.edges(data=True)`: read as a pure function of the graph giving a sequence of
    # (source name, target name, attribute dict) triples (assumed contract A4)
    "edges": {"pure": True, "returns": SEQ(FIXTUP(STR, STR, DICT(STR, ANY))), "raises": []},
    # networkx `G.subgraph(names)` (assumed contract A4: total; the induced view, its content is not used by verified code)
    "hexdigest": {"pure": False, "returns": STR, "raises": []},   # hmac / hashlib objects
    "subgraph": {"pure": False, "returns": ANY, "raises": []},
    # `.copy()` of an untyped value (a networkx graph view): total, an unspecified object
    "copy": {"pure": False, "returns": ANY, "raises": []},
})
ANY_ATTRS.update({"runner": ANY, "map_config": ANY})
OPAQUE = {
    # graph reachability over networkx (assumed contract A4): total on graphs built by the Graph constructor
    "_active_from_entrypoints": {"raises": [], "returns": SET(STR)},
    # ContextVar accessors of the shared concurrency limiter (assumed contracts A4: contextvars get/set/reset are total)
    "get_concurrency_limiter": {"raises": [], "returns": ANY},
    "set_concurrency_limiter": {"raises": [], "returns": OBJ("Token")},
    "reset_concurrency_limiter": {"raises": [], "returns": NONE_T},
    "Semaphore": {"raises": [], "returns": ANY},
    # HMAC-SHA256 over (key, bytes) (assumed contract A4: total; idealised as injective under a fixed secret)
    "_compute_hmac_bytes": {"raises": [], "returns": STR},
    # difflib.get_close_matches over (str, set[str]) (assumed contract A4: total; only feeds the error message text)
    "_find_similar_names": {"raises": [], "returns": OPT(STR)},
    # input validation pipeline (runners/_shared/validation.py): helpers outside the verified subset (networkx scopes,
    # message building); declared result types only, any of them may raise
    "_resolve_active_scope": {"returns": FIXTUP(DICT(STR, OBJ("HyperNode")), ANY)},
    "_compute_active_scope": {"returns": FIXTUP(DICT(STR, OBJ("HyperNode")), ANY)},
    "_compute_entrypoints": {"returns": DICT(STR, SEQ(STR))},
    "_resolve_effective_input_spec": {"returns": OBJ("InputSpec")},
    "get_edge_produced_values": {"returns": SET(STR)},
    "_get_interrupt_outputs": {"returns": SET(STR)},
    "_find_internal_override_conflicts": {"returns": SEQ(STR)},
    "_find_bypassed_inputs": {"returns": SET(STR)},
    "_get_suggestions": {"returns": ANY},
    "_build_missing_input_message": {"returns": STR},
    # uuid-based id generation and the frozen event dataclasses built from keyword arguments (assumed contracts A4: total)
    "_generate_run_id": {"raises": [], "returns": STR},
    "_generate_span_id": {"raises": [], "returns": STR},
    # graph/validation.py:_values_equal (assumed contract A4): total (catches ValueError/TypeError itself) and a pure
    # function of its two arguments; NOT assumed reflexive, symmetric or transitive
    "_values_equal": {"raises": [], "returns": BOOL, "pure": True},
    # _typing.is_type_compatible (assumed contract A4; the relation itself is decided by the bounded type-universe oracle):
    # total and a pure function of the two type objects
    "is_type_compatible": {"raises": [], "returns": BOOL, "pure": True},
    # graph/input_spec.py:_active_from_selection (worklist over networkx predecessors / descendants, outside the subset;
    # assumed contract A4, its behaviour is decided by the bounded C16 harness): total, a set of names
    "_active_from_selection": {"raises": [], "returns": SET(STR)},
    # both supersteps at their call sites in the runner loops (their own contracts, c_superstep.py, are verified under
    # call-site preconditions the loops do not discharge): any BaseException may leave a step (a node's exception wrapped in
    # ExecutionError, a pause signal, an interpreter-level signal); the result is a state object
    "run_superstep_sync": {"raises": ["BaseException"], "returns": OBJ("GraphState")},
    "run_superstep_async": {"raises": ["BaseException"], "returns": OBJ("GraphState"), "coroutine": True},
    # runners/_shared/validation.py:_group_entrypoints_by_scc (networkx strongly connected components, outside the subset;
    # assumed contract A4): total, a mapping from a cycle index to the entry points of that cycle
    "_group_entrypoints_by_scc": {"raises": [], "returns": DICT(INT, SEQ(STR))},
    # nodes/_rename.py:build_reverse_rename_map (assumed contract A4; its functional behaviour over rename HISTORIES is
    # decided by the bounded C06 harness only): total, returns a fresh dict[str, str] whose content is a deterministic
    # function of (history list, kind); the history list of a published node is never mutated
    "build_reverse_rename_map": {"raises": [], "returns": DICT(STR, STR), "pure_content": "dict"},
}


def _graphstate_copy(ex, recv, s):
    """GraphState.copy() -- ASSUMED contract (A4; its dict comprehension over `dataclasses.replace` allocates per element,
    outside the verified subset; exercised natively by every bounded harness run): a FRESH GraphState whose four dicts are
    FRESH and hold the same keys; values / versions / routing_decisions map to the same objects; node_executions maps each
    key to a record with the same node_name (the records themselves are copies)."""
    from pyvc.engine import alloc, alloc_dict
    from pyvc.calls import copy_container
    ex.model.used.add("ASSUMED contract GraphState.copy(): fresh state, fresh dicts with equal content (records of node_executions copied)")
    new = alloc(s, "GraphState", OBJ("GraphState"))
    s.assume(smt.inst_pred("GraphState")(new.t))
    for attr, (kty, vty) in {"values": (STR, ANY), "versions": (STR, INT), "node_executions": (STR, OBJ("NodeExecution")), "routing_decisions": (STR, ANY)}.items():
        src = ex.read_attr(recv, attr, DICT(kty, vty), s)
        d = alloc_dict(s, kty, vty)
        copy_container(s, "d", src.t, d.t)
        if attr == "node_executions":
            # the records are copies: unspecified fresh-or-not objects; only the key set and sizes are kept
            h = s.heap
            s.heap = h.with_comp("dv", z3.Store(h.c["dv"], d.t, z3.Const(smt.fresh_name("nx_copy"), z3.ArraySort(smt.V, smt.V))))
        if attr in s.heap.f:
            s.heap = s.heap.with_field(attr, z3.Store(s.heap.f[attr], new.t, d.t))
        else:
            s.assume(smt.attr_func(attr)(new.t) == d.t)
    s.trace.append(("call", ".copy", {"self": recv}))
    yield s, new


def _graph_shallow_copy(ex, recv, s):
    """Graph._shallow_copy() -- ASSUMED contract (A4; `copy.copy` + `__dict__.pop` are outside the verified subset; the
    class-wide static frame scan of C07 covers its body): a FRESH Graph with the same nodes, name, flags, selection and entry
    points, and a FRESH `_bound` dict holding the same bindings."""
    from pyvc.engine import alloc, alloc_dict
    from pyvc.calls import copy_container
    ex.model.used.add("ASSUMED contract Graph._shallow_copy(): fresh Graph, same immutable fields, fresh copy of _bound")
    new = alloc(s, "Graph", OBJ("Graph"))
    s.assume(smt.inst_pred("Graph")(new.t))
    for attr in ("_nodes", "name", "_strict_types", "_selected", "_entrypoints", "_nx_graph", "outputs", "_explicit_edges"):
        src = ex.read_attr(recv, attr, ANY, s)
        if attr in s.heap.f:
            s.heap = s.heap.with_field(attr, z3.Store(s.heap.f[attr], new.t, src.t))
        else:
            s.assume(smt.attr_func(attr)(new.t) == src.t)
    src = ex.read_attr(recv, "_bound", DICT(STR, ANY), s)
    d = alloc_dict(s, STR, ANY)
    copy_container(s, "d", src.t, d.t)
    if "_bound" in s.heap.f:
        s.heap = s.heap.with_field("_bound", z3.Store(s.heap.f["_bound"], new.t, d.t))
    else:
        s.assume(smt.attr_func("_bound")(new.t) == d.t)
    s.trace.append(("call", "._shallow_copy", {"self": recv}))
    yield s, new


def _graph_iter_nodes(ex, recv, s):
    """Graph.iter_nodes() (graph/core.py: `return self._nodes.values()`, one line, inlined): the values view of _nodes."""
    from pyvc.calls import call_method_val
    nodes = ex.read_attr(recv, "_nodes", DICT(STR, OBJ("HyperNode")), s)
    yield from call_method_val(ex, nodes, "values", [], {}, s)


def _lib_deepcopy(ex, args, kwargs, s):
    """copy.deepcopy (assumed contract A4): either raises TypeError/copy.Error, or returns r with IsDeepCopy(r, v)."""
    from pyvc.values import Raised
    from pyvc.engine import to_v, REG
    import copy as _copy
    (v,) = args[:1]
    REG.add(_copy.Error)
    for cls in ("TypeError", "Error"):
        s_r = s.fork()
        s_r.trace.append(("raised-by", "copy.deepcopy", cls))
        yield s_r, Raised(cls, None, {"exact": True, "by": "copy.deepcopy"})
    r = Val(smt.fresh_v("dcopy"), v.ty if isinstance(v, Val) else ANY)
    s.assume(IsDeepCopy(r.t, to_v(v, s)))
    yield s, r


IsDeepCopy = z3.Function("IsDeepCopy", smt.V, smt.V, z3.BoolSort())


def _spec_is_deepcopy(ex, args, kwargs, s):
    from pyvc.engine import to_v
    yield s, BVal(IsDeepCopy(to_v(args[0], s), to_v(args[1], s)))


def _spec_is_new(ex, args, kwargs, s):
    from pyvc.engine import to_v
    yield s, BVal(z3.Not(smt.Alloc0(to_v(args[0], s))))


def _spec_forall_keys(ex, args, kwargs, s):
    """forall_keys(lambda k: P, ...): symbolically a quantifier over ALL string values (the listed universes are ignored)."""
    from pyvc.engine import truth
    from pyvc.calls import apply
    fn = args[0]
    k = z3.Const(smt.push_binder("fk"), smt.V)
    ex.pure_depth += 1
    try:
        s2 = s.fork()
        res = list(apply(ex, fn, [Val(k, STR)], {}, s2))
        if len(res) != 1:
            raise Exception("forall_keys body forks")
        body = truth(res[0][1], res[0][0])
        extra = res[0][0].pc[len(s.pc):]
    finally:
        ex.pure_depth -= 1
        smt.pop_binder()
    # definitional view facts that do not mention the bound key are hoisted out of the quantifier
    # (F => forall k. B  ==  forall k. (F => B) when k is not free in F)
    from z3.z3util import get_vars
    dep = [f for f in extra if any(v.eq(k) for v in get_vars(f))]
    s.assume(*[f for f in extra if not any(f is d for d in dep)])
    hyp = [smt.is_str(k)] + dep
    yield s, BVal(z3.ForAll([k], z3.Implies(z3.And(*hyp), body)))


def _lib_warn(ex, args, kwargs, s):
    """warnings.warn: ghost effect warn(category); assumed not to raise (no -W error filter)."""
    s.trace.append(("warn", args[1].name if len(args) > 1 and hasattr(args[1], "name") else "UserWarning"))
    yield s, Val(smt.NONE, NONE_T)


def _lib_time(ex, args, kwargs, s):
    """time.time(): an opaque number; does not raise."""
    yield s, Val(smt.fresh_v("time"), ANY)


def _lib_exc_info(ex, args, kwargs, s):
    """sys.exc_info(): three opaque values (class, instance, traceback of the exception being handled, or None each);
    does not raise."""
    from pyvc.values import TupVal
    yield s, TupVal([Val(smt.fresh_v("exc_type"), ANY), Val(smt.fresh_v("exc_val"), ANY), Val(smt.fresh_v("exc_tb"), ANY)])


def _lib_hmac_new(ex, args, kwargs, s):
    """hmac.new(key, msg, digestmod) (assumed contract A4): total; an opaque MAC object.  The arguments are recorded."""
    s.trace.append(("call", "hmac.new", {"args": args, "kwargs": kwargs}))
    yield s, Val(smt.fresh_v("mac"), ANY)


def _lib_compare_digest(ex, args, kwargs, s):
    """hmac.compare_digest (assumed contract A4): total, returns a bool."""
    v = BVal(smt.fresh_bool("digest_eq"))
    s.env["_ret_compare_digest"] = v
    s.trace.append(("call", "compare_digest", {"args": args}))
    yield s, v


def _lib_pickle_loads(ex, args, kwargs, s):
    """pickle.loads: may raise any Exception on malformed bytes, else returns an opaque value."""
    from pyvc.calls import opaque_result
    s.trace.append(("call", "pickle.loads", {"args": args}))
    yield from opaque_result(ex, "pickle.loads", s, ANY, {"raises": ["Exception"]})


def _lib_pickle_dumps(ex, args, kwargs, s):
    from pyvc.calls import opaque_result
    s.trace.append(("call", "pickle.dumps", {"args": args}))
    yield from opaque_result(ex, "pickle.dumps", s, ANY, {"raises": ["PicklingError", "TypeError", "AttributeError"]})


def _lib_iskeyword(ex, args, kwargs, s):
    """keyword.iskeyword (= frozenset(kwlist).__contains__): a total predicate of its argument (uninterpreted)."""
    from pyvc.engine import to_v
    yield s, BVal(z3.Function("kw_iskeyword", smt.V, z3.BoolSort())(to_v(args[0], s)))


NX_REACH = z3.Function("nx_reaches", smt.V, smt.V, smt.V, z3.BoolSort())


def _spec_reaches(ex, args, kwargs, s):
    """specrt.reaches(G, a, b): the uninterpreted reachability relation of the (immutable during the call) networkx graph."""
    from pyvc.engine import to_v
    yield s, BVal(NX_REACH(to_v(args[0], s), to_v(args[1], s), to_v(args[2], s)))


def _lib_nx_descendants(ex, args, kwargs, s):
    """networkx.descendants(G, n) (assumed contract A4: n is a node of G - the callers pass validated names -, no exception):
    a FRESH set of names whose members are exactly the names related to n by the uninterpreted relation `reaches(G, n, .)`."""
    from pyvc.engine import to_v, alloc_set
    s.trace.append(("call", "nx.descendants", {"args": args}))
    g, n = to_v(args[0], s), to_v(args[1], s)
    r = alloc_set(s, STR)
    k = z3.Const(smt.fresh_name("dk"), smt.V)
    member = z3.Const(smt.fresh_name("desc_of"), z3.ArraySort(smt.V, z3.BoolSort()))
    cnt = smt.fresh_int("dn")
    s.heap = s.heap.with_comp("sh", z3.Store(s.heap.c["sh"], r.t, member)).with_comp("sn", z3.Store(s.heap.c["sn"], r.t, cnt))
    s.assume(smt.forall([k], member[k] == NX_REACH(g, n, k), patterns=[member[k]]),
             smt.forall([k], z3.Implies(NX_REACH(g, n, k), member[k]), patterns=[NX_REACH(g, n, k)]),
             smt.forall([k], z3.Implies(member[k], smt.is_str(k)), patterns=[member[k]]),
             *smt.heap_wellformed_ref(s.heap, r.t, "s"))
    yield s, r


def _lib_dict_fromkeys(ex, args, kwargs, s):
    """dict.fromkeys(iterable) (assumed contract A4: elements hashable, no exception): a fresh dict; only its existence is
    used by the verified code (de-duplication preserving order feeds `tuple(...)`)."""
    from pyvc.engine import alloc_dict
    s.trace.append(("call", "dict.fromkeys", {"args": args}))
    d = alloc_dict(s, ANY, ANY)
    h = s.heap
    s.heap = h.with_comp("dh", z3.Store(h.c["dh"], d.t, z3.Const(smt.fresh_name("fk_dh"), z3.ArraySort(smt.V, z3.BoolSort())))).with_comp(
        "dn", z3.Store(h.c["dn"], d.t, smt.fresh_int("fk_dn")))
    s.assume(*smt.heap_wellformed_ref(s.heap, d.t, "d"))
    yield s, d


LIBRARY = {
    "None.dict.fromkeys": _lib_dict_fromkeys,
    "None.frozenset.__contains__": _lib_iskeyword,
    "_hashlib.compare_digest": _lib_compare_digest,
    "hmac.compare_digest": _lib_compare_digest,
    "_operator._compare_digest": _lib_compare_digest,
    "_pickle.loads": _lib_pickle_loads,
    "_pickle.dumps": _lib_pickle_dumps,
    "time.time": _lib_time,
    "hmac.new": _lib_hmac_new,
    "sys.exc_info": _lib_exc_info,
    "warnings.warn": _lib_warn,
    "_warnings.warn": _lib_warn,
    "contracts.specrt.forall_keys": _spec_forall_keys,
    "copy.deepcopy": _lib_deepcopy,
    "contracts.specrt.is_deepcopy": _spec_is_deepcopy,
    "contracts.specrt.is_new": _spec_is_new,
    "contracts.specrt.reaches": _spec_reaches,
    "networkx.algorithms.dag.descendants": _lib_nx_descendants,
}
CTOR_FIELDS = {}
CTORS = {}


# Mutable containers held in different fields are different objects (separation, assumption A3; established by the
# dataclass default factories, GraphState.copy and the Graph constructor).  Only mutable dict/set fields are listed:
# immutable tuples may legitimately be shared (e.g. the empty tuple).
REGION_ATTRS = [
    "values", "versions", "node_executions", "routing_decisions",  # GraphState
    "input_versions", "wait_for_versions",  # NodeExecution
    "_nodes", "controlled_by", "self_producers",  # Graph
    "bound",  # InputSpec
]
Region = z3.Function("Region", smt.V, z3.IntSort())
# The executor's span slot (`execute_node.current_span_id`, a one-element list created in the executor's constructor and
# reachable through no other attribute): shared with no other attribute value of any object (assumption A3).
PRIVATE_ATTRS = ["current_span_id"]


def axioms(ex):
    """Structural facts of the object model used as hypotheses (each one listed in evidence.assumptions)."""
    ax = []
    o = z3.Const("rg_o", smt.V)
    for i, a in enumerate(REGION_ATTRS):
        f = smt.attr_func(a)
        ax.append(z3.ForAll([o], Region(f(o)) == i + 1, patterns=[f(o)]))
    ex.model.used.add("separation: containers held in fields %s are pairwise distinct objects" % ", ".join(REGION_ATTRS))
    # declared attribute types as facts: an attribute declared `str` on class C holds a string on every instance of C
    # (part of assumption A2 "declared attribute types"; stated as axioms so that spec-level reads can use them too)
    for cname, c in CLASSES.items():
        if cname not in smt._inst_preds:
            continue
        for attr, ty in c.get("attrs", {}).items():
            if ty == STR and attr in smt._attr_funcs:
                f = smt.attr_func(attr)
                ax.append(z3.ForAll([o], z3.Implies(smt.inst_pred(cname)(o), smt.is_str(f(o))), patterns=[f(o)]))
    p = z3.Const("rg_p", smt.V)
    for a in PRIVATE_ATTRS:
        if a not in smt._attr_funcs:
            continue
        fa = smt.attr_func(a)
        for name, f in list(smt._attr_funcs.items()):
            if name != a:
                ax.append(z3.ForAll([o, p], fa(o) != f(p), patterns=[z3.MultiPattern(fa(o), f(p))]))
        ex.model.used.add(f"separation: the container held in attribute {a} is shared with no other attribute value")
    return ax
