"""Object-model declarations for pyvc (assumptions A3/A4 of DESIGN.md 7.2 unless proved by a contract).

attrs: attribute -> static type; reading it is a pure function of the object within one call.
methods: method -> {'returns': ty, 'pure': True}  (uninterpreted function of self and arguments; raises nothing)
"""
# ruff: noqa
import z3

from pyvc import smt
from pyvc.values import ANY, STR, INT, BOOL, NONE_T, EXC, SEQ, DICT, SET, OBJ, OPT, Val, BVal, IVal, TupVal

NODE_ATTRS = {
    "name": STR,
    "inputs": SEQ(STR),
    "outputs": SEQ(STR),
    "wait_for": SEQ(STR),
    "data_outputs": SEQ(STR),
    "targets": SEQ(ANY),
    "default_open": BOOL,
    "cache": BOOL,
    "is_interrupt": BOOL,
    "is_async": BOOL,
    "multi_target": BOOL,
    "fallback": ANY,
    "when_true": ANY,
    "when_false": ANY,
    "definition_hash": STR,
    "func": ANY,
    "_rename_history": SEQ(OBJ("RenameEntry")),
    "_graph": OBJ("Graph"),
    "graph": OBJ("Graph"),
    "_map_over": OPT(SEQ(STR)),
    "_clone": ANY,
    "_emit": SEQ(STR),
    "_wait_for": SEQ(STR),
    "is_generator": BOOL,
}

NODE_METHODS = {
    "has_default_for": {"returns": BOOL},
    "get_default_for": {"returns": ANY},
    "has_signature_default_for": {"returns": BOOL},
    "get_signature_default_for": {"returns": ANY},
    "map_inputs_to_params": {"returns": DICT(STR, ANY)},
    "map_outputs_from_original": {"returns": DICT(STR, ANY)},
    "get_input_type": {"returns": ANY},
    "get_output_type": {"returns": ANY},
    "_resolve_original_input_name": {"returns": STR},
}

CLASSES = {
    "HyperNode": {"module": "hypergraph.nodes.base", "file": "nodes/base.py", "attrs": NODE_ATTRS, "methods": NODE_METHODS,
                  "optional_attrs": ("default_open", "cache", "targets", "multi_target")},
    "GateNode": {"module": "hypergraph.nodes.gate", "file": "nodes/gate.py", "attrs": {}, "methods": {}},
    "RouteNode": {"module": "hypergraph.nodes.gate", "file": "nodes/gate.py", "attrs": {}, "methods": {}},
    "IfElseNode": {"module": "hypergraph.nodes.gate", "file": "nodes/gate.py", "attrs": {}, "methods": {}},
    "FunctionNode": {"module": "hypergraph.nodes.function", "file": "nodes/function.py", "attrs": {}, "methods": {}},
    "InterruptNode": {"module": "hypergraph.nodes.interrupt", "file": "nodes/interrupt.py", "attrs": {}, "methods": {}},
    "GraphNode": {"module": "hypergraph.nodes.graph_node", "file": "nodes/graph_node.py", "attrs": {}, "methods": {}},
    "Graph": {
        "module": "hypergraph.graph.core", "file": "graph/core.py",
        "attrs": {
            "_nodes": DICT(STR, OBJ("HyperNode")),
            "controlled_by": DICT(STR, SEQ(STR)),
            "self_producers": DICT(STR, SET(STR)),
            "inputs": OBJ("InputSpec"),
            "outputs": SEQ(STR),
            "selected": OPT(SEQ(STR)),
            "entrypoints_config": OPT(SEQ(STR)),
            "_nx_graph": ANY,
            "_bound": DICT(STR, ANY),
            "name": OPT(STR),
            "_selected": OPT(SEQ(STR)),
            "_entrypoints": OPT(SEQ(STR)),
            "_strict_types": BOOL,
            "_explicit_edges": ANY,
        },
        "methods": {},
    },
    "InputSpec": {
        "module": "hypergraph.graph.input_spec", "file": "graph/input_spec.py",
        "attrs": {"required": SEQ(STR), "optional": SEQ(STR), "entrypoints": DICT(STR, SEQ(STR)), "bound": DICT(STR, ANY), "all": SEQ(STR)},
        "methods": {},
    },
    "GraphState": {
        "module": "hypergraph.runners._shared.types", "file": "runners/_shared/types.py",
        "attrs": {
            "values": DICT(STR, ANY),
            "versions": DICT(STR, INT),
            "node_executions": DICT(STR, OBJ("NodeExecution")),
            "routing_decisions": DICT(STR, ANY),
        },
        "methods": {},
    },
    "NodeExecution": {
        "module": "hypergraph.runners._shared.types", "file": "runners/_shared/types.py",
        "attrs": {"node_name": STR, "input_versions": DICT(STR, INT), "outputs": DICT(STR, ANY), "wait_for_versions": DICT(STR, INT)},
        "methods": {},
    },
    "RenameEntry": {
        "module": "hypergraph.nodes._rename", "file": "nodes/_rename.py",
        "attrs": {"kind": STR, "old": STR, "new": STR, "batch_id": ANY},
        "methods": {},
    },
    "RunResult": {
        "module": "hypergraph.runners._shared.types", "file": "runners/_shared/types.py",
        "attrs": {"values": DICT(STR, ANY), "status": ANY, "error": ANY, "pause": ANY, "run_id": STR},
        "methods": {},
    },
    "ExecutionError": {
        "module": "hypergraph.exceptions", "file": "exceptions.py",
        "attrs": {"partial_state": ANY, "__cause__": ANY},
        "methods": {},
    },
}

ANY_ATTRS = {}
ANY_METHODS = {}
OPAQUE = {}
LIBRARY = {}
CTOR_FIELDS = {}
CTORS = {}


def axioms(ex):
    """Structural facts of the object model used as hypotheses (each one listed in evidence.assumptions)."""
    return []
