"""Sidecar contracts: derivation operations of Graph (C07: a derived graph is a NEW object; the receiver is untouched)."""
# ruff: noqa
from pyvc.values import ANY, STR, INT, BOOL, NONE_T, SEQ, DICT, SET, OBJ, OPT, FIXTUP

GC = "graph/core.py:"

CONTRACTS = {
    GC + "Graph.bind": dict(
        props=["C07", "C08"],
        params={"self": OBJ("Graph"), "values": DICT(STR, ANY)},
        returns=OBJ("Graph"),
        # a name can be bound iff it is an input or a DATA output of the graph (never an ordering-only name), whichever key is wrong
        raises={"ValueError": "any(k in self._get_emit_only_outputs() or (k not in self.inputs.all and k not in self.outputs) for k in values)"},
        ensures=[
            "result is not self", "result._bound is not self._bound",
            # the new graph's bindings: the receiver's, overridden by the new ones; same nodes
            "forall_keys(lambda k: (k in result._bound) == (k in self._bound or k in values), self._bound, values, result._bound)",
            "forall_keys(lambda k: k not in values or result._bound[k] is values[k], values)",
            "forall_keys(lambda k: k not in self._bound or k in values or result._bound[k] is self._bound[k], self._bound)",
            "result._nodes is self._nodes",
        ],
        # FRAME: nothing that existed before the call is written (the receiver, its bindings, the caller's mapping)
        modifies=[],
        loops=[{"modifies": [], "invariant": ["not any(k in emit_only or k not in valid_names for k in _seq[:_i])"]}],
    ),
    GC + "Graph.unbind": dict(
        props=["C07"],
        params={"self": OBJ("Graph"), "keys": SEQ(STR)},
        returns=OBJ("Graph"),
        ensures=[
            "result is not self", "result._bound is not self._bound",
            "forall_keys(lambda k: (k in result._bound) == (k in self._bound and k not in keys), self._bound, result._bound)",
            "forall_keys(lambda k: k not in result._bound or result._bound[k] is self._bound[k], result._bound)",
            "result._nodes is self._nodes",
        ],
        modifies=[],
    ),
    GC + "Graph.select": dict(
        props=["C07", "C16"],
        params={"self": OBJ("Graph"), "names": SEQ(STR)},
        returns=OBJ("Graph"),
        # a selected name must be a declared output, wherever it sits in the argument list; no name twice
        may_raise={"ValueError": True},
        ensures=["result is not self", "result._selected == names", "result._nodes is self._nodes",
                 "all(n in self.outputs for n in names)"],
        modifies=[],
    ),
    GC + "Graph.with_entrypoint": dict(
        props=["C07", "C16"],
        params={"self": OBJ("Graph"), "node_names": SEQ(STR)},
        returns=OBJ("Graph"),
        imports={"GateNode": "hypergraph.nodes.gate"},
        raises={"GraphConfigError": "any(n not in self._nodes or isinstance(self._nodes[n], GateNode) for n in node_names)"},
        ensures=["result is not self", "result._nodes is self._nodes"],
        modifies=[],
        loops=[{"modifies": [], "invariant": ["not any(n not in self._nodes or isinstance(self._nodes[n], GateNode) for n in _seq[:_i])"]}],
    ),
    GC + "Graph._get_emit_only_outputs": dict(
        props=["C07", "C08", "C17"],
        params={"self": OBJ("Graph")},
        returns=SET(STR),
        # an ordering-only name: declared as an output by some node, as a DATA output by none
        ensures=["all(any(k in n.outputs for n in self._nodes.values()) and not any(k in n.data_outputs for n in self._nodes.values()) for k in result)",
                 "all(all(o in result or any(o in m.data_outputs for m in self._nodes.values()) for o in n.outputs) for n in self._nodes.values())"],
        modifies=[],
        pure=True,  # a function of the (immutable) graph: call sites and clauses share the term
        loops=[{"modifies": ["data_outputs", "all_outputs"], "invariant": [
            "all(all(o in data_outputs for o in m.data_outputs) for m in _seq[:_i])", "all(any(k in m.data_outputs for m in _seq[:_i]) for k in data_outputs)",
            "all(all(o in all_outputs for o in m.outputs) for m in _seq[:_i])", "all(any(k in m.outputs for m in _seq[:_i]) for k in all_outputs)"]}],
    ),
}
