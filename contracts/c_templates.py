"""Sidecar contracts (PATH obligations): run/map lifecycle templates (C08, C10, C11, C12, C14, C16)."""
# ruff: noqa
try:
    import z3
except ImportError:
    z3 = None
from pyvc.values import ANY, STR, INT, BOOL, NONE_T, SEQ, DICT, SET, OBJ, OPT, FIXTUP
from contracts.tracelib import before_effects, bracket, calls, names, raised_by, _nm

TS = "runners/_shared/template_sync.py:"
TA = "runners/_shared/template_async.py:"
GRAPH = OBJ("Graph")

RUN_VALIDATORS = {"normalize_inputs", "validate_runner_compatibility", "validate_node_types", "resolve_runtime_selected", "validate_inputs", "_validate_on_missing", "_validate_error_handling"}
MAP_VALIDATORS = {"normalize_inputs", "validate_runner_compatibility", "validate_node_types", "validate_map_compatible", "_validate_error_handling", "generate_map_inputs"}


def lifecycle(start, end, execute, shutdown, create="_create_dispatcher", validators=RUN_VALIDATORS, extra_effects=()):
    effects = {create, start, end, shutdown, *execute, *extra_effects}

    def runend_status(tr, outcome, *rest):
        """RunEnd carries an error exactly on the paths where the caller observes a failure (raise or FAILED result)."""
        ends = calls(tr, end)
        if not ends:
            return True
        has_err = "error" in ends[-1][2].get("kwargs", {})
        failed = outcome.startswith("raise") or any(e[0] == "new" and e[1] == "RunResult" and "FAILED" in e[2].get("status", "") for e in tr)
        return has_err == failed

    def failed_filter_ignores_missing(tr, outcome, *rest):
        """After a failure the partial values are filtered with the default on_missing (so a FAILED/PAUSED result is always returned)."""
        ends = [i for i, e in enumerate(tr) if e[0] == "call" and _nm(e[1]) == end and "error" in e[2].get("kwargs", {})]
        if not ends:
            return True
        for e in tr[ends[0]:]:
            if e[0] == "call" and _nm(e[1]) == "filter_outputs":
                om = e[2].get("on_missing")
                if om is None or "str:ignore" not in str(getattr(om, "t", om)):
                    return False
        return True

    def completed_filter_before_runend(tr, outcome, *rest):
        """On the success path outputs are filtered BEFORE RunEnd(completed) is emitted (a failing filter yields one failed RunEnd)."""
        ends = [i for i, e in enumerate(tr) if e[0] == "call" and _nm(e[1]) == end and "error" not in e[2].get("kwargs", {})]
        fo = [i for i, e in enumerate(tr) if e[0] == "call" and _nm(e[1]) == "filter_outputs"]
        return not ends or (bool(fo) and fo[0] < ends[0])

    def continue_mode_returns(tr, outcome, raised, env, ex, s):
        """Once the run has started, an Exception escapes only in raise mode (continue mode returns a FAILED result);
        non-Exception signals (KeyboardInterrupt, SystemExit, a pause) are not errors of the run and always pass."""
        from pyvc.engine import eq, lift
        from pyvc import smt
        if not outcome.startswith("raise") or not calls(tr, start):
            return True
        if raised is not None and raised.exc is not None:
            return z3.Or(eq(env["error_handling"], lift("raise"), s), z3.Not(smt.inst_pred("Exception")(raised.exc.t)))
        return eq(env["error_handling"], lift("raise"), s)

    def surfaced_is_cause(tr, outcome, raised, env, ex, s):
        """C11: in raise mode the exception that escapes is the failing node's own exception object: for the runner's
        internal wrapper (ExecutionError) its __cause__, otherwise the caught exception itself."""
        from pyvc import smt
        from pyvc.engine import truth
        from pyvc.values import Val
        if not outcome.startswith("raise") or not calls(tr, start) or "e" not in env or raised.exc is None:
            return True
        e = env["e"].t
        cause = smt.attr_func("__cause__")(e)
        is_wrap = smt.inst_pred("ExecutionError")(e)
        expected = z3.If(z3.And(is_wrap, truth(Val(cause, ANY), s)), cause, e)
        return raised.exc.t == expected

    def all_results_filtered(tr, outcome, *rest):
        """C16: every RunResult (completed, failed, paused) takes its values from filter_outputs (or is empty)."""
        for i, e in enumerate(tr):
            if e[0] == "new" and e[1] == "RunResult":
                v = e[2].get("values", "")
                if not (v.startswith("res!") or v.startswith("dict!")):
                    return False
        return True

    def ids_threaded(tr, outcome, raised, env, ex, s):
        """C12: the run id and span id that the RunStart hook returned are the ones handed to the execution loop (and so to
        every node event), to the RunEnd hook and to the result; RunStart and RunEnd get the caller's parent span; one
        dispatcher object serves all of them."""
        def t(v):
            return getattr(v, "t", None)
        if not calls(tr, start):
            return True
        if any(k not in env for k in ("run_id", "run_span_id", "dispatcher")):
            return not calls(tr, end) and not any(calls(tr, x) for x in execute)  # RunStart itself did not return
        rid, sid, disp, parent = t(env["run_id"]), t(env["run_span_id"]), t(env["dispatcher"]), t(env["_parent_span_id"])
        conds = []
        for e in calls(tr, start):
            a = e[2].get("args", [])
            if len(a) < 3:
                return False
            conds += [t(a[0]) == disp, t(a[2]) == parent]
        for x in execute:
            for e in calls(tr, x):
                kw = e[2].get("kwargs", {})
                if not {"dispatcher", "run_id", "run_span_id"} <= set(kw):
                    return False
                conds += [t(kw["dispatcher"]) == disp, t(kw["run_id"]) == rid, t(kw["run_span_id"]) == sid]
        for e in calls(tr, end):
            a = e[2].get("args", [])
            if len(a) < 6:
                return False
            conds += [t(a[0]) == disp, t(a[1]) == rid, t(a[2]) == sid, t(a[5]) == parent]
        for e in tr:
            if e[0] == "new" and e[1] == "RunResult" and len(e) > 3 and "run_id" in e[3]["fields"]:
                conds.append(t(e[3]["fields"]["run_id"]) == rid)
        return z3.And(*conds) if conds else True

    return [
        {"name": "C12 the ids returned by RunStart are threaded to the execution loop, RunEnd and the result; parent span and dispatcher unchanged", "check": ids_threaded},
        {"name": "C08 validate-before-effects: every validator precedes dispatcher creation / emission / execution; a rejected call has no effect", "check": before_effects(validators, effects)},
        {"name": "C12 RunStart .. exactly one RunEnd on every terminated path; execution between them; shutdown last, at most once", "check": bracket(start, end, body=set(execute), shutdown=shutdown, paused_ok=True)},
        {"name": "C12 RunEnd status equals what the caller observes", "check": runend_status},
        {"name": "C11/C16 FAILED result: partial values filtered with default on_missing", "check": failed_filter_ignores_missing},
        {"name": "C12 outputs filtered before RunEnd(completed)", "check": completed_filter_before_runend},
        {"name": "C11 continue mode never raises an Exception after RunStart", "check": continue_mode_returns},
        {"name": "C11 raise mode surfaces the node's own exception object (cause of the wrapper), unwrapped", "check": surfaced_is_cause},
        {"name": "C16 values of every result come from filter_outputs", "check": all_results_filtered},
    ]


FIRST_FAILED = "not any(r.status == RunStatus.FAILED for r in _seq[:_i])"

RUN_PARAMS = {"graph": GRAPH, "values": OPT(DICT(STR, ANY)), "select": ANY, "on_missing": STR, "on_internal_override": STR, "entrypoint": OPT(STR), "max_iterations": OPT(INT),
              "error_handling": STR, "event_processors": ANY, "_parent_span_id": OPT(STR), "input_values": DICT(STR, ANY)}

CONTRACTS = {
    TS + "SyncRunnerTemplate.run": dict(
        props=["C08", "C11", "C12", "C16"],
        params=dict(RUN_PARAMS, self=OBJ("SyncRunnerTemplate")),
        returns=OBJ("RunResult"),
        may_raise={"BaseException": True},
        trace=lifecycle("_emit_run_start_sync", "_emit_run_end_sync", ["_execute_graph_impl"], "_shutdown_dispatcher_sync"),
    ),
    TA + "AsyncRunnerTemplate.run": dict(
        props=["C08", "C11", "C12", "C14", "C16"],
        params=dict(RUN_PARAMS, self=OBJ("AsyncRunnerTemplate"), max_concurrency=OPT(INT)),
        returns=OBJ("RunResult"),
        may_raise={"BaseException": True},
        trace=lifecycle("_emit_run_start_async", "_emit_run_end_async", ["_execute_graph_impl_async"], "_shutdown_dispatcher_async"),
    ),
    TS + "SyncRunnerTemplate.map": dict(
        props=["C08", "C10", "C12"],
        params={"self": OBJ("SyncRunnerTemplate"), "graph": GRAPH, "values": OPT(DICT(STR, ANY)), "map_over": ANY, "map_mode": STR, "clone": ANY, "select": ANY, "on_missing": STR,
                "on_internal_override": STR, "entrypoint": OPT(STR), "error_handling": STR, "event_processors": ANY, "_parent_span_id": OPT(STR), "input_values": DICT(STR, ANY)},
        returns=SEQ(OBJ("RunResult")),
        may_raise={"BaseException": True},
        trace=[
            {"name": "C08 map: validators and input expansion precede every effect; a rejected or empty map has no effect",
             "check": before_effects(MAP_VALIDATORS, {"_create_dispatcher", "_emit_run_start_sync", "_emit_run_end_sync", "_shutdown_dispatcher_sync", "run"})},
            {"name": "C12 map: RunStart(is_map) .. exactly one RunEnd on every path; item runs between; shutdown last", "check": bracket("_emit_run_start_sync", "_emit_run_end_sync", body={"run"}, shutdown="_shutdown_dispatcher_sync")},
        ],
        # C10: one result per generated combination, in the order of the combinations: the item loop goes through
        # `input_variations` itself and has appended exactly one result per item visited
        ensures=["len(result) == len(input_variations)"],
        loops=[{"over": "input_variations", "invariant": ["len(results) == _i"]}],
    ),
    TA + "AsyncRunnerTemplate.map": dict(
        props=["C08", "C10", "C12", "C15"],
        params={"self": OBJ("AsyncRunnerTemplate"), "graph": GRAPH, "values": OPT(DICT(STR, ANY)), "map_over": ANY, "map_mode": STR, "clone": ANY, "select": ANY, "on_missing": STR,
                "on_internal_override": STR, "entrypoint": OPT(STR), "max_concurrency": OPT(INT), "error_handling": STR, "event_processors": ANY, "_parent_span_id": OPT(STR),
                "input_values": DICT(STR, ANY)},
        returns=SEQ(OBJ("RunResult")),
        may_raise={"BaseException": True},
        trace=[
            {"name": "C08 map: validators and input expansion precede every effect; a rejected or empty map has no effect",
             "check": before_effects(MAP_VALIDATORS, {"_create_dispatcher", "_emit_run_start_async", "_emit_run_end_async", "_shutdown_dispatcher_async", "_run_map_item", "_worker"})},
            {"name": "C12 map: RunStart(is_map) .. exactly one RunEnd on every path; item runs between; shutdown last",
             "check": bracket("_emit_run_start_async", "_emit_run_end_async", body={"_run_map_item", "_worker", "gather"}, shutdown="_shutdown_dispatcher_async")},
            {"name": "C10 map, raise mode: the error that propagates from the scan is the error of the first FAILED entry of `results` (input order)",
             "check": lambda tr, outcome, raised, env, ex, s: __import__("contracts.c_templates", fromlist=["x"]).scan_raises_first_failed(tr, outcome, raised, env, ex, s)},
            {"name": "C15 map: the shared limiter is installed only when none is active and a limit was given, and reset on every path before shutdown",
             "check": lambda tr, outcome, raised, env, ex, s: __import__("contracts.c_templates", fromlist=["x"]).map_limiter(tr, outcome, raised, env, ex, s)},
        ],
        imports={"RunStatus": "hypergraph.runners._shared.types"},
        # the two raise-mode scans (unbounded branch: loop 1, bounded branch: loop 4) go through the RETURNED list `results`
        # (input order) position by position, and stop at the first FAILED entry
        loops=[{"invariant": []}, {"over": "results", "invariant": [FIRST_FAILED]}, {"invariant": []}, {"invariant": []},
               {"over": "results", "invariant": [FIRST_FAILED]}],
    ),
    TA + "AsyncRunnerTemplate.map._run_map_item": dict(
        props=["C10", "C11"],
        params={"variation_inputs": DICT(STR, ANY), "self": OBJ("AsyncRunnerTemplate"), "graph": GRAPH, "select": ANY, "on_missing": STR, "on_internal_override": STR,
                "entrypoint": OPT(STR), "max_concurrency": OPT(INT), "event_processors": ANY, "map_span_id": STR},
        returns=OBJ("RunResult"),
        may_raise={"BaseException": True},
        # one item never takes the others down with an ordinary exception: it comes back as a FAILED result
        trace=[{"name": "C10/C11 an item's Exception is returned as a FAILED RunResult (only non-Exception BaseExceptions escape)",
                "check": lambda tr, outcome, raised, env, ex, s: __import__("contracts.c_templates", fromlist=["x"]).item_never_raises_exception(tr, outcome, raised, env, ex, s)}],
    ),
    TA + "AsyncRunnerTemplate.map._worker": dict(
        props=["C10"],
        params={"stop_event": ANY, "queue": ANY, "results_list": SEQ(ANY), "order": SEQ(INT), "error_handling": STR, "_run_map_item": ANY},
        callables={"_run_map_item": {"raises": ["BaseException"], "returns": OBJ("RunResult"), "coroutine": True}},
        returns=NONE_T,
        may_raise={"BaseException": True},
        trace=[],
        loops=[{"invariant": []}],
    ),
}


def scan_raises_first_failed(tr, outcome, raised, env, ex, s):
    """On a path whose exception left one of the raise-mode scans (no call between the iteration marker and the handler's
    RunEnd), the raised object is the `error` of the entry of `results` at the scan position; the loop invariant (no FAILED
    entry before that position) and the `over` obligation (the scan goes through `results` itself) make it the FIRST one."""
    import z3
    from pyvc import smt
    from pyvc.engine import eq
    from pyvc.values import Val
    if not outcome.startswith("raise") or raised.exc is None:
        return True
    its = [k for k, e in enumerate(tr) if e[0] == "loop-iter" and e[1] in (1, 4)]
    if not its:
        return True
    after = [e for e in tr[its[-1] + 1:] if e[0] in ("call", "call!")]
    if not after or _nm(after[0][1]) != "_emit_run_end_async":
        return True  # something called inside / after the scan raised: not the scan's own raise
    if "results" not in env or "_i" not in env:
        return False
    view = ex.iter_view(env["results"], s)
    entry = view.at(env["_i"].t if hasattr(env["_i"], "t") else env["_i"].i)
    return raised.exc.t == smt.attr_func("error")(entry.t)


def map_limiter(tr, outcome, raised, env, ex, s):
    import z3
    ns = names(tr)
    sets, resets = ns.count("_set_concurrency_limiter"), ns.count("_reset_concurrency_limiter")
    if sets > 1 or resets > sets:
        return False
    started = "_emit_run_start_async" in ns
    if sets == 1 and started and resets != 1:
        # installed but not reset on this path: only if the installer handed back no token (cannot happen for a ContextVar
        # token; the declared return type of the hook is untyped, so the path exists symbolically)
        from pyvc import smt
        tok = env.get("token")
        return tok.t == smt.NONE if getattr(tok, "t", None) is not None else False
    if resets == 1 and "_shutdown_dispatcher_async" in ns and ns.index("_reset_concurrency_limiter") > ns.index("_shutdown_dispatcher_async"):
        return False
    return True


def item_never_raises_exception(tr, outcome, raised, env, ex, s):
    import z3
    from pyvc import smt
    if not outcome.startswith("raise"):
        return True
    if raised is None or raised.exc is None:
        return raised is not None and raised.cls not in ("Exception",) and not ex_is_exception(raised.cls)
    return z3.Not(smt.inst_pred("Exception")(raised.exc.t))


def ex_is_exception(cls):
    import builtins
    c = getattr(builtins, cls, None)
    return isinstance(c, type) and issubclass(c, Exception)
