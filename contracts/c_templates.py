"""Sidecar contracts (PATH obligations): run/map lifecycle templates (C08, C11, C12, C15, C16)."""
# ruff: noqa
import z3
from pyvc.values import ANY, STR, INT, BOOL, NONE_T, SEQ, DICT, SET, OBJ, OPT, FIXTUP
from contracts.tracelib import before_effects, bracket, calls, names, raised_by

TS = "runners/_shared/template_sync.py:"
GRAPH = OBJ("Graph")

RUN_VALIDATORS = {"normalize_inputs", "validate_runner_compatibility", "validate_node_types", "resolve_runtime_selected", "validate_inputs", "_validate_on_missing", "_validate_error_handling"}
MAP_VALIDATORS = {"normalize_inputs", "validate_runner_compatibility", "validate_node_types", "validate_map_compatible", "_validate_error_handling", "generate_map_inputs"}
SYNC_EFFECTS = {"_create_dispatcher", "_emit_run_start_sync", "_execute_graph_impl", "_emit_run_end_sync", "_shutdown_dispatcher_sync", "run"}


def _runend_status(tr, outcome, *rest):
    """RunEnd carries an error exactly on the paths where the caller observes a failure (raise or FAILED result)."""
    ends = calls(tr, "_emit_run_end_sync")
    if not ends:
        return True
    has_err = "error" in ends[-1][2].get("kwargs", {})
    failed = outcome.startswith("raise") or any(e[0] == "new" and e[1] == "RunResult" and "FAILED" in e[2].get("status", "") for e in tr)
    return has_err == failed


def _failed_filter_ignores_missing(tr, outcome, *rest):
    """On the failure path the partial values are filtered with the default on_missing (a FAILED result is always returned)."""
    ends = [i for i, e in enumerate(tr) if e[0] == "call" and e[1].lstrip(".") == "_emit_run_end_sync" and "error" in e[2].get("kwargs", {})]
    if not ends:
        return True
    for e in tr[ends[0]:]:
        if e[0] == "call" and e[1] == "filter_outputs":
            om = e[2].get("on_missing")
            if om is None or "str:ignore" not in str(getattr(om, "t", om)):
                return False
    return True


def _completed_filter_before_runend(tr, outcome, *rest):
    """On the success path outputs are filtered BEFORE RunEnd(completed) is emitted (a failing filter must yield one failed RunEnd)."""
    ns = names(tr)
    ends = [i for i, e in enumerate(tr) if e[0] == "call" and e[1].lstrip(".") == "_emit_run_end_sync" and "error" not in e[2].get("kwargs", {})]
    fo = [i for i, e in enumerate(tr) if e[0] == "call" and e[1] == "filter_outputs"]
    return not ends or (fo and fo[0] < ends[0])


def _continue_mode_returns(tr, outcome, raised, env, ex, s):
    """Once the run has started, an exception escapes only in raise mode (continue mode returns a FAILED result)."""
    from pyvc.engine import eq, lift
    if not outcome.startswith("raise") or not calls(tr, "_emit_run_start_sync"):
        return True
    return eq(env["error_handling"], lift("raise"), s)


def _surfaced_is_cause(tr, outcome, raised, env, ex, s):
    """C11: in raise mode the exception that escapes is the failing node's own exception object: for the runner's
    internal wrapper (ExecutionError) its __cause__, otherwise the caught exception itself."""
    from pyvc import smt
    from pyvc.engine import to_v
    if not outcome.startswith("raise") or not calls(tr, "_emit_run_start_sync") or "e" not in env or raised.exc is None:
        return True
    e = env["e"].t
    cause = smt.attr_func("__cause__")(e)
    is_wrap = smt.inst_pred("ExecutionError")(e)
    from pyvc.engine import truth
    from pyvc.values import Val, ANY as _ANY
    expected = z3.If(z3.And(is_wrap, truth(Val(cause, _ANY), s)), cause, e)
    return raised.exc.t == expected


CONTRACTS = {
    TS + "SyncRunnerTemplate.run": dict(
        props=["C08", "C11", "C12", "C16"],
        params={"self": OBJ("SyncRunnerTemplate"), "graph": GRAPH, "values": OPT(DICT(STR, ANY)), "select": ANY, "on_missing": STR, "on_internal_override": STR,
                "entrypoint": OPT(STR), "max_iterations": OPT(INT), "error_handling": STR, "event_processors": ANY, "_parent_span_id": OPT(STR), "input_values": DICT(STR, ANY)},
        returns=OBJ("RunResult"),
        may_raise={"BaseException": True},
        trace=[
            {"name": "C08 validate-before-effects: every validator precedes dispatcher creation / emission / execution; a rejected call has no effect", "check": before_effects(RUN_VALIDATORS, SYNC_EFFECTS)},
            {"name": "C12 RunStart .. exactly one RunEnd on every path; execution between them; shutdown last, at most once", "check": bracket("_emit_run_start_sync", "_emit_run_end_sync", body={"_execute_graph_impl"}, shutdown="_shutdown_dispatcher_sync")},
            {"name": "C12 RunEnd status equals what the caller observes", "check": _runend_status},
            {"name": "C11/C16 FAILED result: partial values filtered with default on_missing", "check": _failed_filter_ignores_missing},
            {"name": "C12 outputs filtered before RunEnd(completed)", "check": _completed_filter_before_runend},
            {"name": "C11 continue mode never raises after RunStart", "check": _continue_mode_returns},
            {"name": "C11 raise mode surfaces the node's own exception object (cause of the wrapper), unwrapped", "check": _surfaced_is_cause},
        ],
    ),
}
