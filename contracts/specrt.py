"""Spec primitives: concrete (CPython) implementations.  Their symbolic counterparts are registered in
model_decl.LIBRARY under 'contracts.specrt.<name>'."""
# ruff: noqa

_IMMUTABLE = (int, float, str, bytes, bool, type(None), tuple, frozenset, complex, type, range)


def is_deepcopy(result, value):
    """`result` is an acceptable copy.deepcopy of `value`: equal, and not the same object unless immutable."""
    if result is value:
        return isinstance(value, _IMMUTABLE) or callable(value)
    try:
        return bool(result == value)
    except Exception:  # noqa: BLE001
        return True


def same_keys(d, names):
    return set(d.keys()) == set(names)


def forall_keys(fn, *dicts):
    """fn(k) holds for every key of the given mappings/iterables (symbolically: for every name at all)."""
    seen = set()
    for d in dicts:
        for k in list(d):
            if k not in seen:
                seen.add(k)
                if not fn(k):
                    return False
    return True


def is_new(x):
    """x was allocated during the call (symbolically: not allocated at function entry).  Concretely unobservable: True."""
    return True


def reaches(nx_graph, a, b):
    """b is a proper descendant of a in the networkx graph (symbolically: an uninterpreted relation of the three)."""
    import networkx as nx
    return a in nx_graph and b in nx.descendants(nx_graph, a)
