"""Sidecar contracts: cache backends and the runners' cache protocol (C09)."""
# ruff: noqa
from pyvc.values import ANY, STR, INT, BOOL, NONE_T, SEQ, DICT, SET, OBJ, OPT, FIXTUP
from contracts.tracelib import names, calls, _nm

C = "cache.py:"
K = "runners/_shared/caching.py:"


def hmac_before_unpickle(tr, outcome, raised, env, ex, s):
    """C09: bytes reach pickle.loads only on a path where they are raw bytes, a stored signature exists, is a str, and
    compare_digest(stored, HMAC(key, bytes)) returned true; every other path reports a miss; nothing escapes."""
    import z3
    from pyvc.engine import truth
    ns = names(tr)
    if "loads" not in ns:
        return True
    i = ns.index("loads")
    if ns[:i].count("compare_digest") != 1 or ns[:i].count("_compute_hmac_bytes") != 1 or ns[:i].count("get") != 2:
        return False
    from pyvc.calls import isinstance_pred
    from pyvc.values import PyVal
    raw, stored = env.get("raw_bytes"), env.get("stored_hmac")
    if raw is None or stored is None or "_ret_compare_digest" not in env:
        return False
    return z3.And(truth(env["_ret_compare_digest"], s), isinstance_pred(ex, raw, PyVal(bytes), s), isinstance_pred(ex, stored, PyVal(str), s))


def miss_or_verified(tr, outcome, raised, env, ex, s):
    """A hit is reported only on the verified path (after a successful pickle.loads); all other returns are (False, None)."""
    import z3
    from pyvc.engine import truth, identical, lift
    from pyvc.values import TupVal
    if outcome != "return":
        return True
    res = env.get("result")
    if not isinstance(res, TupVal) or len(res.items) != 2:
        return False
    hit = truth(res.items[0], s)
    loaded_ok = "loads" in names(tr) and not any(e[0] == "raised-by" and "loads" in e[1] for e in tr)
    if loaded_ok:
        return hit
    return z3.And(z3.Not(hit), identical(res.items[1], lift(None), s))


def payload_then_signature(tr, outcome, raised, env, ex, s):
    """C09 torn write: the payload row is written before the signature row; the signature is computed over exactly the
    bytes written; an unpicklable value writes nothing."""
    ns = names(tr)
    sets = [e for e in tr if e[0] == "call" and _nm(e[1]) == "set"]
    dumped_ok = "dumps" in ns and not any(e[0] == "raised-by" and "dumps" in e[1] for e in tr)
    if not dumped_ok:
        return len(sets) == 0
    if len(sets) != 2 or ns.count("_compute_hmac_bytes") != 1:
        return False
    first_args, second_args = sets[0][2].get("args", []), sets[1][2].get("args", [])
    raw = env.get("raw_bytes")
    mac = env.get("value_hmac")
    try:
        ok = str(first_args[1].t) == str(raw.t) and str(second_args[1].t) == str(mac.t) and ns.index("_compute_hmac_bytes") < [i for i, n in enumerate(ns) if n == "set"][0] + 10
    except Exception:  # noqa: BLE001
        return False
    return ok


def signs_key_and_payload(tr, outcome, raised, env, ex, s):
    """hmac.new is called exactly once, keyed with `hmac_key`, on the message  encode(cache_key) + raw_bytes  (the terms of the
    opaque byte operations: the message is a function of BOTH the key and the payload, in this order)."""
    import z3
    from pyvc import smt
    news = [e for e in tr if e[0] == "call" and str(e[1]).endswith("hmac.new")]
    if len(news) != 1:
        return False
    a = news[0][2].get("args", [])
    if len(a) < 2:
        return False
    def t(v):
        return getattr(v, "t", None)
    from pyvc.engine import to_v
    expected = ex.eval_pure("cache_key.encode() + raw_bytes", s)
    return z3.And(t(a[0]) == t(env["hmac_key"]), to_v(a[1], s) == expected)


CONTRACTS = {
    C + "DiskCache.get": dict(
        props=["C09"],
        params={"self": OBJ("DiskCache"), "key": STR},
        returns=FIXTUP(BOOL, ANY),
        trace=[{"name": "C09 no deserialisation of unauthenticated bytes (HMAC verified before pickle.loads)", "check": hmac_before_unpickle},
               {"name": "C09 hit only after verification and successful deserialisation; otherwise (False, None)", "check": miss_or_verified}],
    ),
    C + "DiskCache.set": dict(
        props=["C09"],
        params={"self": OBJ("DiskCache"), "key": STR, "value": ANY},
        returns=NONE_T,
        trace=[{"name": "C09 payload written first, then the signature over exactly those bytes; unpicklable value writes nothing", "check": payload_then_signature}],
    ),
    C + "InMemoryCache.get": dict(
        props=["C09"],
        params={"self": OBJ("InMemoryCache"), "key": STR},
        returns=FIXTUP(BOOL, ANY),
        ensures=["result[0] == old(key in self._data)", "not result[0] or result[1] is old(self._data.get(key))",
                 "forall_keys(lambda k: (k in self._data) == old(k in self._data) and (k not in self._data or self._data[k] is old(self._data.get(k))), self._data)"],
        modifies=["self._data"],
        mustfail="result[0] == (key not in self._data)",
    ),
    C + "_compute_hmac_bytes": dict(
        props=["C09"],
        params={"hmac_key": ANY, "cache_key": STR, "raw_bytes": ANY},
        returns=STR,
        raises={},
        call_site="opaque",
        modifies=[],
        trace=[{"name": "C09 the signature is computed, with the directory's secret, over the entry's KEY and its payload bytes (a signed payload cannot be served under another key)",
                "check": lambda tr, outcome, raised, env, ex, s: __import__("contracts.c_cache", fromlist=["x"]).signs_key_and_payload(tr, outcome, raised, env, ex, s)}],
    ),
    C + "InMemoryCache.set": dict(
        props=["C09"],
        params={"self": OBJ("InMemoryCache"), "key": STR, "value": ANY},
        returns=NONE_T,
        raises={},
        # whatever is retained is either the entry just written or an entry that was there before, UNCHANGED (eviction removes,
        # it never rewrites: no key can come to hold another key's value); an unbounded cache retains everything; a bounded
        # cache that was within its bound stays within it.  WHICH entry is evicted (least recently used) depends on the
        # insertion order of the OrderedDict, which the encoding does not model: bounded stand-in.
        ensures=["forall_keys(lambda k: k not in self._data or (self._data[k] is value if k == key else (old(k in self._data) and self._data[k] is old(self._data.get(k)))), self._data)",
                 "self._max_size is not None or (key in self._data and self._data[key] is value)",
                 "self._max_size is not None or forall_keys(lambda k: not old(k in self._data) or k in self._data, self._data)",
                 "self._max_size is None or old(len(self._data)) > self._max_size or len(self._data) <= self._max_size",
                 "len(self._data) <= old(len(self._data)) + 1"],
        modifies=["self._data"],
        mustfail="key in self._data",
    ),
    K + "check_cache": dict(
        props=["C09"],
        params={"node": OBJ("HyperNode"), "inputs": DICT(STR, ANY), "cache": ANY},
        returns=FIXTUP(STR, OPT(DICT(STR, ANY))),
        may_raise={"Exception": True},
        fresh=["result[1]"],  # a hit hands out a COPY of the stored mapping (the caller pops the routing key from it)
        trace=[{"name": "C09 opt-in: a node without cache=True never touches the backend", "check": lambda tr, outcome, raised, env, ex, s: __import__("contracts.c_cache", fromlist=["x"]).optin(tr, outcome, raised, env, ex, s)}],
    ),
    K + "store_in_cache": dict(
        props=["C09", "C16"],
        params={"node": OBJ("HyperNode"), "outputs": DICT(STR, ANY), "state": OBJ("GraphState"), "cache": ANY, "cache_key": STR},
        returns=NONE_T,
        may_raise={"Exception": True},   # the backend may fail
        # the node's outputs handed to the run are never touched: the routing key is added to a COPY only
        modifies=[],
        trace=[{"name": "C09/C16 exactly one backend write, of a copy of the outputs (never the dict the run goes on to use)",
                "check": lambda tr, outcome, raised, env, ex, s: __import__("contracts.c_cache", fromlist=["x"]).stores_copy(tr, outcome, raised, env, ex, s)}],
    ),
    K + "restore_routing_decision": dict(
        props=["C09", "C16"],
        params={"node": OBJ("HyperNode"), "outputs": DICT(STR, ANY), "state": OBJ("GraphState")},
        returns=NONE_T,
        requires=["outputs is not state.routing_decisions"],
        ensures=["not (isinstance(node, RouteNode) or isinstance(node, IfElseNode)) or _ROUTING_DECISION_KEY not in outputs",
                 "forall_keys(lambda k: k == _ROUTING_DECISION_KEY or ((k in outputs) == old(k in outputs) and (k not in outputs or outputs[k] is old(outputs.get(k)))), outputs)",
                 "forall_keys(lambda k: k == node.name or ((k in state.routing_decisions) == old(k in state.routing_decisions)), state.routing_decisions)"],
        modifies=["outputs", "state.routing_decisions"],
        mustfail="_ROUTING_DECISION_KEY in outputs or len(outputs) >= 0 and not old(_ROUTING_DECISION_KEY in outputs)",
    ),
}


def optin(tr, outcome, raised, env, ex, s):
    import z3
    from pyvc.engine import truth
    touched = any(e[0] == "call" and _nm(e[1]) in ("get", "set") for e in tr)
    if not touched:
        return True
    # the backend was consulted: only allowed when node.cache is truthy
    from pyvc import smt
    node = env["node"]
    has = z3.Function("hasattr_cache", smt.V, z3.BoolSort())(node.t)
    return z3.And(has, smt.attr_func("cache")(node.t) == smt.TRUE)


def stores_copy(tr, outcome, raised, env, ex, s):
    sets = [e for e in tr if e[0] == "call" and _nm(e[1]) == "set"]
    if outcome == "return" and len(sets) != 1:
        return False
    if len(sets) > 1:
        return False
    if not sets:
        return True
    args = sets[0][2].get("args", [])
    if len(args) != 2 or getattr(args[1], "t", None) is None:
        return False
    return args[1].t != env["outputs"].t
