"""Sidecar contracts: run-time input validation (C08: a call that leaves out a required input never passes validation)."""
# ruff: noqa
from pyvc.values import ANY, STR, INT, BOOL, NONE_T, SEQ, DICT, SET, OBJ, OPT, FIXTUP

RV = "runners/_shared/validation.py:"
SPEC = "_ret_resolve_effective_input_spec"

CONTRACTS = {
    RV + "validate_inputs": dict(
        props=["C08"],
        params={"graph": OBJ("Graph"), "values": DICT(STR, ANY), "entrypoint": OPT(STR), "selected": ANY, "on_internal_override": STR},
        returns=NONE_T,
        may_raise={"Exception": True},
        call_site="opaque",  # the postcondition speaks about results of calls made INSIDE the function (ghosts): callers keep the declaration
        # COMPLETENESS of the check: validation passes only when every required input of the effective input spec is supplied,
        # bound, or bypassed by a supplied downstream value (ghosts: the results of the two helper calls of this run)
        ensures=["all(k in values or k in " + SPEC + ".bound or k in _ret_find_bypassed_inputs for k in " + SPEC + ".required)"],
        modifies=[],
    ),
    RV + "_check_cycle_entry": dict(
        props=["C08"],
        params={"node_names": SEQ(STR), "entrypoints": DICT(STR, SEQ(STR)), "provided": SET(STR), "bypassed": SET(STR)},
        returns=NONE_T,
        # a cycle none of whose entry points is satisfied is rejected, and that is the ONLY reason for MissingInputError;
        # ValueError (ambiguity) needs at least two satisfied entry points
        raises={"MissingInputError": "not any(entry_satisfied(entrypoints, n, provided, bypassed) for n in node_names)"},
        may_raise={"ValueError": "any(entry_satisfied(entrypoints, n, provided, bypassed) for n in node_names)",
                   "KeyError": "not all(n in entrypoints for n in node_names)"},   # a listed name that is no entry point (callers never pass one)
        modifies=[],
        loops=[{"invariant": ["(len(satisfied) == 0) == (not any(entry_satisfied(entrypoints, node_names[j], provided, bypassed) for j in range(_i)))",
                              "all(x in entrypoints for x in satisfied)"], "modifies": ["satisfied"]},
               {"invariant": [], "modifies": ["lines"]},
               {"invariant": [], "modifies": ["lines"]}],
    ),
    RV + "_find_scc_for_node": dict(
        props=["C08"],
        params={"node_name": STR, "scc_groups": DICT(INT, SEQ(STR))},
        returns=OPT(INT),
        raises={},
        # the index of A group that lists the node, None exactly when no group does
        ensures=["result is not None or not any(node_name in scc_groups[g] for g in scc_groups)",
                 "result is None or (result in scc_groups and node_name in scc_groups[result])"],
        modifies=[],
        loops=[{"invariant": ["not any(node_name in kv[1] for kv in _seq[:_i])"]}],
    ),
    RV + "_validate_cycle_entry": dict(
        props=["C08"],
        params={"graph": OBJ("Graph"), "provided": SET(STR), "bypassed": SET(STR), "entrypoint": OPT(STR), "inputs_spec": OBJ("InputSpec")},
        returns=NONE_T,
        may_raise={"Exception": True},
        call_site="opaque",   # the second postcondition speaks about the grouping computed inside (ghost)
        # validation passes only when (a) an explicit entry point is a real entry point whose cycle parameters are all
        # provided or bypassed, and (b) every cycle group checked has a satisfied entry point
        ensures=["entrypoint is None or (entrypoint in inputs_spec.entrypoints and entry_satisfied(inputs_spec.entrypoints, entrypoint, provided, bypassed))",
                 "entrypoint is not None or all(any(entry_satisfied(inputs_spec.entrypoints, n, provided, bypassed) for n in _ret_group_entrypoints_by_scc[g]) for g in _ret_group_entrypoints_by_scc)"],
        modifies=[],
        loops=[{"invariant": []},
               {"invariant": ["all(any(entry_satisfied(inputs_spec.entrypoints, n, provided, bypassed) for n in grp) for grp in _seq[:_i])"]}],
    ),
}
