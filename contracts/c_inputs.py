"""Sidecar contracts: run-time input validation (C08: a call that leaves out a required input never passes validation)."""
# ruff: noqa
from pyvc.values import ANY, STR, INT, BOOL, NONE_T, SEQ, DICT, SET, OBJ, OPT, FIXTUP

RV = "runners/_shared/validation.py:"
SPEC = "_ret_resolve_effective_input_spec"

CONTRACTS = {
    RV + "validate_inputs": dict(
        props=["C08"],
        params={"graph": OBJ("Graph"), "values": DICT(STR, ANY), "entrypoint": OPT(STR), "selected": ANY, "on_internal_override": STR},
        returns=NONE_T,
        may_raise={"Exception": True},
        call_site="opaque",  # the postcondition speaks about results of calls made INSIDE the function (ghosts): callers keep the declaration
        # COMPLETENESS of the check: validation passes only when every required input of the effective input spec is supplied,
        # bound, or bypassed by a supplied downstream value (ghosts: the results of the two helper calls of this run)
        ensures=["all(k in values or k in " + SPEC + ".bound or k in _ret_find_bypassed_inputs for k in " + SPEC + ".required)"],
        modifies=[],
    ),
}
