"""Sidecar contracts: the mutual-exclusion test of the output-conflict rule (graph/_conflict.py) - C19.

Two producers of one name are tolerated when they sit in different branches of one exclusive gate.  Discharged here, with the
witnesses taken from the program state: whenever the pair test answers True, the group it stopped at IS one of the given
groups and the two recorded positions are two DIFFERENT valid positions of it whose branch sets contain the first and the
second name - so a pair is never declared exclusive without such a group.  The converse (every such pair is found when the
branch sets of a group are pairwise disjoint, which `_compute_exclusive_reachability` establishes), the reachability part
(networkx) and the ordering test stay with the bounded stand-in: the two-index existential over nested sequences of sets timed
out in both z3 versions at 120 s."""
# ruff: noqa
from pyvc.values import ANY, STR, INT, BOOL, NONE_T, SEQ, DICT, SET, OBJ, OPT, FIXTUP

CF = "graph/_conflict.py:"


def mutex_witness(tr, outcome, raised, env, ex, s):
    import z3
    from pyvc.engine import truth
    res = env.get("result")
    if outcome != "return" or res is None:
        return True
    if "branches" not in env or "a_branch" not in env:
        return z3.Not(truth(res, s))  # returned before / without a group at hand: only the final `return False`
    w = ex.eval_clause("a_branch is not None and b_branch is not None and 0 <= a_branch and a_branch < len(branches) and 0 <= b_branch and b_branch < len(branches) "
                       "and a_branch != b_branch and a in branches[a_branch] and b in branches[b_branch] and any(g is branches for g in expanded_groups)", s)
    return z3.Implies(truth(res, s), w)


CONTRACTS = {
    CF + "_is_pair_mutex": dict(
        props=["C19"],
        params={"a": STR, "b": STR, "expanded_groups": SEQ(SEQ(SET(STR)))},
        returns=BOOL,
        raises={},
        modifies=[],
        trace=[{"name": "C19 a pair is declared exclusive only with a witness: one of the given groups, two different positions in it, the names in those branch sets", "check": mutex_witness}],
        loops=[{"invariant": []},
               {"invariant": ["a_branch is None or (0 <= a_branch and a_branch < _i and a in branches[a_branch])",
                              "b_branch is None or (0 <= b_branch and b_branch < _i and b in branches[b_branch])"]}],
        mustfail="result",
    ),
}
