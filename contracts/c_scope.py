"""Sidecar contracts: the active node set of a scoped graph (graph/input_spec.py) - C16, C08.

`reaches(G, a, b)` is the reachability relation of the networkx graph (assumed contract of `networkx.descendants`, which is
outside the verified subset); everything the repository's own code does with it is discharged here."""
# ruff: noqa
from pyvc.values import ANY, STR, INT, BOOL, NONE_T, SEQ, DICT, SET, OBJ, OPT, FIXTUP

IS = "graph/input_spec.py:"

SCOPE_COMMON = [
    # the active table is a restriction of the node table: same objects under the same names, nothing foreign
    "forall_keys(lambda k: k not in result[0] or (k in nodes and result[0][k] is nodes[k]), nodes)",
    # no scoping at all: every node is active
    "(entrypoints is not None or selected is not None) or forall_keys(lambda k: (k in result[0]) == (k in nodes), nodes)",
    # entry points only: EXACTLY the entry points and what is downstream of them
    "(entrypoints is None or selected is not None) or forall_keys(lambda k: (k in result[0]) == (k in nodes and (k in entrypoints or any(reaches(nx_graph, ep, k) for ep in entrypoints))), nodes)",
]

CONTRACTS = {
    IS + "_compute_active_scope": dict(
        props=["C16", "C08"],
        params={"nodes": DICT(STR, OBJ("HyperNode")), "nx_graph": ANY, "entrypoints": OPT(SEQ(STR)), "selected": OPT(SEQ(STR))},
        returns=FIXTUP(DICT(STR, OBJ("HyperNode")), ANY),
        raises={},
        ensures=SCOPE_COMMON,
        modifies=[],
        call_site="opaque",
    ),
    IS + "_active_from_entrypoints": dict(
        props=["C16", "C08"],
        params={"entrypoint_nodes": SEQ(STR), "nodes": DICT(STR, OBJ("HyperNode")), "nx_graph": ANY},
        returns=SET(STR),
        raises={},
        # EXACTLY the nodes of the graph that are an entry point or downstream of one: nothing upstream, nothing foreign
        ensures=["forall_keys(lambda k: (k in result) == (k in nodes and (k in entrypoint_nodes or any(reaches(nx_graph, ep, k) for ep in entrypoint_nodes))), nodes)"],
        modifies=[],
        loops=[{"invariant": ["forall_keys(lambda k: (k in active) == (k in entrypoint_nodes or any(reaches(nx_graph, entrypoint_nodes[j], k) for j in range(_i))), active)"],
                "modifies": ["active"]}],
    ),
    "graph/_helpers.py:sources_of": dict(
        props=["C08", "C19"],
        params={"output": STR, "nodes": DICT(STR, OBJ("HyperNode"))},
        returns=SEQ(STR),
        raises={},
        # exactly the names of the nodes that list the output - none missing (a second producer is never overlooked), none foreign
        ensures=["all(any(n.name == r and output in n.outputs for n in nodes.values()) for r in result)",
                 "all(output not in n.outputs or n.name in result for n in nodes.values())"],
        modifies=[],
    ),
    IS + "_is_interrupt_produced": dict(
        props=["C08", "C14"],
        params={"param": STR, "nodes": DICT(STR, OBJ("HyperNode"))},
        returns=BOOL,
        raises={},
        ensures=["result == any(n.is_interrupt and param in n.outputs for n in nodes.values())"],
        modifies=[],
        mustfail="result == any(param in n.outputs for n in nodes.values())",
    ),
    "graph/_helpers.py:get_edge_produced_values": dict(
        props=["C08"],
        params={"nx_graph": ANY},
        returns=SET(STR),
        raises={},
        # EXACTLY the names carried by data edges: control and ordering edges contribute nothing, no data edge is skipped
        ensures=["forall_keys(lambda k: (k in result) == any(e[2].get('edge_type') == 'data' and k in list(e[2].get('value_names', [])) for e in nx_graph.edges(data=True)), result)"],
        modifies=[],
        call_site="opaque",   # callers use the result as an opaque set of names (their clauses do not look inside the edge view)
        loops=[{"invariant": ["forall_keys(lambda k: (k in result) == any(e[2].get('edge_type') == 'data' and k in list(e[2].get('value_names', [])) for e in _seq[:_i]), result)"], "modifies": ["result"]}],
    ),
}
